#!/usr/bin/env python3
"""C19 — Malformed Parquet/CSV input fails cleanly, never crashes or hangs.

Every mutant of a valid file is read by `SELECT * FROM read_parquet/read_csv(f)` (and a count) in a child process with a
wall-clock limit and a resident-memory watchdog; the outcome must be rows or an error.

Components
  footer      model of the footer validation (Core/Footer.lean) vs the engine on crafted footers: magic, metadata length
              lies (0, 1, file size - 8, file size - 7, 2^31, 2^32 - 1), files shorter than 12 bytes
  parquet     every truncation length and every byte x {^01, ^80, 00, FF} of the small test files; sampled positions of the
              footer / page-header / data regions of larger files
  csv         invalid UTF-8, unterminated quotes, ragged rows, NUL bytes, huge fields, CR-only / mixed terminators, BOM,
              delimiter-only and empty files, x dialect options
"""
import os
import re
import sys

import vlib
from sqlutil import Rng

SCRATCH = os.path.join(vlib.ROOT, "scratch", "c19")
TESTDATA = "/repo/testdata"
SMALL = ["parquet/small.parquet", "parquet/ts_millis_i64.parquet", "parquet/capital_column_names.parquet"]
LARGE = ["parquet/userdata0.parquet", "parquet/glob_numbers/100.parquet"]
INT_PANICS = ("with overflow", "divide by zero", "divisor of zero")


def site_of(msg):
    """<file>/<normalised panic message>: known findings are keyed by the panicking site, without line numbers (which
    shift with unrelated edits) and without the concrete numbers of the message."""
    msg = msg or ""
    i = msg.find("PANIC panicked at")
    if i >= 0:
        # several worker threads may panic at once: the key is the first panic only
        j = msg.find("PANIC panicked at", i + 1)
        msg = msg[i:j] if j >= 0 else msg[i:]
    text = re.sub(r"PANIC panicked at \S+ ?", "", msg)
    text = text.split("Rayon:")[0].split("PANIC")[0].strip()
    text = re.sub(r"\d+", "N", text)
    text = re.sub(r"[^A-Za-z]+", "-", text).strip("-")[:48] or "no-message"
    m = re.search(r"crates/([A-Za-z0-9_/.\-]+\.rs):(\d+)", msg)
    if m:
        return f"{m.group(1).split('/src/')[-1]}/{text}"
    m = re.search(r"/([A-Za-z0-9_\-]+-[0-9.]+)/src/([A-Za-z0-9_/]+\.rs):(\d+)", msg)
    if m:
        return f"{m.group(1)}/{m.group(2)}/{text}"
    if "memory allocation" in msg or "capacity overflow" in msg or "resident memory" in msg:
        return "alloc"
    return text


class Reader:
    def __init__(self, ck, fmt):
        self.ck = ck
        self.fmt = fmt
        self.runner = vlib.SqlRunner(mem_gb=3)
        self.stats = {"rows": 0, "err": 0, "panic": 0, "crash": 0, "timeout": 0}
        self.sites = {}
        self.n = 0

    def stmts_for(self, path, opts=""):
        fn = "read_parquet" if self.fmt == "parquet" else "read_csv"
        return [f"SELECT * FROM {fn}('{path}'{opts})", f"SELECT count(*) FROM {fn}('{path}'{opts})"]

    def classify(self, comp, what, path, r, data, extra):
        if "rows" in r:
            self.stats["rows"] += 1
            return
        if "err" in r:
            self.stats["err"] += 1
            return
        msg = r.get("panic", "")
        self.stats["panic"] += 1
        self.report(comp, "panic", msg, what, path, data, extra)

    def report(self, comp, kind, msg, what, path, data, extra):
        site = msg if kind == "hang" else site_of(msg)
        self.sites[site] = self.sites.get(site, 0) + 1
        keep = os.path.join(vlib.ROOT, "replays", "C19", "files")
        os.makedirs(keep, exist_ok=True)
        import hashlib
        kp = os.path.join(keep, hashlib.sha1(data).hexdigest()[:12] + (".parquet" if self.fmt == "parquet" else ".csv"))
        if not os.path.exists(kp) and len(data) < 300000:
            with open(kp, "wb") as f:
                f.write(data)
        self.ck.violation(f"{self.fmt}/{kind}/{site}", f"reading a malformed {self.fmt} file {kind}s ({what}): {msg[:160]}",
                          {"kind": "crash", "mutation": what, "file": kp, "stmts": self.stmts_for(kp, extra), "message": msg[:400]})

    def run_batch(self, comp, items):
        """items: list of (what, data bytes, opts)."""
        paths, flat = [], []
        for i, (what, data, opts) in enumerate(items):
            p = os.path.join(SCRATCH, f"m{self.n % 64}_{i}." + ("parquet" if self.fmt == "parquet" else "csv"))
            with open(p, "wb") as f:
                f.write(data)
            paths.append(p)
            flat += self.stmts_for(p, opts)
        self.n += 1
        res = self.runner.run(flat, timeout=30 + len(items))
        if isinstance(res, dict):
            if len(items) == 1:
                what, data, opts = items[0]
                self.ck.count(comp, 1)
                if res.get("timeout"):
                    self.stats["timeout"] += 1
                    # which of the two statements does not come back?
                    which = []
                    for name, st in zip(("select-star", "count-star"), self.stmts_for(paths[0], opts)):
                        r1 = self.runner.run([st], timeout=20)
                        if isinstance(r1, dict) and r1.get("timeout"):
                            which.append(name)
                    self.report(comp, "hang", "+".join(which) or "only-together", what, paths[0], data, opts)
                else:
                    self.stats["crash"] += 1
                    self.report(comp, "crash", str(res.get("crash", "")), what, paths[0], data, opts)
                return
            for it in items:
                self.run_batch(comp, [it])
            return
        for i, (what, data, opts) in enumerate(items):
            self.ck.count(comp, 1)
            self.ck.nontrivial((self.fmt, what, len(data)))
            for r in res[2 * i:2 * i + 2]:
                self.classify(comp, what, paths[i], r, data, opts)

    def close(self):
        self.runner.close()
        for k, v in self.stats.items():
            self.ck.note(self.fmt, "outcome_" + k, v)
        self.ck.note(self.fmt, "panic_sites", self.sites)


def byte_mutants(data, positions, what_prefix):
    out = []
    for pos in positions:
        b = data[pos]
        for nb, tag in ((b ^ 0x01, "^01"), (b ^ 0x80, "^80"), (0x00, "=00"), (0xFF, "=FF")):
            if nb != b:
                out.append((f"{what_prefix} byte {pos} {tag}", data[:pos] + bytes([nb]) + data[pos + 1:], ""))
    return out


def footer_component(ck, rd, rng):
    comp = "footer"
    base = open(os.path.join(TESTDATA, SMALL[0]), "rb").read()
    n = len(base)
    meta_len = int.from_bytes(base[-8:-4], "little")
    items = []
    lens = [0, 1, meta_len - 1, meta_len + 1, n - 8, n - 7, n - 12, n, n + 1, 2 ** 16, 2 ** 31 - 1, 2 ** 31, 2 ** 32 - 1, 0x7FFFFFF0, 0xFFFFFF00]
    model_lines = []
    for L in lens:
        data = base[:-8] + L.to_bytes(4, "little") + b"PAR1"
        items.append((f"footer metadata_len={L} (true {meta_len}, file {n} bytes)", data, ""))
    for magic in (b"PAR2", b"PARE", b"\x00\x00\x00\x00", b"par1"):
        items.append((f"footer magic={magic!r}", base[:-4] + magic, ""))
    for k in range(0, 14):
        items.append((f"file of {k} bytes", base[-k:] if k else b"", ""))
        items.append((f"file of {k} bytes (head)", base[:k], ""))
    # model: accepted / rejected and the size of the buffer the loader allocates
    for i, (what, data, _) in enumerate(items):
        model_lines.append(f"case {i} footer {data[-8:].hex() if len(data) >= 8 else '-'} {len(data)}")
    model = vlib.run_model(model_lines).get("out", {})
    bad_model = [model_lines[i] for i in range(len(items)) if not (model.get(str(i), "").startswith("ok") or model.get(str(i), "").startswith("err"))]
    if bad_model:
        ck.violation("footer/model", "Core/Footer.lean did not answer", {"correspondence": "Footer.load", "cases": bad_model[:3]}, found_input=False)
    # every footer the model rejects must be rejected by the engine (error, not rows); accepted ones may still fail later
    for i in range(0, len(items), 10):
        rd.run_batch(comp, items[i:i + 10])
    ck.note(comp, "model_rejects", sum(1 for i in range(len(items)) if model.get(str(i), "").startswith("err")))
    ck.note(comp, "model_max_alloc", max([int(model[str(i)].split("alloc=")[1]) for i in range(len(items)) if "alloc=" in model.get(str(i), "")] or [0]))


def parquet_component(ck, rd, rng, tier):
    comp = "parquet"
    items = []
    for rel in SMALL:
        data = open(os.path.join(TESTDATA, rel), "rb").read()
        name = os.path.basename(rel)
        step = 1 if tier != "quick" else 2
        for k in range(0, len(data), step):
            items.append((f"{name} truncated to {k} bytes", data[:k], ""))
        positions = range(len(data)) if tier != "quick" else [p for p in range(len(data)) if rng.below(3) == 0]
        items += byte_mutants(data, positions, name)
        # insert / delete one byte
        for _ in range(40 if tier == "quick" else 400):
            p = rng.below(len(data))
            items.append((f"{name} byte deleted at {p}", data[:p] + data[p + 1:], ""))
            items.append((f"{name} byte inserted at {p}", data[:p] + bytes([rng.below(256)]) + data[p:], ""))
    # files written by tools/pqwrite.py: several row groups and pages, optional columns (definition levels), strings
    import pqwrite
    for gi in range(2 if tier == "quick" else 8):
        cols = [("a", "int32", rng.chance(1, 2)), ("b", "int64", True), ("s", "utf8", True), ("f", "bool", True)]
        rgs = [{"rows": [[i * 3 + g, (None if i % 4 == 0 else i * 100000), (None if i % 5 == 0 else "v" * (i % 17)), (None if i % 3 == 0 else i % 2 == 0)] for i in range(rng.pick([3, 20, 60]))],
                "page_rows": rng.pick([None, 7])} for g in range(rng.pick([1, 2, 3]))]
        gp = os.path.join(SCRATCH, f"gen{gi}.parquet")
        pqwrite.write_file(gp, cols, rgs)
        data = open(gp, "rb").read()
        name = f"generated{gi}({len(rgs)} row groups)"
        positions = [p for p in range(len(data)) if rng.below(4 if tier == "quick" else 1) == 0]
        items += byte_mutants(data, positions, name)
        for k in range(0, len(data), 5 if tier == "quick" else 1):
            items.append((f"{name} truncated to {k} bytes", data[:k], ""))
    for rel in LARGE:
        path = os.path.join(TESTDATA, rel)
        if not os.path.exists(path):
            continue
        data = open(path, "rb").read()
        name = os.path.basename(rel)
        meta_len = int.from_bytes(data[-8:-4], "little")
        foot0 = len(data) - 8 - meta_len
        nfoot, nhead, ndata = (60, 40, 40) if tier == "quick" else (1500, 300, 600)
        pos = [foot0 + rng.below(meta_len + 8) for _ in range(nfoot)] + [rng.below(min(400, len(data))) for _ in range(nhead)] + [rng.below(len(data)) for _ in range(ndata)]
        items += byte_mutants(data, sorted(set(pos)), name)
        for _ in range(20 if tier == "quick" else 200):
            items.append((f"{name} truncated to {foot0 + rng.below(meta_len + 8)} bytes", data[:foot0 + rng.below(meta_len + 8)], ""))
            k = rng.below(len(data))
            items.append((f"{name} truncated to {k} bytes", data[:k], ""))
    # runs of continuation bytes / zeros: varints that never end (F62: thrift varint longer than 10 bytes), huge lengths, zeroed headers
    for rel in SMALL + LARGE:
        path = os.path.join(TESTDATA, rel)
        if not os.path.exists(path):
            continue
        data = open(path, "rb").read()
        name = os.path.basename(rel)
        meta_len = int.from_bytes(data[-8:-4], "little")
        foot0 = max(0, len(data) - 8 - meta_len)
        for _ in range(12 if tier == "quick" else 150):
            p = foot0 + rng.below(max(1, meta_len)) if rng.chance(2, 3) else rng.below(len(data))
            k = rng.pick([2, 5, 10, 11, 12, 20])
            fill = rng.pick([0xFF, 0x80, 0x81, 0x00])
            items.append((f"{name} bytes {p}..{p + k} ={fill:02x}", data[:p] + bytes([fill]) * k + data[p + k:], ""))
    ck.note(comp, "mutants", len(items))
    for i in range(0, len(items), 25):
        rd.run_batch(comp, items[i:i + 25])


def varint_component(ck, tier):
    """Core/Varint.lean vs the real thrift compact reader (read_i64 = read_vlq + zig-zag, through a cfg hook) on byte strings biased
    towards long continuation runs; a panic of the real reader is a violation with the bytes as replay."""
    comp = "varint"
    if vlib.HARNESS_DEGRADED:
        ck.violation("varint/harness", "the varint hook is not available (harness built without internals)", {"correspondence": "gvh varint"}, found_input=False)
        return
    res = vlib.run_pair("varint", [ck.seed, 3000 if tier == "quick" else 200000])
    if res["rc"] != 0 or not res["cases"]:
        ck.violation("varint/harness", "gvh varint failed: " + res["stderr"][-300:], {"correspondence": "gvh varint", "stderr": res["stderr"]}, found_input=False)
        return
    diffs = 0
    kinds = {"ok": 0, "err": 0}
    for k, line in res["cases"].items():
        ck.count(comp, 1)
        ck.nontrivial(line)
        i, m = res["impl"].get(k), res["model"].get(k)
        if i == "panic":
            ck.violation("varint/panic", f"the thrift varint reader panics on {line}", {"kind": "crash", "case": line})
            continue
        kinds["ok" if (i or "").startswith("ok") else "err"] += 1
        if i != m:
            diffs += 1
            if diffs <= 3:
                ck.violation("varint/model-diff", f"Core/Varint.lean and read_vlq disagree: {line} impl={i} model={m}", {"correspondence": "Varint.readVlq vs TCompactSliceInputProtocol::read_vlq", "case": line, "impl": i, "model": m}, found_input=False)
    ck.note(comp, "model_diffs", diffs)
    ck.note(comp, "outcomes", kinds)


def csv_component(ck, rd, rng, tier):
    comp = "csv"
    good = b"id,name,score\n1,ann,1.5\n2,\"b,ob\",2.5\n3,\"c\"\"q\",\n"
    items = [("valid", good, "")]
    bad = [
        ("invalid utf-8 in field", b"id,name\n1,\xff\xfe\n2,ok\n"), ("invalid utf-8 in header", b"i\xc3,name\n1,a\n"), ("truncated multi-byte at eof", b"a,b\n1,\xe4\xb8"),
        ("unterminated quote", b"a,b\n1,\"abc\n2,def\n"), ("unterminated quote at eof", b"a,b\n1,\""), ("quote in the middle", b"a,b\n1,ab\"c\n2,\"d\"e\n"),
        ("ragged rows (more)", b"a,b\n1,2,3\n4,5\n"), ("ragged rows (fewer)", b"a,b,c\n1\n2,3\n\n4,5,6\n"), ("nul bytes", b"a,b\n1,\x00\x00\n\x00,2\n"),
        ("only delimiters", b",,,\n,,,\n"), ("only newlines", b"\n\n\n\n"), ("empty file", b""), ("single byte", b"x"), ("single quote", b"\""), ("single delimiter", b","),
        ("cr only terminators", b"a,b\r1,2\r3,4\r"), ("mixed terminators", b"a,b\r\n1,2\n3,4\r5,6\n\r"), ("bom", b"\xef\xbb\xbfa,b\n1,2\n"),
        ("very long field", b"a,b\n1," + b"x" * 3000000 + b"\n"), ("very long header", b"h" * 200000 + b",b\n1,2\n"), ("many columns", b",".join([b"c"] * 5000) + b"\n" + b",".join([b"1"] * 5000) + b"\n"),
        ("many short rows", b"a\n" + b"1\n" * 200000), ("huge number", b"a\n" + b"9" * 400 + b"\n1\n"), ("float edge", b"a\n1e400\n-1e400\nnan\ninf\n"), ("type flip after sample", b"a\n" + b"1\n" * 5000 + b"x\n"),
        ("bool-like then int", b"a\ntrue\nfalse\n1\n"), ("quoted newlines", b"a,b\n\"1\n2\",3\n"), ("tabs and semicolons", b"a;b\tc\n1;2\t3\n"), ("binary garbage", bytes(rng.below(256) for _ in range(5000))),
        ("control characters", bytes(range(1, 32)) * 10), ("unterminated quote swallowing 1 MiB", b"a,b\n1,\"" + b"x,y\n" * 250000),
        ("unterminated quote swallowing 24 MiB", b"a,b\n1,2\n3,\"" + b"xyz,w\n" * (4 * 1024 * 1024)), ("single 20 MiB field", b"a,b\n1," + b"q" * (20 * 1024 * 1024) + b"\n2,3\n"),
    ]
    for what, data in bad:
        for opts in ["", ", header = true", ", delimiter = ';'", ", quote = ''''"] if tier != "quick" else ["", ", header = true"]:
            items.append((what + (" " + opts if opts else ""), data, opts))
    n = 150 if tier == "quick" else 3000
    alpha = [b"a", b"1", b",", b"\n", b"\"", b"\r", b";", b"\t", b" ", b"\xc3\xa9", b"\xff", b"\x00", b"|", b"'", b"1.5", b"true", b"2020-01-01"]
    for i in range(n):
        data = b"".join(rng.pick(alpha) for _ in range(rng.below(rng.pick([8, 40, 400]))))
        items.append((f"random csv-ish bytes #{i}", data, ""))
    for i in range(n // 2):
        k = rng.below(len(good))
        items.append((f"valid file truncated to {k}", good[:k], ""))
        p = rng.below(len(good))
        items.append((f"valid file byte {p} replaced", good[:p] + bytes([rng.below(256)]) + good[p + 1:], ""))
    ck.note(comp, "mutants", len(items))
    for i in range(0, len(items), 25):
        rd.run_batch(comp, items[i:i + 25])


def main():
    tier = sys.argv[1] if len(sys.argv) > 1 else "quick"
    ck = vlib.Check("C19", tier)
    os.makedirs(SCRATCH, exist_ok=True)
    ck.coverage["rule"] = ("mutants of valid files read by SELECT * / count(*) in a child process (31 s wall clock, 3 GiB resident-memory watchdog): footer length/magic lies and tiny files (vs Core/Footer.lean), "
                           "truncations at every length and per-byte corruptions {^01, ^80, =00, =FF} + insert/delete of the small Parquet test files, sampled footer/page-header/data positions of larger ones, "
                           "31 hand-written malformed CSV shapes x dialect options + random CSV-ish byte strings; outcome must be rows or error; distinct = distinct (mutation, length)")
    ck.assumptions = ["no Parquet writer exists offline: valid inputs are the files under /repo/testdata (PLAIN/dictionary/RLE, v1 pages, snappy/uncompressed)", "an out-of-bounds read that does not fault is invisible to this oracle (see C16)",
                      "decompressor internals are third-party code"]
    proof_ok = ck.proof_step()
    ok, blog, secs = vlib.build_harness()
    ck.coverage["harness_build_s"] = round(secs, 1)
    if not ok:
        ck.violation("harness/build", "harness does not build against /repo", {"correspondence": "harness build", "log": blog[-1500:]}, found_input=False)
        sys.exit(ck.finish())
    rng = Rng(ck.seed * 2221 + 19)
    rd = Reader(ck, "parquet")
    try:
        varint_component(ck, tier)
        footer_component(ck, rd, rng)
        parquet_component(ck, rd, rng, tier)
    finally:
        rd.close()
    rc = Reader(ck, "csv")
    try:
        csv_component(ck, rc, rng, tier)
    finally:
        rc.close()
    if not proof_ok:
        ck.violation("proof/C19", "proof obligation of Props/C19.lean no longer checks", {"theorem": "GlareModel.Props.C19.*", "log": ck.broken_proof}, found_input=bool(ck.violations))
    sys.exit(ck.finish())


if __name__ == "__main__":
    main()
