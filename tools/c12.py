#!/usr/bin/env python3
"""C12 — Integer and decimal arithmetic is exact or fails; never wraps or crashes."""
import json
import sys

import vlib
from sqlutil import Rng

INT_TYPES = [("Int8", "TINYINT", 8, True), ("Int16", "SMALLINT", 16, True), ("Int32", "INT", 32, True),
             ("Int64", "BIGINT", 64, True),
             ("UInt8", "UTINYINT", 8, False), ("UInt16", "USMALLINT", 16, False), ("UInt32", "UINT", 32, False),
             ("UInt64", "UBIGINT", 64, False)]
# 128-bit integer types have no SQL type name in this dialect; they are covered by the Lean theorems only.
OPS = ["+", "-", "*", "/", "%"]
OPNAME = {"+": "add", "-": "sub", "*": "mul", "/": "div", "%": "rem"}


def rng_of(t):
    name, sql, bits, signed = t
    return (-(1 << (bits - 1)), (1 << (bits - 1)) - 1) if signed else (0, (1 << bits) - 1)


def exact(op, a, b):
    """Mathematical result (None = undefined)."""
    if op == "+":
        return a + b
    if op == "-":
        return a - b
    if op == "*":
        return a * b
    if b == 0:
        return None
    q = abs(a) // abs(b)
    q = q if (a >= 0) == (b >= 0) else -q
    if op == "/":
        return q
    return a - b * q


def boundary(rng, lo, hi):
    c = rng.below(9)
    if c == 0:
        return lo
    if c == 1:
        return hi
    if c == 2:
        return 0 if lo <= 0 else lo
    if c == 3:
        return max(lo, min(hi, -1))
    if c == 4:
        return max(lo, min(hi, 1))
    if c == 5:
        return max(lo, min(hi, lo + rng.below(4)))
    if c == 6:
        return max(lo, min(hi, hi - rng.below(4)))
    if c == 7:
        k = rng.below(max(1, (hi - lo).bit_length()))
        v = (1 << k) - rng.below(2)
        return max(lo, min(hi, v if rng.chance(1, 2) else -v))
    return lo + rng.below(hi - lo + 1)


def dec_text(unscaled, scale):
    s = str(abs(unscaled)).rjust(scale + 1, "0")
    t = s[:-scale] + "." + s[-scale:] if scale > 0 else s
    return ("-" if unscaled < 0 else "") + t


def parse_cell_num(cell):
    if cell is None:
        return None
    if cell.startswith("d:"):
        return int(cell.split(":")[3])
    return int(cell)


def classify(res_stmt):
    if "rows" in res_stmt:
        return "rows"
    if "panic" in res_stmt:
        return "panic"
    return "err"


def eightbit(ck, runner):
    """Exhaustive 8-bit pairs in column context, guarded so that only representable results are evaluated;
    the guard (written in 32-bit arithmetic) must select exactly the pairs the model calls `ok`."""
    for tname, sql, bits, signed in [t for t in INT_TYPES if t[2] == 8]:
        lo, hi = rng_of((tname, sql, bits, signed))
        for op in OPS:
            lines, idx = [], {}
            n = 0
            for a in range(lo, hi + 1):
                for b in range(lo, hi + 1):
                    lines.append(f"case {n} arith {op} {tname} {a} {tname} {b}")
                    idx[n] = (a, b)
                    n += 1
            model = vlib.run_model(lines).get("out", {})
            if op in "+-*":
                guard = f"(a::INT {op} b::INT) BETWEEN {lo} AND {hi}"
            else:
                guard = "b <> 0" + (" AND NOT (a = -128 AND b = -1)" if signed else "")
            # materialise the representable pairs first: SQL does not promise that a projection is only
            # evaluated on rows that pass the WHERE clause
            stmts = [f"CREATE TEMP TABLE p AS SELECT a::{sql} AS a, b::{sql} AS b FROM generate_series({lo},{hi}) x(a), "
                     f"generate_series({lo},{hi}) y(b) WHERE {guard}",
                     f"SELECT a, b, a {op} b FROM p"]
            q = "; ".join(stmts)
            res = runner.run(stmts, timeout=120)
            if not isinstance(res, dict):
                res = res[1:]
            ck.count("int8_exhaustive", n)
            if isinstance(res, dict) or "rows" not in res[0]:
                ck.violation(f"arith/{OPNAME[op]}/{'int' if signed else 'uint'}/guarded-eval-failed",
                             f"{tname} {op}: evaluating only representable pairs failed: {str(res)[:200]}",
                             {"kind": "impl-vs-oracle", "sql": q, "result": res})
                continue
            got = {(int(r[0]), int(r[1])): int(r[2]) for r in res[0]["rows"]}
            ty = res[0]["cols"][2][1]
            bad = None
            for k, (a, b) in idx.items():
                m = model.get(str(k), "")
                ex = exact(op, a, b)
                if m.startswith("ok"):
                    mv = int(m.split()[2])
                    if (a, b) not in got or got[(a, b)] != mv or ty != tname or ex != mv:
                        bad = (a, b, m, got.get((a, b)), ty, ex)
                        break
                else:
                    if (a, b) in got:
                        bad = (a, b, m, got[(a, b)], ty, ex)
                        break
                ck.nontrivial(f"{tname}{op}{a},{b}")
            if bad:
                a, b, m, g, ty, ex = bad
                ck.violation(f"arith/{OPNAME[op]}/{'int' if signed else 'uint'}/wrong-value",
                             f"{a}::{sql} {op} {b}::{sql}: engine {g} ({ty}), model {m}, exact {ex}",
                             {"kind": "impl-vs-oracle", "sql": f"SELECT {a}::{sql} {op} {b}::{sql}", "engine": g, "model": m, "exact": ex})
    ck.sample({"int8": "all 65536 pairs x 5 ops x {TINYINT,UTINYINT}; representable ones evaluated over columns"})


def report_trap(ck, key_base, kind, sql, res, model):
    """Model says the native operator overflows / divides by zero. The property wants an error."""
    cls = "crash" if isinstance(res, dict) else classify(res[-1])
    if cls == "err":
        return
    what = {"panic": "panics (caught on the planning thread)", "crash": "kills the process (worker-thread panic aborts)",
            "rows": "returns a wrapped/invalid value"}[cls]
    ck.violation(f"{key_base}/{kind}-no-error", f"{sql}: {what} instead of reporting an error",
                 {"kind": "impl-vs-oracle", "sql": sql, "engine": res if isinstance(res, dict) else res[-1], "model": model})


def wide_ints(ck, runner, tier):
    rng = Rng(ck.seed * 31 + 5)
    per = 150 if tier == "quick" else 3000
    for t in INT_TYPES:
        tname, sql, bits, signed = t
        lo, hi = rng_of(t)
        cls = "int" if signed else "uint"
        cases = []
        for _ in range(per):
            op = rng.pick(OPS)
            cases.append((op, boundary(rng, lo, hi), boundary(rng, lo, hi)))
        if signed:
            for _ in range(per // 10):
                cases.append(("neg", boundary(rng, lo, hi), 0))
        lines = [(f"case {i} arith neg {tname} {a}" if op == "neg" else f"case {i} arith {op} {tname} {a} {tname} {b}")
                 for i, (op, a, b) in enumerate(cases)]
        model = vlib.run_model(lines).get("out", {})
        ok_cases, trap_cases = [], []
        for i, c in enumerate(cases):
            m = model.get(str(i), "")
            (ok_cases if m.startswith("ok") else trap_cases).append((c, m))
        ck.count("wide_int", len(cases), traps_predicted=len(trap_cases))

        def expr(op, a, b, lit=True):
            ca, cb = f"CAST('{a}' AS {sql})", f"CAST('{b}' AS {sql})"
            return f"-({ca})" if op == "neg" else f"{ca} {op} {cb}"
        # 1. representable results: folded (literal) context, in bulk
        for i in range(0, len(ok_cases), 40):
            chunk = ok_cases[i:i + 40]
            q = "SELECT " + ", ".join(expr(*c) for c, _ in chunk)
            res = runner.run([q], timeout=60)
            if isinstance(res, dict) or "rows" not in res[0]:
                ck.violation(f"arith/{cls}/fold-bulk-failed", f"{tname}: folding representable expressions failed: {str(res)[:300]}",
                             {"kind": "impl-vs-oracle", "sql": q, "result": res})
                continue
            row = res[0]["rows"][0]
            for j, ((op, a, b), m) in enumerate(chunk):
                mv = int(m.split()[2])
                ex = -a if op == "neg" else exact(op, a, b)
                g = parse_cell_num(row[j])
                ty = res[0]["cols"][j][1]
                ck.nontrivial(f"{tname}{op}{a},{b}")
                if g != mv or ex != mv or ty != tname:
                    opn = "neg" if op == "neg" else OPNAME[op]
                    ck.violation(f"arith/{opn}/{cls}/wrong-value", f"{expr(op, a, b)}: engine {g} ({ty}), model {m}, exact {ex}",
                                 {"kind": "impl-vs-oracle", "sql": "SELECT " + expr(op, a, b), "engine": g, "model": m, "exact": ex})
        # 2. representable results again over a column (vectorised context)
        bins = [c for c, _ in ok_cases if c[0] != "neg"][:400]
        if bins:
            stmts = [f"CREATE TEMP TABLE p (i INT, a {sql}, b {sql})",
                     "INSERT INTO p VALUES " + ", ".join(f"({i}, CAST('{a}' AS {sql}), CAST('{b}' AS {sql}))" for i, (op, a, b) in enumerate(bins))]
            for op in OPS:
                sel = [i for i, c in enumerate(bins) if c[0] == op]
                if not sel:
                    continue
                stmts.append(f"SELECT i, a {op} b FROM p WHERE i IN (" + ", ".join(map(str, sel)) + ")")
            res = runner.run(stmts, timeout=60)
            if isinstance(res, dict) or any("rows" not in r for r in res):
                ck.violation(f"arith/{cls}/column-bulk-failed", f"{tname}: column evaluation of representable expressions failed: {str(res)[:300]}",
                             {"kind": "impl-vs-oracle", "stmts": stmts, "result": res})
            else:
                k = 2
                for op in OPS:
                    sel = [i for i, c in enumerate(bins) if c[0] == op]
                    if not sel:
                        continue
                    for r in res[k]["rows"]:
                        i = int(r[0])
                        _, a, b = bins[i]
                        if parse_cell_num(r[1]) != exact(op, a, b):
                            ck.violation(f"arith/{OPNAME[op]}/{cls}/wrong-value-column", f"{a}::{sql} {op} {b}::{sql} over a column: engine {r[1]}, exact {exact(op, a, b)}",
                                         {"kind": "impl-vs-oracle", "stmts": stmts[:2] + [stmts[k]], "row": r})
                    k += 1
        # 3. traps: must be errors. Folded context (panic is caught), sampled individually.
        seen = set()
        for (op, a, b), m in trap_cases:
            kind = "divzero" if "divzero" in m else "overflow"
            opn = "neg" if op == "neg" else OPNAME[op]
            if (opn, kind) in seen:
                continue
            seen.add((opn, kind))
            q = "SELECT " + expr(op, a, b)
            res = runner.run([q], timeout=60)
            report_trap(ck, f"arith/{opn}/{cls}", kind, q, res, m)
            ck.sample({"sql": q, "model": m})


DEC_CONFIGS = [(64, 5, 2), (64, 3, 1), (64, 10, 0), (64, 18, 4), (64, 18, 0), (64, 9, 9), (64, 4, 3),
               (128, 20, 5), (128, 38, 10), (128, 38, 0), (128, 25, 2), (128, 19, 0)]


def decimals(ck, runner, tier):
    rng = Rng(ck.seed * 101 + 7)
    per = 400 if tier == "quick" else 8000
    cases = []
    for _ in range(per):
        op = rng.pick(["+", "-", "*"])
        lb, lp, ls = rng.pick(DEC_CONFIGS) if tier == "quick" or rng.chance(1, 2) else (0, 0, 0)
        if lp == 0:
            lp = 1 + rng.below(38)
            lb = 64 if lp <= 18 else 128      # the engine picks Decimal64 for precision <= 18
            ls = rng.below(lp + 1)
        mixed = rng.chance(1, 4)
        if mixed:
            it = rng.pick([t for t in INT_TYPES if t[3] and t[2] <= (32 if lb == 64 else 64)])
            rt = ("int", it)
        else:
            cands = [c for c in DEC_CONFIGS if c[0] == lb]
            rb, rp, rs = rng.pick(cands)
            rt = ("dec", (rb, rp, rs))
        lim = 10 ** lp - 1
        a = boundary(rng, -lim, lim)
        if rt[0] == "int":
            lo, hi = rng_of(rt[1])
            b = boundary(rng, lo, hi)
        else:
            lim2 = 10 ** rt[1][1] - 1
            b = boundary(rng, -lim2, lim2)
        left = ("dec", (lb, lp, ls))
        if rng.chance(1, 2):
            cases.append((op, left, a, rt, b))
        else:
            cases.append((op, rt, b, left, a))

    def tyname(t):
        return t[1][0] if t[0] == "int" else f"Decimal{t[1][0]}({t[1][1]},{t[1][2]})"

    def lit(t, v):
        if t[0] == "int":
            return f"CAST('{v}' AS {t[1][1]})"
        return f"CAST('{dec_text(v, t[1][2])}' AS DECIMAL({t[1][1]},{t[1][2]}))"

    lines = [f"case {i} arith {op} {tyname(l)} {a} {tyname(r)} {b}" for i, (op, l, a, r, b) in enumerate(cases)]
    model = vlib.run_model(lines).get("out", {})
    ck.count("decimal", len(cases))
    groups = {"ok": [], "other": []}
    for i, c in enumerate(cases):
        m = model.get(str(i), "")
        groups["ok" if m.startswith("ok") else "other"].append((c, m))
    ck.note("decimal", "model_ok", len(groups["ok"]))
    ck.note("decimal", "model_err_or_trap", len(groups["other"]))

    def scale_of(t):
        return 0 if t[0] == "int" else t[1][2]

    def check_one(c, m, res_stmt, sqltext):
        op, l, a, r, b = c
        opn = OPNAME[op]
        cls = classify(res_stmt) if not isinstance(res_stmt, dict) or "rows" in res_stmt or "err" in res_stmt or "panic" in res_stmt else "crash"
        if m.startswith("ok"):
            _, mty, mv = m.split()
            mv = int(mv)
            if cls != "rows":
                ck.violation(f"arith/{opn}/decimal/model-ok-engine-{cls}", f"{sqltext}: engine {cls} ({str(res_stmt)[:120]}), model {m}",
                             {"kind": "model-vs-impl", "sql": sqltext, "engine": res_stmt, "model": m})
                return
            gty = res_stmt["cols"][0][1]
            g = parse_cell_num(res_stmt["rows"][0][0])
            # oracle: exact value at the result scale, within the announced precision
            mm = __import__("re").match(r"Decimal(\d+)\((\d+),(-?\d+)\)", gty)
            if not mm:
                ck.violation(f"arith/{opn}/decimal/result-type", f"{sqltext}: result type {gty}", {"sql": sqltext, "engine": res_stmt})
                return
            gp, gs = int(mm.group(2)), int(mm.group(3))
            sa, sb = scale_of(l), scale_of(r)
            if op == "*":
                ex_num, ex_scale = a * b, sa + sb
            else:
                s = max(sa, sb)
                x, y = a * 10 ** (s - sa), b * 10 ** (s - sb)
                ex_num, ex_scale = (x + y if op == "+" else x - y), s
            exact_ok = (gs == ex_scale and g == ex_num)
            if gty != mty or g != mv:
                ck.violation(f"arith/{opn}/decimal/correspondence", f"{sqltext}: engine {g} {gty}, model {m}",
                             {"kind": "model-vs-impl", "sql": sqltext, "engine": res_stmt, "model": m, "exact": [ex_num, ex_scale]})
            elif not exact_ok:
                ck.violation(f"arith/{opn}/decimal/wrong-value", f"{sqltext}: engine {g} scale {gs}, exact {ex_num} scale {ex_scale}",
                             {"kind": "impl-vs-oracle", "sql": sqltext, "engine": res_stmt, "exact": [ex_num, ex_scale]})
            elif abs(g) >= 10 ** gp:
                ck.violation(f"arith/{opn}/decimal/precision-exceeded", f"{sqltext}: value {g} has more than {gp} digits but is typed {gty}",
                             {"kind": "impl-vs-oracle", "sql": sqltext, "engine": res_stmt})
        elif m == "err":
            if cls != "err":
                ck.violation(f"arith/{opn}/decimal/model-err-engine-{cls}", f"{sqltext}: engine {cls}, model err",
                             {"kind": "model-vs-impl", "sql": sqltext, "engine": res_stmt, "model": m})
        elif m.startswith("trap"):
            report_trap(ck, f"arith/{opn}/decimal", "overflow", sqltext, [res_stmt] if not isinstance(res_stmt, dict) or "rows" in res_stmt or "err" in res_stmt or "panic" in res_stmt else res_stmt, m)

    # ok cases individually folded (each its own statement but one request per 25)
    oks = groups["ok"]
    for i in range(0, len(oks), 25):
        chunk = oks[i:i + 25]
        stmts = [f"SELECT {lit(c[1], c[2])} {c[0]} {lit(c[3], c[4])}" for c, _ in chunk]
        res = runner.run(stmts, timeout=60)
        if isinstance(res, dict):
            ck.violation("arith/decimal/crash", f"decimal arithmetic script crashed: {str(res)[:200]}", {"kind": "crash", "stmts": stmts, "result": res})
            continue
        for (c, m), r, s in zip(chunk, res, stmts):
            ck.nontrivial(s)
            check_one(c, m, r, s)
    seen = {}
    for c, m in groups["other"]:
        key = (c[0], m, c[1][0], c[3][0])
        if seen.get(key, 0) >= (2 if tier == "quick" else 10):
            continue
        seen[key] = seen.get(key, 0) + 1
        s = f"SELECT {lit(c[1], c[2])} {c[0]} {lit(c[3], c[4])}"
        res = runner.run([s], timeout=60)
        ck.nontrivial(s)
        check_one(c, m, res[0] if not isinstance(res, dict) else res, s)
    ck.sample({"decimal_case": lines[0], "model": model.get("0")})


def rounding(ck, runner, tier):
    """round(x, n) on decimals = rescale to (p, n): half away from zero, ties on both signs."""
    rng = Rng(ck.seed * 211 + 9)
    n = 250 if tier == "quick" else 5000
    cases = []
    for _ in range(n):
        p = 2 + rng.below(37)
        bits = 64 if p <= 18 else 128
        s = 1 + rng.below(p)
        k = rng.below(s)                  # new scale k < s
        lim = 10 ** p - 1
        d = s - k
        c = rng.below(3)
        if c == 0:      # exact tie
            v = (rng.below(2 * 10 ** (p - d)) - 10 ** (p - d)) * 10 ** d + rng.pick([-1, 1]) * (10 ** d // 2)
        elif c == 1:    # just off a tie
            v = (rng.below(2 * 10 ** (p - d)) - 10 ** (p - d)) * 10 ** d + rng.pick([-1, 1]) * (10 ** d // 2 + rng.pick([-1, 1]))
        else:
            v = boundary(rng, -lim, lim)
        v = max(-lim, min(lim, v))
        cases.append((bits, p, s, k, v))
    lines = [f"case {i} cast dec2dec Decimal{b}({p},{s}) Decimal{b}({p},{k}) {v}" for i, (b, p, s, k, v) in enumerate(cases)]
    model = vlib.run_model(lines).get("out", {})
    ck.count("round", len(cases))
    for j in range(0, len(cases), 25):
        chunk = list(enumerate(cases))[j:j + 25]
        exprs = [f"round(CAST('{dec_text(v, s)}' AS DECIMAL({p},{s})), {k})" if (k > 0 or i % 2) else f"round(CAST('{dec_text(v, s)}' AS DECIMAL({p},{s})))"
                 for i, (b, p, s, k, v) in chunk]
        res = runner.run(["SELECT " + ", ".join(exprs)], timeout=60)
        if isinstance(res, dict) or "rows" not in res[0]:
            ck.violation("arith/round/decimal/failed", f"round() batch failed: {str(res)[:200]}", {"kind": "impl-vs-oracle", "sql": "SELECT " + ", ".join(exprs), "engine": res})
            continue
        for (i, (b, p, s, k, v)), cell, col, e in zip(chunk, res[0]["rows"][0], res[0]["cols"], exprs):
            ck.nontrivial(e)
            q, rem = divmod(abs(v), 10 ** (s - k))
            if 2 * rem >= 10 ** (s - k):
                q += 1
            ex = q if v >= 0 else -q
            g = parse_cell_num(cell)
            m = model.get(str(i), "")
            if g != ex or col[1] != f"Decimal{b}({p},{k})":
                ck.violation("arith/round/decimal/wrong-value", f"SELECT {e} = unscaled {g} typed {col[1]}; exact half-away-from-zero result {ex} typed Decimal{b}({p},{k})",
                             {"kind": "impl-vs-oracle", "sql": "SELECT " + e, "engine": cell, "exact": ex, "model": m})
            elif m != f"ok {ex}":
                ck.violation("arith/round/decimal/correspondence", f"{e}: model {m}, engine {g}", {"kind": "model-vs-impl", "correspondence": "Arith.rescale"}, found_input=False)
    ck.sample({"round_case": lines[0] if lines else None})


def sums(ck, runner, tier):
    rng = Rng(ck.seed * 977 + 3)
    n = 40 if tier == "quick" else 600
    I64 = (1 << 63) - 1
    for case in range(n):
        kind = rng.pick(["small", "overflow_pos", "overflow_neg", "near", "empty", "nulls"])
        rows = 1 + rng.below(rng.pick([3, 50, 3000]))
        if kind == "small":
            vals = [rng.below(2001) - 1000 for _ in range(rows)]
        elif kind == "overflow_pos":
            vals = [I64 - rng.below(5) for _ in range(2 + rng.below(3))] + [rng.below(10) for _ in range(rows)]
        elif kind == "overflow_neg":
            vals = [-I64 - 1 + rng.below(5) for _ in range(2 + rng.below(3))] + [-rng.below(10) for _ in range(rows)]
        elif kind == "near":
            vals = [I64 // 4 for _ in range(3)] + [rng.below(1000) for _ in range(rows)]
        elif kind == "empty":
            vals = []
        else:
            vals = [rng.below(100) for _ in range(rows)]
        vals = rng.shuffle(vals)
        nulls = kind == "nulls"
        parts = rng.pick([1, 2, 4, 16])
        bsz = rng.pick([1, 7, 2048]) if len(vals) < 200 else rng.pick([64, 2048])
        stmts = ["CREATE TEMP TABLE s (a BIGINT)"]
        lits = [str(v) if v > -I64 - 1 else "CAST('-9223372036854775808' AS BIGINT)" for v in vals]
        if nulls:
            lits += ["NULL"] * (1 + rng.below(4))
        for i in range(0, len(lits), 500):
            stmts.append("INSERT INTO s VALUES " + ", ".join(f"({x})" for x in lits[i:i + 500]))
        stmts += [f"SET partitions TO {parts}", f"SET batch_size TO {bsz}", "SELECT sum(a) FROM s"]
        res = runner.run(stmts, timeout=120)
        ck.count("sum", 1)
        ck.nontrivial(("sum", kind, len(vals), parts, bsz, sum(vals)))
        total = sum(vals)
        model = vlib.run_model([f"case 0 sum 64 " + (",".join(map(str, vals)) if vals else "")]).get("out", {}).get("0", "")
        if isinstance(res, dict):
            ck.violation("sum/int64/crash", f"sum over {len(vals)} values crashed: {str(res)[:200]}", {"kind": "crash", "stmts": stmts, "result": res})
            continue
        last = res[-1]
        if any(("err" in r or "panic" in r) for r in res[:-1]):
            continue
        representable = -I64 - 1 <= total <= I64
        if representable:
            exp = None if (not vals) else str(total)
            # all-same-sign or small lists: no partial sum can overflow, so an error is not acceptable either
            if "rows" not in last or last["rows"][0][0] != exp:
                ck.violation("sum/int64/wrong-value", f"sum of {len(vals)} BIGINTs ({kind}, partitions={parts}): engine {str(last)[:120]}, exact {exp}",
                             {"kind": "impl-vs-oracle", "stmts": stmts, "engine": last, "exact": exp, "model": model})
        else:
            if classify(last) != "err":
                ck.violation("sum/int64/overflow-no-error", f"sum overflows BIGINT but the engine returned {str(last)[:120]}",
                             {"kind": "impl-vs-oracle", "stmts": stmts, "engine": last, "exact": total, "model": model})
    ck.sample({"sum_case": "CREATE TEMP TABLE s(a BIGINT); INSERT ...; SET partitions/batch_size; SELECT sum(a) FROM s"})


def main():
    tier = sys.argv[1] if len(sys.argv) > 1 else "quick"
    ck = vlib.Check("C12", tier)
    ck.coverage["rule"] = ("int8_exhaustive: all pairs of both 8-bit types x + - * / %; wide_int: boundary-biased pairs per integer type in folded and column context; "
                           "decimal: boundary-biased unscaled values over (precision,scale) configurations incl. mixed int/decimal and the 64/128 boundary; "
                           "sum: BIGINT lists over partitions/batch sizes. distinct = distinct SQL expression / case tuple")
    ck.assumptions = ["Python big-integer arithmetic is the oracle for exact results",
                      "float-typed results (decimal /, %, abs/ceil/floor on decimals return Float64 in this dialect) are out of the modelled fragment"]
    proof_ok = ck.proof_step()
    ok, blog, secs = vlib.build_harness()
    ck.coverage["harness_build_s"] = round(secs, 1)
    if not ok:
        ck.violation("harness/build", "harness does not build against /repo", {"correspondence": "harness build", "log": blog[-1500:]}, found_input=False)
        sys.exit(ck.finish())
    runner = vlib.SqlRunner()
    try:
        eightbit(ck, runner)
        wide_ints(ck, runner, tier)
        decimals(ck, runner, tier)
        rounding(ck, runner, tier)
        sums(ck, runner, tier)
    finally:
        runner.close()
    if not proof_ok:
        ck.violation("proof/C12", "proof obligation of Props/C12.lean no longer checks", {"theorem": "GlareModel.Props.C12.*", "log": ck.broken_proof},
                     found_input=bool(ck.violations))
    sys.exit(ck.finish())


if __name__ == "__main__":
    main()
