#!/usr/bin/env python3
"""C14 — Catalog and table contents equal the sequential effect of DDL/DML.

Components
  scripts      random DDL/DML/SET histories over a small universe (3 schemas x 4 names x {table, view}) run on 1-3
               sessions of one engine and on the Lean catalog model (Core/Catalog.lean); outcome of every statement
               and the full observable state (object listing, every table's bag, settings) must agree
  self_insert  INSERT INTO t SELECT * FROM t around the append-flush threshold (16 chunks x 2048 rows per appender)
               under several partition counts: the table must exactly double (statement reads its own start state)
  parallel     INSERT .. SELECT / CTAS of generate_series ranges under partitions 1..16 and small batch sizes:
               every row visible exactly once (count, sum, count distinct)
  collection   the real ConcurrentColumnCollection driven by generated append/flush/scan/parallel-scan interleavings
               against Core/Collection.lean
"""
import json
import sys

import qgen
import vlib
from qgen import INT, STR, BOOL
from sqlutil import Rng, bag

SCHEMAS = ["temp", "s1", "s2"]
SIGS = {"t1": [INT, STR], "t2": [INT, INT, BOOL], "t3": [INT], "t4": [INT, STR, INT]}
NAMES = sorted(SIGS)
MAXI = 9223372036854775807
FEATS = {"join", "outer", "agg", "distinct", "union", "case", "inlist", "limit"}
# engine rejections of valid SQL that are limitations of the binder/planner, not catalog behaviour
UNSUPPORTED = ("Not yet implemented", "not yet supported", "not supported", "Unsupported", "unsupported", "must appear in the GROUP BY clause")


class R(qgen.Renderer):
    """Tables are referred to by their qualified model name `schema.name`."""

    def query(self, q, outer=None):
        if q[0] == "scan":
            a = self.alias()
            return "SELECT " + ", ".join(f"{a}.k{i} AS c{i}" for i in range(len(self.schema[q[1]]))) + f" FROM {q[1]} AS {a}"
        return super().query(q, outer)


def sqlname(s, n, rng):
    if s == "temp":
        return rng.pick([n, n, f"temp.{n}", f"temp.temp.{n}"])
    return rng.pick([f"{s}.{n}", f"{s}.{n}", f"temp.{s}.{n}"])


class Mirror:
    """The generator's own (approximate) idea of what exists: only used to bias choices."""

    def __init__(self):
        self.s = {"temp": {}}

    def objs(self):
        return [(s, n, k) for s, d in self.s.items() for n, k in d.items()]


def fail_query(rng, sig, g):
    """A query of signature `sig` whose evaluation fails at run time (sum overflow) - never folded at plan time."""
    src = ("agg", [], [("sum", False, ("col", 0), None)], ("values", [[("lit", MAXI, INT)], [("lit", MAXI, INT)]]))
    return ("project", [g.expr([INT], t, 1) if t != INT else ("col", 0) for t in sig], src)


def gen_script(rng, nsess, length):
    """Returns list of (sid, model sexp with {LEFT} placeholder for CTAS, [sql...], kind, info)."""
    mirrors = [Mirror() for _ in range(nsess)]
    out = []
    for _ in range(length):
        sid = rng.below(nsess)
        m = mirrors[sid]
        c = rng.below(100)
        existing = m.objs()
        schema_all = {f"{s}.{n}": SIGS[n] for s, n, k in existing}
        s = rng.pick(list(m.s) * 3 + SCHEMAS) if m.s else rng.pick(SCHEMAS)
        n = rng.pick(NAMES)
        sig = SIGS[n]
        g = qgen.Gen(rng, {k: (v, []) for k, v in schema_all.items()}, FEATS) if schema_all else None

        def query_of(sig, allow_missing=True, allow_fail=True):
            """Random query of output signature `sig` over existing objects (sometimes a missing one)."""
            if g is None or (allow_missing and rng.chance(1, 25)):
                miss = f"{rng.pick(SCHEMAS)}.{rng.pick(NAMES)}"
                if miss not in schema_all:
                    gg = qgen.Gen(rng, {miss: (SIGS[miss.split('.')[1]], [])}, FEATS)
                    q, ty = ("scan", miss), SIGS[miss.split('.')[1]]
                    return ("project", [gg.expr(ty, t, 1) for t in sig], q), sig, {miss: SIGS[miss.split('.')[1]]}
            if g is None:
                rows = [[("lit", qgen.gen_value(rng, t, 15), t) for t in sig] for _ in range(1 + rng.below(3))]
                return ("values", rows), sig, {}
            if allow_fail and rng.chance(1, 12):
                return fail_query(rng, sig, g), sig, {}
            q, ty = g.query(rng.pick([0, 0, 1, 1, 2]))
            if qgen.excluded(q):
                q, ty = g.query(0)
            return ("project", [g.expr(ty, t, 2) for t in sig], q), sig, {}

        def render(q, extra):
            sch = dict(schema_all)
            sch.update(extra)
            return R(sch).query(q)

        if c < 8:
            ine = rng.chance(1, 3)
            sn = rng.pick(SCHEMAS[1:] + ["temp"])
            out.append((sid, f"(create-schema {sn} {int(ine)})", [f"CREATE SCHEMA {'IF NOT EXISTS ' if ine else ''}{rng.pick([sn, 'temp.' + sn])}"], "ddl", None))
            m.s.setdefault(sn, {})
        elif c < 12:
            ie = rng.chance(1, 3)
            sn = rng.pick(SCHEMAS[1:] + SCHEMAS[1:] + ["temp"])
            out.append((sid, f"(drop-schema {sn} {int(ie)})", [f"DROP SCHEMA {'IF EXISTS ' if ie else ''}{sn}"], "ddl", None))
            m.s.pop(sn, None)
        elif c < 24:
            ine = rng.chance(1, 3)
            cols = ", ".join(f"k{i} {qgen.SQLTY[t]}" for i, t in enumerate(sig))
            out.append((sid, f"(create-table {s} {n} {int(ine)} {len(sig)})", [f"CREATE TEMP TABLE {'IF NOT EXISTS ' if ine else ''}{sqlname(s, n, rng)} ({cols})"], "ddl", None))
            if s in m.s and n not in m.s[s]:
                m.s[s][n] = "table"
        elif c < 32:
            # a view body that fails at run time is not generated: whether a later query over such a view fails depends on
            # whether the optimizer still evaluates the view (a WHERE false above it removes the error) - allowed by C02
            q, ty, extra = query_of(sig, allow_fail=False)
            sql = render(q, extra)
            cols = ", ".join(f"k{i}" for i in range(len(sig)))
            out.append((sid, f"(create-view {s} {n} {len(sig)} {qgen.sexp(q)})", [f"CREATE TEMP VIEW {sqlname(s, n, rng)} ({cols}) AS {sql}"], "ddl", None))
            if s in m.s and n not in m.s[s] and not extra:
                m.s[s][n] = "view"
        elif c < 40:
            ie = rng.chance(1, 3)
            if existing and rng.chance(3, 4):
                s, n, _ = rng.pick(existing)
            out.append((sid, f"(drop {s} {n} {int(ie)})", [f"DROP TABLE {'IF EXISTS ' if ie else ''}{sqlname(s, n, rng)}"], "ddl", None))
            if s in m.s:
                m.s[s].pop(n, None)
        elif c < 62:
            tables = [(s2, n2) for s2, n2, k in existing if k == "table"]
            if tables and rng.chance(9, 10):
                s, n = rng.pick(tables)
            sig = SIGS[n]
            q, ty, extra = query_of(sig)
            out.append((sid, f"(insert {s} {n} {qgen.sexp(q)})", [f"INSERT INTO {sqlname(s, n, rng)} {render(q, extra)}"], "count", None))
        elif c < 70:
            ine = rng.chance(1, 3)
            q, ty, extra = query_of(sig)
            a = "zz"
            sel = ", ".join(f"{a}.c{i} AS k{i}" for i in range(len(sig)))
            exists_sql = f"SELECT count(*) FROM list_tables() WHERE database_name = 'temp' AND schema_name = '{s}' AND table_name = '{n}'"
            out.append((sid, f"(ctas {s} {n} {int(ine)} {len(sig)} {{LEFT}} {qgen.sexp(q)})",
                        [f"CREATE TEMP TABLE {'IF NOT EXISTS ' if ine else ''}{sqlname(s, n, rng)} AS SELECT {sel} FROM ({render(q, extra)}) AS {a}", exists_sql], "ctas", None))
            if s in m.s and n not in m.s[s] and not extra:
                m.s[s][n] = "table"
        elif c < 78:
            var = rng.pick(["partitions", "partitions", "batch_size", "enable_optimizer", "enable_hash_joins", "no_such_setting"])
            k = rng.below(10)
            if k < 2:
                out.append((sid, f"(reset {var})", [f"RESET {var}"], "ddl", None))
            elif k < 4:
                out.append((sid, f"(show {var})", [f"SHOW {var}"], "show", None))
            elif var in ("enable_optimizer", "enable_hash_joins"):
                if rng.chance(1, 6):
                    out.append((sid, f"(set {var} 0 3)", [f"SET {var} TO 3"], "ddl", None))
                else:
                    b = rng.chance(1, 2)
                    out.append((sid, f"(set {var} 1 {int(b)})", [f"SET {var} TO {'true' if b else 'false'}"], "ddl", None))
            else:
                good = {"partitions": [1, 2, 3, 8, 16, 64, 512], "batch_size": [64, 100, 2048, 8192], "no_such_setting": [1]}[var]
                bad = {"partitions": [0, 513, -1], "batch_size": [0, 8193, 100000], "no_such_setting": [1]}[var]
                v = rng.pick(bad) if rng.chance(1, 4) else rng.pick(good)
                out.append((sid, f"(set {var} 0 {v})", [f"SET {var} TO {v}"], "ddl", None))
                if var == "partitions" and v == 512:
                    # the upper bound is accepted; queries under 512 partitions need many GiB (512 hash tables per join),
                    # so the value is read back and reset at once
                    out.append((sid, f"(show {var})", [f"SHOW {var}"], "show", None))
                    out.append((sid, f"(reset {var})", [f"RESET {var}"], "ddl", None))
        elif c < 92:
            if existing and rng.chance(2, 3):
                s2, n2, _ = rng.pick(existing)
                q = ("scan", f"{s2}.{n2}")
                extra = {}
            else:
                q, ty, extra = query_of(rng.pick(list(SIGS.values())))
            out.append((sid, f"(select {qgen.sexp(q)})", [render(q, extra)], "rows", None))
        else:
            out.append((sid, "(list)", ["SELECT schema_name FROM list_schemas() WHERE database_name = 'temp'",
                                        "SELECT schema_name, table_name FROM list_tables() WHERE database_name = 'temp'",
                                        "SELECT schema_name, view_name FROM list_views() WHERE database_name = 'temp'"], "list", None))
    # final full dump on every session: listing, every possible object's contents, settings
    for sid in range(nsess):
        out.append((sid, "(list)", ["SELECT schema_name FROM list_schemas() WHERE database_name = 'temp'",
                                    "SELECT schema_name, table_name FROM list_tables() WHERE database_name = 'temp'",
                                    "SELECT schema_name, view_name FROM list_views() WHERE database_name = 'temp'"], "list", None))
        for s in SCHEMAS:
            for n in NAMES:
                q = ("scan", f"{s}.{n}")
                out.append((sid, f"(select {qgen.sexp(q)})", [R({f"{s}.{n}": SIGS[n]}).query(q)], "rows", "dump"))
        for var in ["partitions", "batch_size", "enable_optimizer", "enable_hash_joins"]:
            out.append((sid, f"(show {var})", [f"SHOW {var}"], "show", None))
    return out


def engine_outcome(kind, rs):
    """Canonical outcome of the engine for one model statement (rs: results of its SQL statements)."""
    r = rs[0]
    if "panic" in r:
        return ("panic", r["panic"])
    if kind == "list":
        if any("rows" not in x for x in rs):
            return ("err", str(rs))
        return ("objs", sorted(x[0][2:] for x in rs[0]["rows"]), sorted(x[0][2:] + "." + x[1][2:] for x in rs[1]["rows"]),
                sorted(x[0][2:] + "." + x[1][2:] for x in rs[2]["rows"]))
    if "err" in r:
        return ("err", r["err"])
    if kind == "ddl":
        return ("ok",)
    if kind in ("count", "ctas"):
        return ("count", int(r["rows"][0][0]))
    if kind == "show":
        v = r["rows"][0][0]
        return ("val", v[2:] if isinstance(v, str) and v.startswith("s:") else v)
    return ("rows", bag(r["rows"]))


def model_outcome(o):
    if o in ("ok", "err", "err-rt"):
        return ("err", o) if o.startswith("err") else ("ok",)
    if o.startswith("count "):
        return ("count", int(o[6:]))
    if o.startswith("val "):
        return ("val", o[4:])
    if o.startswith("rows "):
        return ("rows", bag(json.loads(o[5:])))
    if o.startswith("objs "):
        parts = dict(p.split("=", 1) for p in o[5:].split(" "))
        f = lambda x: sorted(y for y in x.split(",") if y)
        return ("objs", f(parts["schemas"]), f(parts["tables"]), f(parts["views"]))
    return ("bad", o)


def run_scripts(ck, runner, rng, n_scripts, length):
    comp = "scripts"
    stats = {"statements": 0, "agree": 0, "engine_rejects": 0, "both_err": 0, "ctas_runtime_fail": 0, "ctas_left_behind": 0,
             "multi_session_scripts": 0, "kinds": {}}
    for si in range(n_scripts):
        nsess = rng.pick([1, 1, 2, 3])
        threads = rng.pick([1, 4, 4, 8])
        script = gen_script(rng, nsess, length)
        if nsess > 1:
            stats["multi_session_scripts"] += 1
        flat = [[sid, sql] for sid, _, sqls, _, _ in script for sql in sqls]
        res = runner.run(flat, threads=threads, timeout=120)
        if isinstance(res, dict):
            # find the statement that kills the process
            lo = None
            for k in range(1, len(flat) + 1):
                r2 = runner.run(flat[:k], threads=threads, timeout=120)
                if isinstance(r2, dict):
                    lo = k
                    break
            ck.violation("scripts/crash", f"statement script crashes or hangs the engine at statement {lo}: {flat[lo - 1][1][:200] if lo else '?'}",
                         {"kind": "crash", "threads": threads, "stmts": flat[:lo] if lo else flat, "result": res})
            continue
        # split results per model statement; fill the CTAS observation
        pos = 0
        eng = []
        lines = []
        for sid, sx, sqls, kind, info in script:
            rs = res[pos:pos + len(sqls)]
            pos += len(sqls)
            if kind == "ctas":
                left = 0
                if "err" in rs[0] and "rows" in rs[1] and rs[1]["rows"] and rs[1]["rows"][0][0] != "0":
                    left = 1
                sx = sx.replace("{LEFT}", str(left))
                eng.append(engine_outcome(kind, rs[:1]) + (("left",) if left else ()))
            else:
                eng.append(engine_outcome(kind, rs))
            lines.append(f"({sid} {sx})")
        mout = vlib.run_model([f"case 0 cat {threads} {nsess} ;; " + " ;; ".join(lines)], timeout=300).get("out", {}).get("0", "")
        mouts = [model_outcome(x) for x in mout.split(" | ")]
        if len(mouts) != len(script):
            ck.violation("scripts/model-run", "catalog model did not answer the script", {"correspondence": "Core/Catalog.lean runScript", "model_out": mout[:400]}, found_input=False)
            continue
        ck.count(comp, 1)
        ck.nontrivial(("script", si, len(script)))
        before_dump = True
        for i, ((sid, sx, sqls, kind, info), e, mo) in enumerate(zip(script, eng, mouts)):
            stats["statements"] += 1
            stats["kinds"][kind] = stats["kinds"].get(kind, 0) + 1
            ectas_left = kind == "ctas" and e[-1] == "left"
            if ectas_left:
                e = e[:-1]
            if e[0] == "panic":
                ck.violation(f"scripts/panic/{kind}", f"statement panics: {sqls[0][:200]}", {"kind": "crash", "stmts": flat, "at": sqls[0], "panic": e[1]})
                break
            if e[0] == "err" and mo[0] == "err":
                stats["both_err"] += 1
                if info == "dump":
                    stats["both_err_in_final_dump"] = stats.get("both_err_in_final_dump", 0) + 1
                if kind == "ctas" and mo[1] == "err-rt":
                    stats["ctas_runtime_fail"] += 1
                    if ectas_left:
                        stats["ctas_left_behind"] += 1
                        ck.violation("ctas/runtime-error-leaves-empty-table",
                                     "CREATE TABLE AS whose query fails at run time leaves the (empty) table in the catalog: a failed statement changed the catalog",
                                     {"kind": "impl-vs-oracle", "stmts": [x for x in flat[:sum(len(s[2]) for s in script[:i + 1])]], "at": sqls[0]})
                        break            # the engine's catalog now holds a table the specification does not: later differences are this finding again
                continue
            if e[0] == "err" and mo[0] != "err":
                if any(u in e[1] for u in UNSUPPORTED):
                    stats["engine_rejects"] += 1
                    stats.setdefault("reject_samples", {}).setdefault(e[1][:60], sqls[0][:200])
                    break            # states may have diverged: stop comparing this script
                ck.violation(f"scripts/err-vs-{mo[0]}/{kind}", f"engine fails ({e[1][:120]}) where the sequential specification gives {str(mo)[:120]}: {sqls[0][:200]}",
                             {"kind": "impl-vs-oracle", "threads": threads, "sessions": nsess, "stmts": flat[:sum(len(s[2]) for s in script[:i + 1])], "at": sqls[0], "engine": e, "model": mo,
                              "model_script": lines[:i + 1]})
                break
            if e != mo:
                what = "contents/listing differ" if e[0] == mo[0] else f"engine {e[0]} vs specification {mo[0]}"
                ck.violation(f"scripts/{kind}/{'dump' if info == 'dump' else 'stmt'}/{e[0]}-vs-{mo[0]}",
                             f"{what} after a statement history: engine {str(e)[:160]} specification {str(mo)[:160]}; statement: {sqls[0][:200]}",
                             {"kind": "impl-vs-oracle", "threads": threads, "sessions": nsess, "stmts": flat[:sum(len(s[2]) for s in script[:i + 1])], "at": sqls[0], "engine": e, "model": mo,
                              "model_script": lines[:i + 1]})
                break
            stats["agree"] += 1
        if si < 2:
            ck.sample({"script_head": [f"{sid}: {sqls[0][:160]}" for sid, _, sqls, _, _ in script[:6]]})
    for k, v in stats.items():
        ck.note(comp, k, v)


def digest_ok(runner, ck, comp, key, what, stmts, expect, threads=4, timeout=120):
    """Runs stmts; the last statement must return exactly the row `expect`."""
    res = runner.run(stmts, threads=threads, timeout=timeout)
    ck.count(comp, 1)
    ck.nontrivial((comp, tuple(stmts)))
    if isinstance(res, dict):
        ck.violation(key + "/crash-or-hang", what + ": the statement did not finish (timeout / memory limit / crash)", {"kind": "crash", "threads": threads, "stmts": stmts, "result": res})
        return False
    last = res[-1]
    bad = [r for r in res if "panic" in r]
    if bad or "rows" not in last or [str(x) for x in last["rows"][0]] != [str(x) for x in expect]:
        ck.violation(key, what + f": expected {expect}, got {str(last)[:200]}", {"kind": "impl-vs-oracle", "threads": threads, "stmts": stmts, "expected": expect, "result": last})
        return False
    return True


def self_insert(ck, runner, rng, tier):
    comp = "self_insert"
    sizes = [1, 5, 2047, 2048, 2049, 9000, 32767, 32768, 32769, 40000, 70000] if tier == "quick" else \
        [1, 5, 100, 2047, 2048, 2049, 4096, 9000, 20000, 32767, 32768, 32769, 33000, 40000, 65536, 70000, 100000, 140000]
    parts = [1, 2, 8] if tier == "quick" else [1, 2, 3, 4, 8, 16]
    for n in sizes:
        for p in parts:
            if tier == "quick" and n > 40000 and p != 1:
                continue
            s = n * (n + 1) // 2
            stmts = [f"SET partitions TO {p}", "CREATE TEMP TABLE big (a BIGINT)", f"INSERT INTO big SELECT x FROM generate_series(1, {n}) g(x)",
                     "INSERT INTO big SELECT * FROM big", "SELECT count(*), sum(a), count(DISTINCT a) FROM big"]
            digest_ok(runner, ck, comp, "insert-select/self/reads-own-appends",
                      f"INSERT INTO t SELECT * FROM t on {n} rows with partitions={p} must read the table as it was when the statement started (exactly double it)",
                      stmts, [2 * n, 2 * s, n], timeout=60)
    # twice in a row, and through a view over the table
    for n in ([33000] if tier == "quick" else [5, 33000, 70000]):
        s = n * (n + 1) // 2
        m = min(n, 10)            # the second insert copies the rows with a <= 10, each present twice by then
        stmts = ["SET partitions TO 1", "CREATE TEMP TABLE big (a BIGINT)", f"INSERT INTO big SELECT x FROM generate_series(1, {n}) g(x)",
                 "CREATE TEMP VIEW bv AS SELECT a FROM big WHERE a > 0", "INSERT INTO big SELECT a FROM bv", "INSERT INTO big SELECT a FROM bv WHERE a <= 10",
                 "SELECT count(*), sum(a), count(DISTINCT a) FROM big"]
        digest_ok(runner, ck, comp, "insert-select/self/reads-own-appends", f"self-insert through a view on {n} rows", stmts, [2 * n + 2 * m, 2 * s + m * (m + 1), n], timeout=60)


def parallel(ck, runner, rng, tier):
    comp = "parallel"
    cases = 12 if tier == "quick" else 150
    for _ in range(cases):
        p = rng.pick([1, 2, 3, 8, 16])
        b = rng.pick([1, 7, 64, 2048, 8192])
        n = rng.pick([0, 1, 100, 2048, 5000, 33000]) if b >= 64 else rng.pick([0, 1, 50, 300])
        k = rng.pick([2, 3, 7])
        s = n * (n + 1) // 2
        keep = [x for x in range(1, n + 1) if x % k != 0]
        form = rng.pick(["insert", "ctas", "insert_twice"])
        pre = [f"SET partitions TO {p}", f"SET batch_size TO {b}"]
        # stored chunks hold up to 2048 rows whatever the session's batch_size; reading them back under a smaller batch_size
        # panicked until the repair of F36: the table is read back under the writing batch size or under 8192
        big = rng.pick(["SET batch_size TO 8192", f"SET batch_size TO {b}"])
        if form == "insert":
            stmts = pre + ["CREATE TEMP TABLE t (a BIGINT, b BIGINT)", f"INSERT INTO t SELECT x, x * 2 FROM generate_series(1, {n}) g(x) WHERE x % {k} <> 0", big,
                           "SELECT count(*), coalesce(sum(a), CAST(0 AS BIGINT)), count(DISTINCT a), coalesce(sum(b), CAST(0 AS BIGINT)) FROM t"]
            exp = [len(keep), sum(keep), len(keep), 2 * sum(keep)]
        elif form == "ctas":
            stmts = pre + [f"CREATE TEMP TABLE t AS SELECT x AS a, x * 2 AS b FROM generate_series(1, {n}) g(x) WHERE x % {k} <> 0", big,
                           "SELECT count(*), coalesce(sum(a), CAST(0 AS BIGINT)), count(DISTINCT a), coalesce(sum(b), CAST(0 AS BIGINT)) FROM t"]
            exp = [len(keep), sum(keep), len(keep), 2 * sum(keep)]
        else:
            stmts = pre + ["CREATE TEMP TABLE t (a BIGINT, b BIGINT)", f"INSERT INTO t SELECT x, x * 2 FROM generate_series(1, {n}) g(x)", big,
                           f"INSERT INTO t SELECT a + {n}, b FROM t WHERE a % {k} <> 0",
                           "SELECT count(*), coalesce(sum(a), CAST(0 AS BIGINT)), count(DISTINCT a), coalesce(sum(b), CAST(0 AS BIGINT)) FROM t"]
            exp = [n + len(keep), s + sum(keep) + n * len(keep), n + len(keep), 2 * s + 2 * sum(keep)]
        digest_ok(runner, ck, comp, f"parallel/{form}/rows-not-exactly-once", f"{form} of {n} generated rows under partitions={p}, batch_size={b}: every inserted row must be visible exactly once", stmts, exp, threads=rng.pick([2, 4, 8]))


def probes(ck, runner):
    stmts = ["SET partitions TO 1", "CREATE TEMP TABLE t (a INT)",
             "INSERT INTO t SELECT CASE WHEN x = 90000 THEN 2147483647 + x ELSE x END FROM generate_series(1, 100000) g(x)", "SELECT count(*) FROM t"]
    res = runner.run(stmts, timeout=120)
    bad = isinstance(res, dict) or "err" not in res[2] or "rows" not in res[3] or res[3]["rows"][0][0] != "0"
    ck.probe("insert/failed-after-flush/partial-rows-visible",
             "an INSERT .. SELECT that fails on a late row leaves the rows its appender had already flushed (multiples of 16 x 2048) visible: a failed statement changed the table",
             {"kind": "impl-vs-oracle", "stmts": stmts, "result": res if isinstance(res, dict) else res[-2:]}, bad)
    stmts = ["CREATE TEMP TABLE e AS SELECT (CASE WHEN x = 30000 THEN 2147483647 + x ELSE x END)::INT AS a FROM generate_series(1, 40000) g(x)",
             "SELECT count(*) FROM list_tables() WHERE table_name = 'e'"]
    res = runner.run(stmts, timeout=120)
    bad = isinstance(res, dict) or "err" not in res[0] or "rows" not in res[1] or res[1]["rows"][0][0] != "0"
    ck.probe("ctas/runtime-error-leaves-empty-table",
             "CREATE TABLE AS whose query fails at run time leaves the (empty) table in the catalog: a failed statement changed the catalog",
             {"kind": "impl-vs-oracle", "stmts": stmts, "result": res if isinstance(res, dict) else res[-2:]}, bad)


def collection(ck, tier):
    comp = "collection"
    n = 400 if tier == "quick" else 6000
    res = vlib.run_pair("collection", [ck.seed, n])
    if res["rc"] != 0:
        ck.violation("collection/harness", "collection harness failed", {"correspondence": "gvh collection", "stderr": res["stderr"]}, found_input=False)
        return
    diffs = 0
    for k, line in res["cases"].items():
        ck.count(comp, 1)
        ck.nontrivial(line)
        i, m = res["impl"].get(k), res["model"].get(k)
        oracle = res["extra"].get("impl_oracle", {}).get(k, "ok")
        if oracle != "ok":
            ck.violation("collection/rows-not-exactly-once", f"ConcurrentColumnCollection: {oracle}", {"kind": "impl-vs-oracle", "case": line, "impl": i})
        elif i != m:
            diffs += 1
            if diffs <= 3:
                ck.violation("collection/model-diff", "Core/Collection.lean and ConcurrentColumnCollection disagree on an append/flush/scan interleaving (correspondence broken)",
                             {"correspondence": "Collection.run vs ConcurrentColumnCollection", "case": line, "impl": i, "model": m}, found_input=False)
    ck.note(comp, "model_diffs", diffs)


def main():
    tier = sys.argv[1] if len(sys.argv) > 1 else "quick"
    ck = vlib.Check("C14", tier)
    ck.coverage["rule"] = ("statement histories (CREATE/DROP SCHEMA/TABLE/VIEW with IF [NOT] EXISTS, INSERT..SELECT incl. failing ones, CTAS, SET/RESET/SHOW, SELECT, listings) over 3 schemas x 4 names on 1-3 sessions: "
                           "per-statement outcome and final full state dump vs Core/Catalog.lean; self-inserts around the flush threshold; exactly-once inserts under partitions x batch_size; "
                           "collection-level interleavings vs Core/Collection.lean; distinct = distinct script / statement list / interleaving")
    ck.assumptions = ["Sem (Core/Sem.lean) defines what a query returns on a state", "engine rejections of supported-looking SQL with a 'not implemented' message stop the comparison of that script and are counted",
                      "true multi-threaded races inside the catalog maps are not driven (statements are sequential per engine)"]
    proof_ok = ck.proof_step()
    ok, blog, secs = vlib.build_harness()
    ck.coverage["harness_build_s"] = round(secs, 1)
    if not ok:
        ck.violation("harness/build", "harness does not build against /repo", {"correspondence": "harness build", "log": blog[-1500:]}, found_input=False)
        sys.exit(ck.finish())
    runner = vlib.SqlRunner(mem_gb=6)
    rng = Rng(ck.seed * 7919 + 14)
    try:
        probes(ck, runner)
        collection(ck, tier)
        run_scripts(ck, runner, rng, 200 if tier == "quick" else 2500, 22 if tier == "quick" else 40)
        self_insert(ck, runner, rng, tier)
        parallel(ck, runner, rng, tier)
    finally:
        runner.close()
    if not proof_ok:
        ck.violation("proof/C14", "proof obligation of Props/C14.lean no longer checks", {"theorem": "GlareModel.Props.C14.*", "log": ck.broken_proof}, found_input=bool(ck.violations))
    sys.exit(ck.finish())


if __name__ == "__main__":
    main()
