#!/usr/bin/env python3
"""C18 — The announced schema is the schema of the rows produced.

For a statement S three things must agree: the rows of `DESCRIBE S` (names, types), the result's output schema, and the
datatype of every array of every batch S produces (incl. decimal precision/scale, timestamp unit).

Components
  tables      translator: the implicit-cast table is regenerated from the running code into Generated/CastTable.lean and
              the theorems of Props/C18.lean (which quantify over the table) are re-checked by the kernel
  union       every ordered pair of 17 SQL types as UNION [ALL] branches: three-way agreement + the announced type id must
              be what Core/Unify.lean's model of bind_setop.rs computes from the generated table (or both fail)
  exprs       every type pair x {+ - * / % = < || coalesce CASE nullif} in column and literal form
  functions   every scalar / aggregate signature of list_functions() called with typed arguments
  queries     random typed queries (qgen) over random tables
  objects     DESCRIBE <table | view | table function | file> vs SELECT * FROM the same object; DML counts; SHOW
"""
import json
import os
import sys

import gen_tables
import qgen
import vlib
from sqlutil import Rng

def lit(t, v):
    """A typed literal; BOOLEAN and TEXT have no identity cast at this commit (CAST(true AS BOOLEAN) is rejected)."""
    if t in ("BOOLEAN", "TEXT"):
        return v
    return f"CAST({v} AS {t})"


TYPES = [("BOOLEAN", "boolean", "true"), ("TINYINT", "int8", "1"), ("SMALLINT", "int16", "2"), ("INT", "int32", "3"), ("BIGINT", "int64", "4"),
         ("UTINYINT", "uInt8", "5"), ("USMALLINT", "uInt16", "6"), ("UINT", "uInt32", "7"), ("UBIGINT", "uInt64", "8"), ("HALF", "float16", "1.5"), ("REAL", "float32", "2.5"),
         ("DOUBLE", "float64", "3.5"), ("DECIMAL(5,2)", "decimal64", "1.25"), ("DECIMAL(9,3)", "decimal64", "2.125"), ("DECIMAL(25,4)", "decimal128", "3.1250"),
         ("TEXT", "utf8", "'7'"), ("DATE", "date32", "'2020-01-02'")]
ID_OF_DT = {"Boolean": "boolean", "Int8": "int8", "Int16": "int16", "Int32": "int32", "Int64": "int64", "UInt8": "uInt8", "UInt16": "uInt16", "UInt32": "uInt32", "UInt64": "uInt64",
            "Float16": "float16", "Float32": "float32", "Float64": "float64", "Utf8": "utf8", "Date32": "date32"}

ARG_FOR = {"Boolean": "true", "Int8": "CAST(1 AS TINYINT)", "Int16": "CAST(2 AS SMALLINT)", "Int32": "CAST(3 AS INT)", "Int64": "CAST(4 AS BIGINT)", "UInt8": "CAST(5 AS UTINYINT)",
           "UInt16": "CAST(6 AS USMALLINT)", "UInt32": "CAST(7 AS UINT)", "UInt64": "CAST(8 AS UBIGINT)", "Float16": "CAST(1.5 AS HALF)", "Float32": "CAST(2.5 AS REAL)", "Float64": "CAST(3.5 AS DOUBLE)",
           "Decimal64": "CAST(1.25 AS DECIMAL(5,2))", "Decimal128": "CAST(3.125 AS DECIMAL(25,4))", "Utf8": "'ab'", "Date32": "DATE '2020-01-02'", "Timestamp": "TIMESTAMP '2020-01-02 03:04:05'",
           "Interval": "INTERVAL '1 day'", "Binary": "CAST('ab' AS BINARY)", "Any": "3", "Null": "NULL", "List": "[1, 2]", "Date64": "DATE '2020-01-02'", "Int128": "CAST(4 AS BIGINT)", "UInt128": "CAST(8 AS UBIGINT)"}


def idname(dt):
    """DataType string (e.g. Decimal64(6,2)) -> TyId constructor name."""
    base = dt.split("(")[0]
    if base == "Decimal64":
        return "decimal64"
    if base == "Decimal128":
        return "decimal128"
    return ID_OF_DT.get(base, base)


class Three:
    """Three-way agreement for one statement."""

    def __init__(self, ck, runner):
        self.ck = ck
        self.runner = runner
        self.stats = {}

    def bump(self, comp, k):
        self.stats.setdefault(comp, {})
        self.stats[comp][k] = self.stats[comp].get(k, 0) + 1

    def check_many(self, comp, setup, stmts, describe_of=None):
        """stmts: list of SQL; describe_of: optional parallel list of the text to put after DESCRIBE. Returns per statement
        (announced cols or None)."""
        flat = list(setup)
        for i, s in enumerate(stmts):
            flat.append("DESCRIBE " + (describe_of[i] if describe_of else s))
            flat.append(s)
        res = self.runner.run(flat, timeout=120)
        out = []
        if isinstance(res, dict):
            # isolate
            if len(stmts) == 1:
                self.bump(comp, "crash")
                msg = str(res)[:300]
                if not any(p in msg for p in ("attempt to add with overflow", "attempt to subtract with overflow", "attempt to multiply with overflow", "attempt to divide by zero", "attempt to negate with overflow",
                                              "remainder with a divisor of zero", "overflowed its stack")):
                    self.ck.violation(f"{comp}/crash", f"statement crashes the process: {stmts[0][:200]}", {"kind": "crash", "setup": setup, "stmt": stmts[0], "result": res})
                return [None]
            for i, s in enumerate(stmts):
                out += self.check_many(comp, setup, [s], [describe_of[i]] if describe_of else None)
            return out
        pos = len(setup)
        for i, s in enumerate(stmts):
            d, r = res[pos], res[pos + 1]
            pos += 2
            self.ck.count(comp, 1)
            self.ck.nontrivial(s)
            out.append(self.one(comp, setup, s, d, r))
        return out

    def one(self, comp, setup, s, d, r):
        if "panic" in r or "panic" in d:
            self.bump(comp, "panic")
            msg = r.get("panic", "") or d.get("panic", "")
            if not any(p in msg for p in ("with overflow", "divide by zero", "divisor of zero")):
                self.ck.violation(f"{comp}/panic", f"statement panics ({msg[:100]}): {s[:200]}", {"kind": "crash", "setup": setup, "stmt": s, "panic": msg})
            return None
        if "rows" not in r:
            self.bump(comp, "stmt_error")
            if "rows" in d:
                self.bump(comp, "described_but_fails")
                return [(x[0][2:] if x[0] else x[0], x[1][2:] if x[1] else x[1]) for x in d["rows"]]      # announced at bind time
            return None
        cols = [tuple(c) for c in r["cols"]]
        if not r.get("batch_types_ok", True):
            self.bump(comp, "batch_type_mismatch")
            self.ck.violation(f"{comp}/produced-type-differs-from-announced", f"a produced array does not have the announced datatype ({r.get('batch_types_bad')}): {s[:220]}",
                              {"kind": "impl-vs-oracle", "setup": setup, "stmt": s, "announced": cols, "mismatch": r.get("batch_types_bad")})
        if "rows" not in d:
            self.bump(comp, "describe_unsupported")
            return cols
        desc = [(x[0][2:] if x[0] else x[0], x[1][2:] if x[1] else x[1]) for x in d["rows"]]
        if desc != cols:
            self.bump(comp, "describe_mismatch")
            self.ck.violation(f"{comp}/describe-differs-from-output-schema", f"DESCRIBE announces {desc[:6]} but the result's schema is {cols[:6]}: {s[:200]}",
                              {"kind": "impl-vs-oracle", "setup": setup, "stmt": s, "describe": desc, "output_schema": cols})
        else:
            self.bump(comp, "agree")
        if r.get("nbatches", 0) == 0:
            self.bump(comp, "no_batches_produced")
        return cols

    def finish(self):
        for comp, st in self.stats.items():
            for k, v in st.items():
                self.ck.note(comp, k, v)


def union_component(ck, th):
    comp = "union"
    stmts, pairs = [], []
    for (t1, id1, v1) in TYPES:
        for (t2, id2, v2) in TYPES:
            for all_ in ("ALL ", ""):
                stmts.append(f"SELECT {lit(t1, v1)} AS c UNION {all_}SELECT {lit(t2, v2)}")
                pairs.append((t1, id1, t2, id2))
    # branches with NULL literals and three branches
    for (t1, id1, v1) in TYPES:
        stmts.append(f"SELECT NULL AS c UNION ALL SELECT {lit(t1, v1)}")
        pairs.append(None)
        stmts.append(f"SELECT {lit(t1, v1)} AS c UNION ALL SELECT NULL UNION ALL SELECT {lit(t1, v1)}")
        pairs.append(None)
    cols = []
    for i in range(0, len(stmts), 60):
        cols += th.check_many(comp, [], stmts[i:i + 60])
    # correspondence of the announced type id with the model of bind_setop.rs over the generated table
    lines = [f"case {i} unify {p[1]} {p[3]}" for i, p in enumerate(pairs) if p is not None]
    model = vlib.run_model(lines).get("out", {})
    diffs = 0
    for i, p in enumerate(pairs):
        if p is None:
            continue
        m = model.get(str(i))
        c = cols[i]
        if m == "same" or m is None:
            continue
        got = idname(c[0][1]) if c else None
        want = m[5:] if m.startswith("some ") else None
        th.bump(comp, "model_compared")
        if got != want:
            diffs += 1
            if diffs <= 3:
                ck.violation("union/model-diff", f"UNION of {p[0]} and {p[2]}: engine announces {c[0][1] if c else 'error'}, Core/Unify.lean over the generated cast table gives {m}",
                             {"correspondence": "Unify.unifyId vs SetOpBinder::bind", "stmt": stmts[i], "engine": c, "model": m}, found_input=False)
    ck.note(comp, "model_diffs", diffs)


def exprs_component(ck, th):
    comp = "exprs"
    setup = ["CREATE TEMP TABLE tt (" + ", ".join(f"c{i} {t}" for i, (t, _, _) in enumerate(TYPES)) + ")",
             "INSERT INTO tt VALUES (" + ", ".join(lit(t, v) for t, _, v in TYPES) + ")"]
    stmts = []
    for i, (t1, _, v1) in enumerate(TYPES):
        for j, (t2, _, v2) in enumerate(TYPES):
            for op in ["+", "-", "*", "/", "%", "=", "<", "||"]:
                stmts.append(f"SELECT c{i} {op} c{j} AS r FROM tt")
                stmts.append(f"SELECT {lit(t1, v1)} {op} {lit(t2, v2)} AS r")
            stmts.append(f"SELECT coalesce(c{i}, c{j}) AS r FROM tt")
            stmts.append(f"SELECT CASE WHEN c0 THEN c{i} ELSE c{j} END AS r FROM tt")
            stmts.append(f"SELECT CASE WHEN false THEN {lit(t1, v1)} ELSE {lit(t2, v2)} END AS r")
        stmts.append(f"SELECT -c{i} AS r, c{i} + 1 AS p, c{i} * 2.5 AS q, c{i} IS NULL AS z, c{i}::TEXT AS s, min(c{i}) AS mn, max(c{i}) AS mx, count(c{i}) AS ct FROM tt")
        stmts.append(f"SELECT sum(c{i}) AS s, avg(c{i}) AS a FROM tt")
    for k in range(0, len(stmts), 80):
        th.check_many(comp, setup, stmts[k:k + 80])


ARG_COMBOS = [["Int64"], ["Int32"], ["Float64"], ["Utf8"], ["Decimal64"], ["Decimal128"], ["Date32"], ["Timestamp"], ["Boolean"], ["Interval"], ["List"], ["UInt8"], ["Float32"],
              ["Int64", "Int64"], ["Int32", "Int64"], ["Float64", "Float64"], ["Float64", "Int32"], ["Utf8", "Utf8"], ["Utf8", "Int64"], ["Decimal64", "Int32"], ["Decimal64", "Decimal128"],
              ["Utf8", "Date32"], ["Utf8", "Timestamp"], ["Date32", "Int32"], ["Timestamp", "Interval"], ["List", "Int64"], ["Boolean", "Boolean"],
              ["Utf8", "Int64", "Int64"], ["Utf8", "Utf8", "Utf8"], ["Utf8", "Int64", "Utf8"], ["Int64", "Int64", "Int64"], ["Float64", "Float64", "Float64"], []]


def functions_component(ck, th, runner, tier):
    """list_functions() gives the names; each name is called with every argument-type combination of ARG_COMBOS (the
    signature columns of list_functions() are not reliable at this commit), errors are expected and counted."""
    comp = "functions"
    res = runner.run(["SELECT DISTINCT function_name, function_type FROM list_functions() WHERE function_type IN ('scalar', 'aggregate')"], timeout=60)
    if isinstance(res, dict) or "rows" not in res[0]:
        ck.violation("functions/list", "list_functions() failed", {"correspondence": "list_functions()", "result": str(res)[:300]}, found_input=False)
        return
    names = sorted((n[2:], t[2:]) for n, t in res[0]["rows"])
    ck.note(comp, "function_names", len(names))
    # minimized past failures run first, in every tier (F67: a typed constant expression that folds to NULL)
    stmts = ["SELECT list_extract([1, 2], CAST(4 AS BIGINT)) AS r", "SELECT list_extract([1, 2], 4) + 1 AS r", "SELECT list_extract(['a'], 2) || 'x' AS r",
             "SELECT list_extract([1.5, 2.5], 9) AS r", "SELECT list_extract([true], 3) AS r"]
    for name, ftype in names:
        if name in ("repeat", "generate_series", "unnest", "lpad", "rpad") or not name.replace("_", "").isalnum():
            continue
        combos = ARG_COMBOS if tier != "quick" else ARG_COMBOS[::2] + [[]]
        for args in combos:
            call = f"{name}(" + ", ".join(ARG_FOR[a] for a in args) + ")"
            stmts.append(f"SELECT {call} AS r" if ftype == "scalar" else f"SELECT {call} AS r FROM (VALUES (1), (2)) v(x)")
    for k in range(0, len(stmts), 100):
        th.check_many(comp, [], stmts[k:k + 100])


def queries_component(ck, th, rng, tier):
    comp = "queries"
    n = 25 if tier == "quick" else 600
    feats = {"join", "outer", "semi", "agg", "distinct", "union", "limit", "case", "inlist", "rollup", "sub", "corr"}
    for _ in range(n):
        db = qgen.gen_db(rng, ntables=3, max_rows=8)
        for t in db:
            if not db[t][1]:
                db[t][1].append([1] + [None] * (len(db[t][0]) - 1))
        g = qgen.Gen(rng, db, feats)
        qs = []
        for _ in range(8):
            q, ty = g.query(rng.pick([1, 2, 3]))
            if not qgen.excluded(q):
                qs.append(qgen.Renderer(g.schema).query(q))
        th.check_many(comp, qgen.setup_sql(db), qs)


def objects_component(ck, th, runner):
    comp = "objects"
    d = os.path.join(vlib.ROOT, "scratch", "c18")
    os.makedirs(d, exist_ok=True)
    csvp = os.path.join(d, "people.csv")
    with open(csvp, "w") as f:
        f.write("id,name,score\n1,ann,1.5\n2,bob,2.5\n")
    pq = "/repo/testdata/parquet/userdata0.parquet"
    setup = ["CREATE TEMP TABLE o1 (a INT, b TEXT, c DECIMAL(7,3), d TIMESTAMP)", "INSERT INTO o1 VALUES (1, 'x', 1.5, TIMESTAMP '2020-01-01 00:00:00')",
             "CREATE TEMP VIEW ov AS SELECT a + 1 AS a1, c * 2 AS c2, d FROM o1", "CREATE TEMP VIEW ov2 (p, q) AS SELECT b, c FROM o1"]
    items = ["o1", "ov", "ov2", "generate_series(1, 3)", f"read_csv('{csvp}')", f"'{csvp}'", f"read_parquet('{pq}')", f"'{pq}'", "list_tables()", "list_schemas()", "list_functions()",
             f"read_text('{csvp}')", f"parquet.file_metadata('{pq}')", f"parquet.rowgroup_metadata('{pq}')", f"parquet.column_metadata('{pq}')", "unnest([1, 2])"]
    th.check_many(comp, setup, [f"SELECT * FROM {it} LIMIT 5" for it in items], describe_of=items)
    th.check_many(comp, setup, [f"SELECT * FROM {it} LIMIT 5" for it in items])
    # statements that are not queries: announced output schema vs produced arrays (DESCRIBE does not apply)
    others = ["INSERT INTO o1 VALUES (2, 'y', 2.5, NULL)", "CREATE TEMP TABLE o2 AS SELECT * FROM o1", "SHOW partitions", "SHOW batch_size", "SHOW enable_optimizer", "SET partitions TO 2",
              "EXPLAIN SELECT * FROM o1", "DESCRIBE o1", "SHOW TABLES", "SHOW SCHEMAS", "CREATE TEMP TABLE o3 (z INT)", "DROP TABLE o3", "CREATE SCHEMA os", "EXPLAIN VERBOSE SELECT a FROM o1 WHERE a > 0"]
    th.check_many(comp, setup, others)


def main():
    tier = sys.argv[1] if len(sys.argv) > 1 else "quick"
    ck = vlib.Check("C18", tier)
    ck.coverage["rule"] = ("DESCRIBE S vs output schema of S vs datatype of every produced array, for: all ordered pairs of 17 SQL types as UNION branches (+ model of bind_setop.rs over the cast table generated from the code), "
                           "all type pairs x 11 operator/conditional forms in column and literal form, every scalar/aggregate signature of list_functions(), random typed queries, DESCRIBE of tables/views/table functions/files, "
                           "DML/SHOW/EXPLAIN; distinct = distinct statement")
    ck.assumptions = ["the harness compares Array::datatype() of every produced batch with the announced field type; values are read through Array::get_value, which derives decimal precision/scale and timestamp unit from the array's datatype",
                      "statements that produce no batch cannot be checked for produced types (counted)"]
    ok, blog, secs = vlib.build_harness()
    ck.coverage["harness_build_s"] = round(secs, 1)
    if not ok:
        ck.violation("harness/build", "harness does not build against /repo", {"correspondence": "harness build", "log": blog[-1500:]}, found_input=False)
        sys.exit(ck.finish())
    # translator: regenerate the cast table from the running code, then re-check the theorems that quantify over it
    tok, tinfo = (False, "degraded harness") if vlib.HARNESS_DEGRADED else gen_tables.generate()
    ck.coverage["generated_cast_table"] = tinfo
    proof_ok = ck.proof_step()
    if not tok:
        ck.violation("tables/translator", "the cast table could not be regenerated from the running code", {"correspondence": "gvh casttable -> Generated/CastTable.lean", "info": str(tinfo)}, found_input=False)
    runner = vlib.SqlRunner(mem_gb=8)
    rng = Rng(ck.seed * 1009 + 18)
    th = Three(ck, runner)
    try:
        union_component(ck, th)
        exprs_component(ck, th)
        objects_component(ck, th, runner)
        functions_component(ck, th, runner, tier)
        queries_component(ck, th, rng, tier)
    finally:
        runner.close()
        th.finish()
    if not proof_ok:
        ck.violation("proof/C18", "a theorem of Props/C18.lean no longer holds of the cast table generated from the code (or no longer checks)",
                     {"theorem": "GlareModel.Props.C18.*", "log": ck.broken_proof, "generated_table": tinfo}, found_input=bool(ck.violations))
    sys.exit(ck.finish())


if __name__ == "__main__":
    main()
