#!/bin/bash
# usage: tools/seedmatrix.sh [repo dir] [seed name ...]
# Applies every seeded change (or the named ones) to the repository copy, runs the quick check of the property it breaks,
# reverts it, and writes one line per seed to seeded/RESULTS.txt:  <seed> <prop> rc=<n> <first violation keys>
# The harness' path dependencies must point at the same repository copy (see DESIGN.md, "Seeded changes").
cd "$(dirname "$0")/.." || exit 2
repo="${1:-/repo}"; shift
seeds="$*"; [ -z "$seeds" ] && seeds=$(ls seeded | grep -E '^C[0-9]+-m[0-9]+$')
out=seeded/RESULTS.txt
for s in $seeds; do
  prop=${s%%-*}
  git -C "$repo" checkout -q -- . 
  if ! git -C "$repo" apply "$(pwd)/seeded/$s/patch.diff" 2>/dev/null; then echo "$s $prop patch-does-not-apply" | tee -a $out; continue; fi
  find replays/$prop -name '*.json' -delete 2>/dev/null
  t0=$(date +%s)
  ./check "$prop" quick > "/tmp/seedmatrix_$s.log" 2>&1; rc=$?
  t1=$(date +%s)
  git -C "$repo" checkout -q -- .
  keys=$(for f in replays/$prop/*.json; do [ -f "$f" ] && python3 -c "import json,sys; d=json.load(open('$f')); print(d['key']+('' if d.get('failing_input_found',True) else '[no-failing-input-found]'))"; done 2>/dev/null | head -4 | tr '\n' ' ')
  echo "$s $prop rc=$rc secs=$((t1-t0)) keys: $keys" | tee -a $out
done
