"""Helpers shared by the SQL-level checks: PRNG, value keys, row canonicalisation."""
import functools


class Rng:
    """splitmix64 — same generator as the harness; every choice derives from one state."""

    def __init__(self, seed):
        self.s = (seed ^ 0x9E3779B97F4A7C15) & 0xFFFFFFFFFFFFFFFF

    def next(self):
        self.s = (self.s + 0x9E3779B97F4A7C15) & 0xFFFFFFFFFFFFFFFF
        z = self.s
        z = ((z ^ (z >> 30)) * 0xBF58476D1CE4E5B9) & 0xFFFFFFFFFFFFFFFF
        z = ((z ^ (z >> 27)) * 0x94D049BB133111EB) & 0xFFFFFFFFFFFFFFFF
        return z ^ (z >> 31)

    def below(self, n):
        return self.next() % n if n > 0 else 0

    def chance(self, num, den):
        return self.below(den) < num

    def pick(self, xs):
        return xs[self.below(len(xs))]

    def shuffle(self, xs):
        xs = list(xs)
        for i in range(len(xs) - 1, 0, -1):
            j = self.below(i + 1)
            xs[i], xs[j] = xs[j], xs[i]
        return xs


def float_ord(bits, w):
    half = 1 << (w - 1)
    return bits if bits < half else -(bits - half) - 1


def cell_key(c):
    """Order key of a canonical cell (None for NULL). Same-typed cells compare with < / ==."""
    if c is None:
        return None
    if c == "true":
        return 1
    if c == "false":
        return 0
    if c.startswith("f64:"):
        return float_ord(int(c[4:], 16), 64)
    if c.startswith("f32:"):
        return float_ord(int(c[4:], 16), 32)
    if c.startswith("f16:"):
        return float_ord(int(c[4:], 16), 16)
    if c.startswith("s:"):
        return c[2:].encode("utf-8")
    if c.startswith("b:"):
        return bytes.fromhex(c[2:])
    if c.startswith("d:"):
        return int(c.split(":")[3])
    if c.startswith("date:"):
        return int(c[5:])
    if c.startswith("ts:"):
        return int(c.split(":")[2])
    if c.startswith("iv:"):
        return tuple(int(x) for x in c.split(":")[1:])
    return int(c)


def cmp_cells(a, b, desc, nulls_first):
    """-1/0/1 of two cells under a column declaration."""
    ka, kb = cell_key(a), cell_key(b)
    if ka is None and kb is None:
        return 0
    if ka is None:
        return -1 if nulls_first else 1
    if kb is None:
        return 1 if nulls_first else -1
    if ka == kb:
        return 0
    r = -1 if ka < kb else 1
    return -r if desc else r


def row_cmp(keys):
    """keys: list of (col_index, desc, nulls_first)."""
    def f(r1, r2):
        for (i, d, nf) in keys:
            c = cmp_cells(r1[i], r2[i], d, nf)
            if c != 0:
                return c
        return 0
    return f


def sort_rows(rows, keys):
    return sorted(rows, key=functools.cmp_to_key(row_cmp(keys)))


def bag(rows):
    """Canonical multiset of rows."""
    return sorted(json_row(r) for r in rows)


def json_row(r):
    import json
    return json.dumps(r, sort_keys=True)


def sql_str(s):
    return "'" + s.replace("'", "''") + "'"
