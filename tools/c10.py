#!/usr/bin/env python3
"""C10 — Reading a valid Parquet file returns exactly the rows it encodes."""
import glob
import hashlib
import json
import os
import sys

import vlib
from sqlutil import Rng, bag

FILES = sorted(glob.glob("/repo/testdata/**/*.parquet", recursive=True))


# ----------------------------------------------------------------------------- RLE / bit-packed streams

def vlq(n):
    out = []
    while True:
        b = n & 0x7F
        n >>= 7
        if n:
            out.append(b | 0x80)
        else:
            out.append(b)
            return bytes(out)


def encode_stream(rng, width):
    """Valid hybrid stream: list of runs -> (bytes, values)."""
    vals, bs = [], b""
    mask = (1 << width) - 1
    for _ in range(1 + rng.below(5)):
        if rng.chance(1, 2):
            cnt = rng.pick([1, 2, 7, 8, 9, 100, 0])
            v = rng.below(mask + 1) if mask else 0
            bs += vlq(cnt << 1) + v.to_bytes((width + 7) // 8, "little")
            vals += [v] * cnt
        else:
            groups = rng.pick([1, 1, 2, 3, 0])
            g = [rng.below(mask + 1) if mask else 0 for _ in range(groups * 8)]
            acc, nbits = 0, 0
            for x in g:
                acc |= x << nbits
                nbits += width
            bs += vlq((groups << 1) | 1) + acc.to_bytes((nbits + 7) // 8, "little")
            vals += g
    return bs, vals


def rle_component(ck, tier):
    rng = Rng(ck.seed * 23 + 100)
    n = 3000 if tier == "quick" else 80000
    lines, truth = [], []
    for i in range(n):
        width = rng.pick([0, 1, 1, 2, 3, 4, 5, 7, 8, 9, 12, 16, 17, 24, 31, 32])
        bs, vals = encode_stream(rng, width)
        total = len(vals)
        # read all values in random chunk sizes (not multiples of 8 most of the time)
        sizes, left = [], total
        while left > 0:
            c = min(left, rng.pick([1, 2, 3, 5, 7, 8, 13, 64, left]))
            sizes.append(c)
            left -= c
        if rng.chance(1, 10) and sizes:
            sizes.append(1 + rng.below(9))          # ask for more values than the stream holds: truncated page
            truth.append(None)
        else:
            truth.append(vals)
        lines.append(f"case {i} rle {width} {','.join(map(str, sizes)) or '0'} {bs.hex() if bs else '-'}")
    model = vlib.run_model(lines, timeout=600).get("out", {})
    rc, out, err, secs = vlib.sh([vlib.GVH, "rle"], inp="\n".join(lines) + "\n", timeout=600)
    impl = {}
    for l in out.split("\n"):
        p = l.split(" ", 2)
        if len(p) >= 2 and p[0] == "out":
            impl[p[1]] = p[2] if len(p) > 2 else ""
    ck.count("rle_decoder", len(lines))
    if rc != 0 or len(impl) < len(lines):
        ck.violation("rle_decoder/harness", "gvh rle failed: " + err[-300:], {"correspondence": "gvh rle", "stderr": err[-800:]}, found_input=False)
        return
    overread = 0
    for i, line in enumerate(lines):
        ck.nontrivial(line.split(" ", 3)[3])
        a, b, t = impl.get(str(i)), model.get(str(i)), truth[i]
        if t is None:
            # over-read of a truncated stream: the model reports out-of-bounds; the implementation must not return values
            overread += 1
            if b != "oob":
                ck.violation("rle_decoder/model-overread", f"model returned values for an over-read: {line}", {"case": line, "model": b}, found_input=False)
            if a not in ("panic", "err"):
                ck.violation("rle_decoder/overread-unchecked", f"RleBitPackedDecoder returned values past the end of its buffer: {line} -> {a[:80]}",
                             {"kind": "impl-vs-oracle", "case": line, "impl": a})
            continue
        exp = "ok " + ",".join(map(str, t))
        if a != exp:
            ck.violation("rle_decoder/wrong-values", f"RleBitPackedDecoder decodes {line} to {str(a)[:100]}, the stream encodes {exp[:100]}",
                         {"kind": "impl-vs-oracle", "case": line, "impl": a, "encoded_values": exp, "model": b})
            break
        if b != exp:
            ck.violation("rle_decoder/correspondence", f"Core/Rle.lean decodes {line} to {str(b)[:100]}, the stream encodes {exp[:100]}",
                         {"kind": "model-vs-impl", "correspondence": "Rle.readN ~ RleBitPackedDecoder::read", "case": line, "model": b}, found_input=False)
            break
    ck.note("rle_decoder", "truncated_overreads", overread)
    ck.sample({"case": lines[0], "impl": impl.get("0"), "model": model.get("0")})


# ----------------------------------------------------------------------------- minimal thrift compact footer reader

class TR:
    def __init__(self, b):
        self.b, self.i = b, 0

    def byte(self):
        v = self.b[self.i]
        self.i += 1
        return v

    def varint(self):
        r, s = 0, 0
        while True:
            x = self.byte()
            r |= (x & 0x7F) << s
            if not x & 0x80:
                return r
            s += 7

    def zz(self):
        n = self.varint()
        return (n >> 1) ^ -(n & 1)

    def skip(self, t):
        if t in (1, 2):
            return
        if t == 3:
            self.i += 1
        elif t in (4, 5, 6):
            self.varint()
        elif t == 7:
            self.i += 8
        elif t == 8:
            self.i += self.varint()
        elif t in (9, 10):
            h = self.byte()
            n, et = h >> 4, h & 0xF
            if n == 15:
                n = self.varint()
            for _ in range(n):
                if et in (1, 2):
                    self.i += 1
                else:
                    self.skip(et)
        elif t == 11:
            raise ValueError("map")
        elif t == 12:
            self.struct(lambda fid, ft: self.skip(ft))

    def struct(self, on_field):
        last = 0
        while True:
            h = self.byte()
            if h == 0:
                return
            d, t = h >> 4, h & 0xF
            fid = last + d if d else self.zz()
            last = fid
            on_field(fid, t)

    def list_hdr(self):
        h = self.byte()
        n, et = h >> 4, h & 0xF
        if n == 15:
            n = self.varint()
        return n, et


def footer_facts(path):
    """num_rows, number of row groups, rows per row group, columns per row group from the file footer."""
    b = open(path, "rb").read()
    if b[-4:] != b"PAR1":
        return None
    mlen = int.from_bytes(b[-8:-4], "little")
    r = TR(b[-8 - mlen:-8])
    facts = {"num_rows": None, "row_groups": []}

    def fm(fid, t):
        if fid == 3 and t == 6:
            facts["num_rows"] = r.zz()
        elif fid == 4 and t == 9:
            n, et = r.list_hdr()
            for _ in range(n):
                rg = {"cols": 0, "rows": None}

                def rgf(f2, t2):
                    if f2 == 1 and t2 == 9:
                        m, e2 = r.list_hdr()
                        rg["cols"] = m
                        for _ in range(m):
                            r.skip(e2)
                    elif f2 == 3 and t2 == 6:
                        rg["rows"] = r.zz()
                    else:
                        r.skip(t2)
                r.struct(rgf)
                facts["row_groups"].append(rg)
        else:
            r.skip(t)
    try:
        r.struct(fm)
    except Exception:
        return None
    if facts["num_rows"] is None or not facts["row_groups"]:
        return None          # the minimal reader could not follow this footer; the footer comparison is skipped for the file
    return facts


# ----------------------------------------------------------------------------- files

def digest(rows):
    return hashlib.sha1(json.dumps(rows).encode()).hexdigest()[:16]


def files_component(ck, tier, runner):
    rng = Rng(ck.seed * 29 + 101)
    sizes = [1, 3, 7, 37, 100, 512, 1000, 4096, 8192]
    supported = 0
    for path in FILES:
        base = runner.run(["SET batch_size TO 2048", "SET partitions TO 1", f"SELECT * FROM read_parquet('{path}')"], timeout=120)
        ck.count("parquet_files", 1)
        if isinstance(base, dict):
            ck.violation("parquet_read/crash", f"reading {path} crashed: {str(base)[:200]}", {"kind": "crash", "file": path, "result": base})
            continue
        base = base[-1]
        if "rows" not in base:
            ck.note("parquet_files", "unsupported_" + os.path.basename(path), str(base)[:120])
            continue
        supported += 1
        nrows = len(base["rows"])
        facts = footer_facts(path)
        ck.count("footer_parsed" if facts else "footer_unparsed", 1)
        if facts and facts["num_rows"] is not None and facts["num_rows"] != nrows:
            ck.violation("parquet_read/row-count", f"{path}: footer says {facts['num_rows']} rows, read_parquet returned {nrows}",
                         {"kind": "impl-vs-oracle", "file": path, "footer": facts, "rows_read": nrows})
        cfgs = [(rng.pick(sizes), rng.pick([1, 1, 2, 8])) for _ in range(3 if tier == "quick" else 12)]
        if nrows > 2048:
            cfgs = [(b, p) for b, p in cfgs if b >= 37] or [(512, 1)]
        for b, p in cfgs:
            res = runner.run([f"SET batch_size TO {b}", f"SET partitions TO {p}", f"SELECT * FROM read_parquet('{path}')"], timeout=180)
            ck.count("parquet_file_reads", 1)
            ck.nontrivial((path, b, p))
            if isinstance(res, dict):
                ck.violation("parquet_read/crash", f"reading {path} with batch_size={b} partitions={p} crashed: {str(res)[:200]}",
                             {"kind": "crash", "file": path, "batch_size": b, "partitions": p, "result": res})
                continue
            r = res[-1]
            same = "rows" in r and r["cols"] == base["cols"] and (r["rows"] == base["rows"] if p == 1 else bag(r["rows"]) == bag(base["rows"]))
            if not same:
                first = None
                if "rows" in r:
                    first = next((k for k, (x, y) in enumerate(zip(r["rows"], base["rows"])) if x != y), min(len(r["rows"]), len(base["rows"])))
                ck.violation("parquet_read/batch-dependent", f"{path}: rows under batch_size={b} partitions={p} differ from batch_size=2048 (first differing row {first})",
                             {"kind": "impl-vs-oracle", "file": path, "batch_size": b, "partitions": p, "first_diff": first,
                              "row": r["rows"][first] if first is not None and "rows" in r and first < len(r["rows"]) else str(r)[:200],
                              "base_row": base["rows"][first] if first is not None and first < len(base["rows"]) else None})
        # metadata table functions: independent of the batch size, and equal to the footer
        metas = {}
        for b in (2048, 5, 1):
            res = runner.run([f"SET batch_size TO {b}", f"SELECT * FROM parquet.file_metadata('{path}')", f"SELECT * FROM parquet.rowgroup_metadata('{path}')",
                              f"SELECT * FROM parquet.column_metadata('{path}')"], timeout=60)
            ck.count("parquet_metadata", 1)
            if isinstance(res, dict):
                ck.violation("parquet_meta/crash", f"metadata functions on {path} crashed (batch_size={b})", {"kind": "crash", "file": path, "batch_size": b, "result": res})
                continue
            metas[b] = [x.get("rows") for x in res[1:]]
        if 2048 in metas:
            for b, m in metas.items():
                if m != metas[2048]:
                    which = ["file_metadata", "rowgroup_metadata", "column_metadata"][next(k for k in range(3) if m[k] != metas[2048][k])]
                    ck.violation(f"parquet_meta/{which}/batch-dependent", f"parquet.{which}('{path}') differs between batch_size=2048 and {b}",
                                 {"kind": "impl-vs-oracle", "file": path, "batch_size": b, "rows": m, "rows_2048": metas[2048]})
                    break
            fm, rgm, cm = metas[2048]
            if facts and fm and rgm is not None and cm is not None:
                ok = (int(fm[0][2]) == facts["num_rows"] and int(fm[0][4]) == len(facts["row_groups"]) and len(rgm) == len(facts["row_groups"])
                      and all((rg["rows"] is None or int(x[1]) == rg["rows"]) and int(x[2]) == rg["cols"] for x, rg in zip(rgm, facts["row_groups"]))
                      and len(cm) == sum(rg["cols"] for rg in facts["row_groups"])
                      and sorted((int(x[1]), int(x[2])) for x in cm) == sorted((gi, ci) for gi, rg in enumerate(facts["row_groups"]) for ci in range(rg["cols"])))
                if not ok:
                    ck.violation("parquet_meta/footer-mismatch", f"metadata functions on {path} do not report what the footer says",
                                 {"kind": "impl-vs-oracle", "file": path, "footer": facts, "file_metadata": fm, "rowgroup_metadata": rgm[:5], "column_metadata_ordinals": [(x[1], x[2]) for x in cm][:40]})
    ck.note("parquet_files", "supported", supported)
    ck.sample({"files": [os.path.relpath(f, "/repo") for f in FILES[:5]], "configs": "batch_size in {1,3,7,37,100,512,1000,4096,8192} x partitions {1,2,8} vs batch_size 2048"})


def gen_rows(rng, cols, n):
    rows = []
    for i in range(n):
        r = []
        for name, ty, optional in cols:
            if optional and rng.below(100) < rng.pick([0, 10, 50, 100]) :
                r.append(None)
            elif ty == "int32":
                r.append(rng.pick([0, 1, -1, 2147483647, -2147483648, rng.below(1000) - 500]))
            elif ty == "int64":
                r.append(rng.pick([0, -1, 9223372036854775807, -9223372036854775808, rng.below(10 ** 12) - 5 * 10 ** 11]))
            elif ty == "double":
                r.append(rng.pick([0.0, -0.0, 1.5, -2.25, 1e300, float(rng.below(1000)) / 8]))
            elif ty == "utf8":
                r.append(rng.pick(["", "a", "é", "twelve bytes", "thirteen byte", "x" * rng.below(40), "中文", "q'\"\n"]))
            else:
                r.append(rng.chance(1, 2))
        rows.append(r)
    return rows


def cell_of(v, ty):
    import struct as _s
    if v is None:
        return None
    if ty in ("int32", "int64"):
        return str(v)
    if ty == "double":
        return "f64:%016x" % _s.unpack("<Q", _s.pack("<d", v))[0]
    if ty == "utf8":
        return "s:" + v
    return "true" if v else "false"


def generated_component(ck, tier, runner):
    """Files written by tools/pqwrite.py (PLAIN, v1 pages, uncompressed): several row groups, several pages per chunk,
    NULL patterns from none to all. (i) every page body is decoded by Core/Plain.lean and must give the written values
    (ties the writer to the model of 'the rows a file encodes'); (ii) the engine must return exactly the written rows
    under random (batch_size, partitions)."""
    import pqwrite
    from sqlutil import Rng, bag
    comp = "generated_files"
    rng = Rng(ck.seed * 4447 + 10)
    d = os.path.join(vlib.ROOT, "scratch", "c10")
    os.makedirs(d, exist_ok=True)
    nfiles = 25 if tier == "quick" else 600
    page_cases = 0
    for fi in range(nfiles):
        ncols = 1 + rng.below(4)
        cols = [(f"c{i}", rng.pick(["int32", "int64", "double", "utf8", "bool", "int32", "int64"]), rng.chance(2, 3)) for i in range(ncols)]
        nrg = rng.pick([1, 1, 2, 3, 5])
        rgs = []
        for _ in range(nrg):
            n = rng.pick([0, 1, 2, 7, 8, 9, 100, 2047, 2048, 2049, 5000]) if tier != "quick" else rng.pick([0, 1, 7, 9, 100, 2049, 3000])
            rgs.append({"rows": gen_rows(rng, cols, n), "page_rows": rng.pick([None, 1, 3, 8, 100, 1000])})
        if sum(len(r["rows"]) for r in rgs) == 0 and nrg == 1:
            rgs[0]["rows"] = gen_rows(rng, cols, 3)
        path = os.path.join(d, f"g{fi % 8}.parquet")
        pqwrite.write_file(path, cols, rgs)
        # (i) page bodies vs the Lean page model
        lines, want = [], []
        for pi, (ty, optional, vals, body) in enumerate(pqwrite.PAGES[:40]):
            lines.append(f"case {pi} pqpage {ty} {int(optional)} {len(vals)} {body.hex() if body else '-'}")
            exp = []
            for v in vals:
                c = cell_of(v, ty)
                exp.append("N" if c is None else ("i" + c if ty in ("int32", "int64") else ("i1" if c == "true" else "i0") if ty == "bool" else "f" + str(int(c[4:], 16)) if ty == "double" else "s" + (v.encode().hex() or "-")))
            want.append("ok " + " ".join(exp) if exp else "ok ")
        model = vlib.run_model(lines, timeout=120).get("out", {})
        for pi in range(len(lines)):
            page_cases += 1
            if model.get(str(pi), "").strip() != want[pi].strip():
                ck.violation("generated/page-model-diff", f"Core/Plain.lean decodes a page written by tools/pqwrite.py differently from the written values: {lines[pi][:120]}",
                             {"correspondence": "Plain.decodePage vs pqwrite", "case": lines[pi][:400], "model": model.get(str(pi), "")[:300], "written": want[pi][:300]}, found_input=False)
                break
        # (ii) the engine returns exactly the written rows
        written = [[cell_of(v, cols[i][1]) for i, v in enumerate(r)] for rg in rgs for r in rg["rows"]]
        for _ in range(3 if tier == "quick" else 6):
            b, p = rng.pick([1, 3, 7, 100, 2048, 8192]), rng.pick([1, 2, 8])
            stmts = [f"SET batch_size TO {b}", f"SET partitions TO {p}", f"SELECT * FROM read_parquet('{path}')", f"SELECT count(*) FROM read_parquet('{path}')"]
            res = runner.run(stmts, timeout=120)
            ck.count(comp, 1)
            ck.nontrivial((fi, b, p))
            if isinstance(res, dict):
                ck.violation("generated/crash", f"reading a valid generated Parquet file crashes (batch_size={b}, partitions={p})", {"kind": "crash", "stmts": stmts, "columns": cols, "row_groups": [len(r['rows']) for r in rgs], "result": res})
                break
            r = res[2]
            if "rows" not in r:
                ck.violation("generated/valid-file-rejected", f"a valid generated Parquet file is rejected: {str(r)[:160]}", {"kind": "impl-vs-oracle", "stmts": stmts, "columns": cols, "row_groups": [len(x['rows']) for x in rgs], "page_rows": [x['page_rows'] for x in rgs]})
                break
            same = (r["rows"] == written) if p == 1 else (bag(r["rows"]) == bag(written))
            if not same or "rows" not in res[3] or res[3]["rows"][0][0] != str(len(written)):
                import shutil
                keep = os.path.join(vlib.ROOT, "replays", "C10", f"generated_{fi}.parquet")
                os.makedirs(os.path.dirname(keep), exist_ok=True)
                shutil.copy(path, keep)
                ck.violation("generated/rows-differ", f"read_parquet returns {len(r['rows'])} rows that are not the {len(written)} rows the file encodes (batch_size={b}, partitions={p}, row groups {[len(x['rows']) for x in rgs]}, page rows {[x['page_rows'] for x in rgs]})",
                             {"kind": "impl-vs-oracle", "file": keep, "stmts": stmts[:3], "columns": cols, "first_engine_rows": r["rows"][:5], "first_written_rows": written[:5], "count": res[3]})
                break
    ck.note(comp, "files", nfiles)
    ck.note(comp, "pages_checked_against_model", page_cases)


def main():
    tier = sys.argv[1] if len(sys.argv) > 1 else "quick"
    ck = vlib.Check("C10", tier)
    ck.coverage["rule"] = ("rle_decoder: valid RLE/bit-packed hybrid streams (bit widths 0..32, RLE runs and literal groups incl. empty ones) written by the driver, read through the real RleBitPackedDecoder in "
                           "random chunk sizes (mostly not multiples of 8) vs the encoded values and vs Core/Rle.lean; 10% ask for more values than encoded (truncated page). parquet_files: the 53 Parquet files "
                           "of /repo/testdata read under random (batch_size, partitions) vs batch_size 2048; row count vs a thrift footer parser; metadata table functions across batch sizes and vs the footer; "
                           "distinct = distinct stream / (file, config)")
    ck.assumptions = ["no Parquet writer exists in the sandbox: file-level coverage is the 53 testdata files (single row group, v1 pages, PLAIN/dictionary/RLE); DELTA_*/BYTE_STREAM_SPLIT/multi-page/"
                      "multi-row-group files are not exercised at file level", "tools/c10.py contains a minimal thrift-compact footer reader (trusted oracle for row/row-group/column counts)"]
    proof_ok = ck.proof_step()
    ok, blog, secs = vlib.build_harness()
    if not ok:
        ck.violation("harness/build", "harness does not build against /repo", {"correspondence": "harness build", "log": blog[-1500:]}, found_input=False)
        sys.exit(ck.finish())
    rle_component(ck, tier)
    runner = vlib.SqlRunner()
    try:
        generated_component(ck, tier, runner)
        files_component(ck, tier, runner)
    finally:
        runner.close()
    if not proof_ok:
        ck.violation("proof/C10", "proof obligation of Props/C10.lean no longer checks", {"theorem": "GlareModel.Props.C10.*", "log": ck.broken_proof}, found_input=bool(ck.violations))
    sys.exit(ck.finish())


if __name__ == "__main__":
    main()
