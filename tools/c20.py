#!/usr/bin/env python3
"""C20 — String and pattern functions are Unicode-correct; LIKE rewrites are equivalent."""
import itertools
import sys

import vlib
from sqlutil import Rng, sql_str

ALPHA = ["a", "b", "é", "%", "_", "\\", ".", "\n"]


def hx(s):
    return s.encode("utf-8").hex() if s else "-"


def unhx(h):
    return "" if h == "-" else bytes.fromhex(h).decode("utf-8")


def lit(s):
    return sql_str(s)


def like_component(ck, tier, runner):
    rng = Rng(ck.seed * 7 + 20)
    pats = [""]
    maxlen = 3 if tier == "quick" else 4
    for n in range(1, maxlen + 1):
        pats += ["".join(p) for p in itertools.product(ALPHA[:7], repeat=n)]
    if tier == "quick":
        pats = [p for p in pats if len(p) <= 2] + rng.shuffle([p for p in pats if len(p) == 3])[:150]
    # longer patterns around the rewrite classes, with inner wildcards and multi-byte needles
    for _ in range(400 if tier == "quick" else 2000):
        body = "".join(rng.pick(["a", "b", "é", "ab", "%", "_", "aaaaaaaaaaaab"]) for _ in range(1 + rng.below(3)))
        pats.append(rng.pick(["%", ""]) + body + rng.pick(["%", ""]))
    pats = sorted(set(pats))
    strs = [""] + ["".join(p) for n in (1, 2, 3) for p in itertools.product(["a", "b", "é", "%"], repeat=n)]
    strs += ["a\nb", "\n", "ab.", "a.b", "_", "a_b", "\\", "a\\b", "aaaaaaaaaaaab", "aaaaaaaaaaaabX", "Xaaaaaaaaaaaab", "ééééééééééééé", "axxb", "axb", "abab", "a%b"]
    strs = sorted(set(strs))
    lines = []
    idx = {}
    for p in pats:
        for s in strs:
            idx[(p, s)] = len(lines)
            lines.append(f"case {len(lines)} like {hx(p)} {hx(s)}")
    model = vlib.run_model(lines, timeout=600).get("out", {})
    ck.count("like", len(lines))
    ck.note("like", "patterns", len(pats))
    ck.note("like", "strings", len(strs))
    kinds = {}
    setup = ["CREATE TEMP TABLE strs (i INT, s TEXT)",
             "INSERT INTO strs VALUES " + ", ".join(f"({i}, {lit(s)})" for i, s in enumerate(strs))]
    # model self-consistency is a theorem (Props/C20) for the rewrite classes; here it is also observed
    for (p, s), i in idx.items():
        m = model.get(str(i), "")
        parts = m.split()
        if len(parts) == 3:
            kinds[parts[2]] = kinds.get(parts[2], 0) + 1
            if parts[0] != parts[1]:
                ck.violation("like/model/rewrite-vs-denotation", f"model: rewriteEval != likeMatch for pattern {p!r} string {s!r}",
                             {"theorem": "GlareModel.Props.C20.like_*", "pattern": p, "string": s, "model": m}, found_input=False)
    ck.note("like", "classes", kinds)

    def expect(p, s):
        m = model.get(str(idx[(p, s)]), "")
        return m.split()[0] == "true" if m else None

    def check_rows(context, p, rows, sql):
        for r in rows:
            s = strs[int(r[0])]
            got = r[1]
            ex = expect(p, s)
            ck.nontrivial(("like", p, s))
            if ex is None:
                continue
            if got != ("true" if ex else "false"):
                cls = model.get(str(idx[(p, s)]), "? ? ?").split()[2]
                ck.violation(f"like/{context}/{cls}", f"{s!r} LIKE {p!r} = {got} in context '{context}', the pattern denotes {ex} (rewrite class {cls})",
                             {"kind": "impl-vs-oracle", "setup": setup, "sql": sql, "pattern": p, "string": s, "engine": got, "model": ex})
                return
    # constant patterns: optimizer on (rewrites fire) and off; patterns from a column (general matcher)
    for block in range(0, len(pats), 40):
        chunk = pats[block:block + 40]
        for context, pre in (("const_opt_on", ["SET enable_optimizer TO true"]), ("const_opt_off", ["SET enable_optimizer TO false"])):
            stmts = setup + pre + [f"SELECT i, s LIKE {lit(p)} FROM strs" for p in chunk]
            res = runner.run(stmts, timeout=120)
            if isinstance(res, dict):
                ck.violation(f"like/{context}/crash", "LIKE script crashed", {"kind": "crash", "stmts": stmts[-3:], "result": res})
                continue
            for p, r, q in zip(chunk, res[len(setup) + 1:], stmts[len(setup) + 1:]):
                if "rows" in r:
                    check_rows(context, p, r["rows"], q)
                else:
                    ck.violation(f"like/{context}/error", f"s LIKE {p!r} fails: {str(r)[:120]}", {"kind": "impl-vs-oracle", "sql": q, "engine": r})
        stmts = setup + ["CREATE TEMP TABLE pats (j INT, p TEXT)", "INSERT INTO pats VALUES " + ", ".join(f"({j}, {lit(p)})" for j, p in enumerate(chunk)),
                         "SELECT i, j, s LIKE p FROM strs, pats"]
        res = runner.run(stmts, timeout=120)
        if isinstance(res, dict) or "rows" not in res[-1]:
            ck.violation("like/column_pattern/failed", f"LIKE with a column pattern failed: {str(res)[:200]}", {"kind": "crash", "stmts": stmts[-2:], "result": res})
            continue
        bypat = {}
        for r in res[-1]["rows"]:
            bypat.setdefault(int(r[1]), []).append([r[0], r[2]])
        for j, rows in bypat.items():
            check_rows("column_pattern", chunk[j], rows, stmts[-1])
    ck.sample({"like_case": lines[len(lines) // 2], "model": model.get(str(len(lines) // 2))})


def str_component(ck, tier, runner):
    rng = Rng(ck.seed * 11 + 21)
    pool = ["", "a", "é", "ab", "aé", "éa", "日本語", "a😀b", "hello", "aaaaaaaaaaaa", "aaaaaaaaaaaab", "ééééééééééééé", "x y", "ab ab"]
    cases = []
    for s in pool:
        for n in (-20, -3, -2, -1, 0, 1, 2, 3, 12, 13, 20):
            cases.append(("left", [s, n], f"left({lit(s)}, {n})"))
            cases.append(("right", [s, n], f"right({lit(s)}, {n})"))
            if n <= 4:
                cases.append(("repeat", [s, n], f"repeat({lit(s)}, {n})"))
        for f in (-2, 0, 1, 2, 3, 13, 30):
            cases.append(("substring2", [s, f], f"substring({lit(s)}, {f})"))
            for c in (0, 1, 2, 5, 40):
                cases.append(("substring3", [s, f, c], f"substring({lit(s)}, {f}, {c})"))
        cases.append(("reverse", [s], f"reverse({lit(s)})"))
        cases.append(("length", [s], f"length({lit(s)})"))
        for n in (-1, 0, 1, 2, 5, 14, 16):
            for pad in ("x", "é", "ab", ""):
                cases.append(("lpad", [s, n, pad], f"lpad({lit(s)}, {n}, {lit(pad)})"))
                cases.append(("rpad", [s, n, pad], f"rpad({lit(s)}, {n}, {lit(pad)})"))
        for nd in ("", "a", "é", "ab", "b", "aaaaaaaaaaaab", "語"):
            cases.append(("strpos", [s, nd], f"strpos({lit(s)}, {lit(nd)})"))
            cases.append(("starts_with", [s, nd], f"starts_with({lit(s)}, {lit(nd)})"))
            cases.append(("ends_with", [s, nd], f"ends_with({lit(s)}, {lit(nd)})"))
            cases.append(("contains", [s, nd], f"contains({lit(s)}, {lit(nd)})"))
    if tier == "quick":
        cases = rng.shuffle(cases)[:1500]
    lines = []
    for i, (fn, args, sql) in enumerate(cases):
        enc = [hx(a) if isinstance(a, str) else str(a) for a in args]
        lines.append(f"case {i} str {fn} " + " ".join(enc))
    model = vlib.run_model(lines).get("out", {})
    ck.count("strfn", len(cases))
    # evaluated twice: folded (literals) and over a one-row table column (no folding)
    for block in range(0, len(cases), 60):
        chunk = list(enumerate(cases))[block:block + 60]
        q = "SELECT " + ", ".join(sql for _, (fn, args, sql) in chunk)
        res = runner.run([q], timeout=60)
        if isinstance(res, dict) or "rows" not in res[0]:
            # isolate the culprit
            for i, (fn, args, sql) in chunk:
                r1 = runner.run(["SELECT " + sql], timeout=30)
                if isinstance(r1, dict) or "rows" not in r1[0]:
                    ck.violation(f"strfn/{fn}/{'crash' if isinstance(r1, dict) or 'panic' in r1[0] else 'error'}", f"SELECT {sql}: {str(r1)[:150]} (model {unhx_safe(model.get(str(i)))!r})",
                                 {"kind": "crash", "sql": "SELECT " + sql, "engine": r1, "model": model.get(str(i))})
                    break
            continue
        for (i, (fn, args, sql)), cell in zip(chunk, res[0]["rows"][0]):
            ck.nontrivial(sql)
            m = model.get(str(i), "")
            if fn in ("length", "strpos"):
                exp = m
            elif fn in ("starts_with", "ends_with", "contains"):
                exp = m
            else:
                exp = "s:" + unhx_safe(m)
            if cell != exp:
                ck.violation(f"strfn/{fn}/wrong-value", f"SELECT {sql} = {cell!r}, definition gives {exp!r}",
                             {"kind": "impl-vs-oracle", "sql": "SELECT " + sql, "engine": cell, "model": exp})
    ck.sample({"strfn_case": lines[0], "model": model.get("0")})


def unhx_safe(h):
    try:
        return unhx(h)
    except Exception:
        return str(h)


def main():
    tier = sys.argv[1] if len(sys.argv) > 1 else "quick"
    ck = vlib.Check("C20", tier)
    ck.coverage["rule"] = ("like: all patterns up to length 2 (quick; 4 thorough) over {a,b,é,%,_,\\,.} + sampled longer ones with inner wildcards and >12-byte needles x all strings up to length 3 over "
                           "{a,b,é,%} + newline/backslash/long strings, in three contexts (constant pattern optimizer on / off, pattern from a column); strfn: left/right/substring/repeat/reverse/length/"
                           "lpad/rpad/strpos/starts_with/ends_with/contains over ASCII, 2-4 byte code points, inline (<=12 bytes) and long strings, negative/zero/large counts; distinct = distinct SQL expression")
    ck.assumptions = ["regexp_* functions, upper/lower/initcap (locale tables) and md5 are not modelled", "strings are compared as UTF-8 text decoded by Python"]
    proof_ok = ck.proof_step()
    ok, blog, secs = vlib.build_harness()
    if not ok:
        ck.violation("harness/build", "harness does not build against /repo", {"correspondence": "harness build", "log": blog[-1500:]}, found_input=False)
        sys.exit(ck.finish())
    runner = vlib.SqlRunner()
    try:
        like_component(ck, tier, runner)
        str_component(ck, tier, runner)
    finally:
        runner.close()
    if not proof_ok:
        ck.violation("proof/C20", "proof obligation of Props/C20.lean no longer checks", {"theorem": "GlareModel.Props.C20.*", "log": ck.broken_proof}, found_input=bool(ck.violations))
    sys.exit(ck.finish())


if __name__ == "__main__":
    main()
