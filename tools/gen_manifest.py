#!/usr/bin/env python3
"""Writes /verif/MANIFEST.json from the table below (single source of truth for the claims)."""
import json
import os
import subprocess

ROOT = os.path.dirname(os.path.dirname(os.path.abspath(__file__)))

HOOK_COMMITS = subprocess.run(
    "git -C /repo log --format=%h --grep='^verif hooks' ", shell=True, capture_output=True, text=True).stdout.split()

TB = ("Trusted base: Lean 4.33.0 kernel (axioms per theorem are printed by #print axioms into the evidence; only propext, "
      "Classical.choice, Quot.sound are accepted); the hand-written model is tied to /repo by the correspondence check "
      "(Rust harness gvh built from /repo's working tree with --cfg glaredb_verif, Lean driver gmodel, Python driver); ")

CLAIMS = {
    "C08": dict(
        text=("Lean theorems (Props/C08.lean): byte comparison of the normalised sort key equals the declared order for every fixed-width "
              "type/width, every ASC/DESC x NULLS FIRST/LAST combination and any number of key columns (key_row_embedding, key_col_embedding, "
              "key_col_injective), and the 12-byte string prefix never contradicts the full byte order (string_prefix_sound) - all values, by "
              "induction, no bound; merging: the two-run merge is a permutation and keeps sortedness for any total preorder (merge_perm, merge_sorted), any merge order of any number of sorted runs gives a sorted permutation of all rows "
              "(merge_tree_sorted_perm), and truncating runs to the limit hint before merging never loses one of the first n rows (merge_take). Tie to the code: the real SortLayout::write_key_arrays is run on exhaustive 8/16-bit domains, boundary-biased "
              "wide values, strings and multi-column rows and must equal Core/SortKey.lean byte for byte; an independent order oracle checks the "
              "implementation's own key bytes and SQL-level ORDER BY/LIMIT/OFFSET scripts (sorted, permutation, exact slice)."),
        note=TB + "the merge model (Core/Merge.lean) is an abstraction of BinaryMerger (block boundaries and heap keys are not modelled) tied only by the SQL-level sort oracle; sort_from_blocks is not modelled; Python comparator of tools/sqlutil.py is the SQL oracle.",
        technique="Lean 4 proof (order embedding by induction) + differential correspondence with the real key encoder + SQL sort oracle",
        design="5/C08"),
    "C12": dict(
        text=("Lean theorems (Props/C12.lean) about the code-shaped arithmetic model Core/Arith.lean: every native integer operator is exact whenever it yields a value "
              "and traps exactly when the mathematical result is not representable (all widths, both signednesses); SUM is a homomorphism over any split of the input and a "
              "finalized SUM is the exact total (induction over lists); decimal +/- result-type bounds; up-scaling is exact. The statement 'overflow is an error' is proved false of "
              "the model with the witness 127+1 (the code panics/wraps; listed known findings). Tie: exhaustive 8-bit pairs x 5 ops x 2 signednesses over columns, boundary-biased "
              "16/32/64-bit pairs folded and over columns, decimal (p,s) configurations incl. mixed int/decimal and the 64/128 boundary, round(), SUM over partitions; engine vs model vs exact arithmetic."),
        note=TB + "Python big-integer arithmetic is the exact-value oracle; float-typed results are outside the modelled fragment; 128-bit integer types have no SQL name and are covered by the theorems only.",
        technique="Lean 4 proof (exact-or-trap, SUM homomorphism by induction) + differential correspondence engine/model/exact arithmetic",
        design="5/C12"),
    "C13": dict(
        text=("Lean theorems (Props/C13.lean): integer casts are identity-or-none; a decimal rescale never exceeds the target precision; the down-scaling computation is "
              "round-half-away-from-zero for every value and every power of ten (roundAdj_half_away: nearest multiple, ties away from zero - unbounded, by arithmetic on quotient/remainder); "
              "boolean text round trip; parse_format_int - for every integer width and signedness and every value in range, parsing the formatted text gives the value back (digits by well-founded recursion, sign, range check; "
              "parse_format_nat for the digit strings); documented parser facts. Tie: the real Parser/Formatter implementations (dates over 0001..9999 incl. whole years, year boundaries, leap days; integer and "
              "decimal texts incl. malformed) and SQL casts (int->int exhaustive for 8/16-bit sources, decimal rescales with ties of both signs, int->decimal, f64->int, text round trips) "
              "against Core/Cast.lean and against exact oracles."),
        note=TB + "Python datetime/big integers are the oracle for civil dates and exact rounding; chrono's lenient date parsing (whitespace, digit counts) and float<->text are third-party/out of the model.",
        technique="Lean 4 proof (rounding law, precision bound) + differential correspondence of real parsers/formatters/casts with the model",
        design="5/C13"),
    "C01": dict(
        text=("Sem (lean/GlareModel/Core/Sem.lean) is a total, executable definition of SQL bag semantics for the modelled fragment (scan/values/filter/project/joins incl. outer, semi, anti/"
              "aggregates incl. grouping sets/DISTINCT/UNION/ORDER BY/LIMIT/CASE/IN/3VL/subquery predicates, nested evaluation per outer row); Props/C01.lean proves the three-valued "
              "logic laws on the whole truth domain. Tie: typed random queries (depth <= 4, nested derived tables so that operators compose arbitrarily) over random databases incl. empty, "
              "NULL-heavy, duplicate-heavy and >512-group tables are executed by the real engine and by the compiled Lean evaluator; results must be equal as bags and respect ORDER BY keys."),
        note=TB + "the property's right-hand side ('the rows SQL semantics prescribe') *is* Sem, so Sem is trusted as the definition; the theorem part is small (3VL laws), the deciding part is the "
             "differential tie; engine rejections of valid SQL are counted, not violations; float arithmetic, window functions, lists/structs are outside the fragment.",
        technique="executable Lean semantics (Sem) as oracle + differential correspondence with the engine; Lean proofs of 3VL laws",
        design="5/C01", category="translation_validation"),
    "C02": dict(
        text=("Props/C02.lean proves the 3VL rewrite laws the passes rely on (conjunct splitting, AND/OR distribution) and that the absorption rewrite x OR (x AND y) -> x AND y performed by the pinned "
              "commit is unsound (witness; known finding), and the plan-level identities behind the passes, for arbitrary row types and predicates: a filter over a cross product is the inner join; filter pushdown through inner joins (either "
              "side), LEFT joins (preserved side only - the NULL-extended side is a witnessed counterexample), semi and anti joins; filter splitting / reordering; LIMIT through projections (not through filters: witness); "
              "projection composition and filter-through-projection; semi_anti_partition (EXISTS and NOT EXISTS split the outer rows), the empty/constant-FALSE join laws, and inner_join_comm / cross_comm (swapping the inputs of an inner join gives the same bag: the law behind join reordering), left_join_matched_part / left_join_unmatched_part (a LEFT join is its inner join plus one NULL-extended row per anti-join row). Tie: every generated query - random ones plus shapes aimed at individual rules (filter on grouping columns above ROLLUP/CUBE, OR of conjunctions "
              "spanning both join sides, filters on the nullable side of outer joins, LIMIT over UNION, pruned/duplicated projections, DISTINCT) - runs with enable_optimizer on and off; both must equal Sem."),
        note=TB + "Sem is the reference for both plans; the laws are stated on list semantics of the operators, not on a Lean model of the Rust passes themselves (DESIGN 5/C02 level 2-3: not built); each pass is tied only by the optimizer-on/off/Sem runs.",
        technique="Lean proofs of rewrite laws + differential optimizer-on / optimizer-off / Sem comparison",
        design="5/C02", category="translation_validation"),
    "C03": dict(
        text=("Props/C03.lean: limitRun_spec - the model of PhysicalLimit::poll_execute outputs exactly (input.drop offset).take count for every batching of the input (induction over the batch list, "
              "any batch sizes incl. empty batches and batches straddling offset/limit) and is therefore independent of batch boundaries; limit_length / limit_count_schedule_independent - the operator state is shared by all "
              "partitions, so a multi-partition run is limitRun on the batches in arrival order and the number of rows emitted depends only on how many arrive; limit_sublist - the output is a slice of what arrived; scan_batches_spec - the table scan (scan_inner after the repair of F36) returns every stored row "
              "exactly once, in order, in batches no larger than the output capacity whatever the stored chunk sizes, and unsliced_scan_exceeds_capacity (the pinned commit's scan). Tie: generated queries are executed under a base configuration and "
              "random points of the grid partitions x batch_size x enable_hash_joins with rows spread over several INSERTs; all runs, and CREATE TABLE AS row counts/contents, must equal Sem."),
        note=TB + "tables are written with up to 400 rows per INSERT whatever the batch size (stored chunks larger than the batch size used to panic: F36, repaired); thread interleavings below poll granularity are C04/C16.",
        technique="Lean proof (limit = exact slice for any batching) + configuration-grid differential against Sem",
        design="5/C03"),
    "C06": dict(
        text=("Props/C06.lean: hash_eq_nl - a hash join that buckets the build side by an arbitrary hash function returns exactly the nested-loop join's pairs, for every hash function (collisions, constant "
              "hashes), NULL keys never match (null_key_matches_nothing), and a LEFT join contains every probe row with unmatched ones exactly once (left_join_preserves); drain_exactly_once - the code-shaped drain of the build side (Core/Drain.lean: per-partition cursor "
              "(block, row), batches of any capacity, blocks p, p+P, ...) emits every kept row (unmatched for LEFT, all for MARK) exactly once for every partition count, batch capacity and block layout "
              "(scanBlock_spec, loadRows_spec, drainAll_flatten by induction; the stride partition reuses C11's skipStep theorem); hash_eq_nl_not_distinct - hashing on an IS NOT DISTINCT FROM key (NULLs hashed like values, matched by the null-safe "
              "comparison) equals the nested-loop join for every hash function (the join back of decorrelated subqueries since the repair of F37). Tie: two key tables with controlled "
              "duplicates/NULLs/empty sides joined with every kind (inner/left/right/cross/semi/anti) and condition shape under hash and nested-loop joins, small batch sizes and several partitions; all equal Sem.join."),
        note=TB + "hash_eq_nl is about an abstract model of the algorithm (bucket = filter by hash); the drain model follows drain.rs line by line; hash_table/{mod,scan}.rs (insertion, chain scan) are not modelled; all are tied by the differential runs only.",
        technique="Lean proof (hash join = nested-loop join for all hash functions) + join differential against Sem",
        design="5/C06"),
    "C07": dict(
        text=("Props/C07.lean: min/max update+merge are homomorphisms over any split of the input incl. partitions that saw no non-NULL row (max_split, min_split, by induction), the result of max is an "
              "element of the input dominating all others (max_is_maximum); SUM homomorphism is in Props/C12; directory_never_full - the hash table directory (Core/Directory.lean: needs_resize at 70% load, resize to "
              "max(2*cap, n+cap) rounded to a power of two) always keeps an empty slot for every history of batch sizes and new groups, so linear probing always ends and 'Hash table completely full' is unreachable; batch_cap_mono. "
              "Tie: the real Directory (needs_resize, resize, probing) driven through a cfg hook on 400 (quick) / 20000 random batch histories must show exactly the model's capacities and occupancies; one table with 1-2200 distinct group keys (hash tables resize, keys recur after the resize), "
              "0-100% NULL keys, all-negative/all-positive/mixed values, aggregated with count/sum/min/max/bool_and/bool_or (+DISTINCT), GROUP BY, ROLLUP/CUBE, SELECT DISTINCT, UNION under 1 and 2-16 partitions."),
        note=TB + "FILTER is a known finding (ignored by the binder); float aggregates are not modelled; of the hash-aggregate table only the directory's capacity bookkeeping is modelled (group matching, row storage and merging of partition tables are covered by the differential runs only).",
        technique="Lean proof (aggregate states are homomorphisms over input splits) + aggregation differential against Sem",
        design="5/C07"),
    "C09": dict(
        text=("Props/C09.lean: dependent_join_via_magic - evaluating a subquery once per distinct correlation value and joining back on that value equals nested evaluation per outer row, for duplicate and NULL "
              "correlation values (the identity behind decorrelation), and EXISTS as a semi join; join_back_not_distinct_sound (the plan with IS NOT DISTINCT FROM is that identity) and join_back_sql_eq_loses_null_rows "
              "(the pinned commit joined back with `=` and lost outer rows with a NULL correlation value: F37, repaired); not_in_eq_anti_join_without_nulls / not_in_anti_join_wrong_with_null (the anti-join plan for NOT IN is what "
              "three-valued NOT IN means exactly when no NULL is involved: known finding F7). Tie: correlated EXISTS/NOT EXISTS/scalar aggregates/HAVING/two correlated columns/nesting depth 2 against Sem "
              "(which evaluates per outer row); CTEs (plain, MATERIALIZED, 1-3 references) and views against the inlined body; four known findings are probed on their specific inputs."),
        note=TB + "the theorem's join-back uses NULL-safe equality, as the repaired engine does; plan_subquery.rs itself is tied by the differential runs, not modelled rule by rule.",
        technique="Lean proof (magic-set decorrelation identity) + correlated-subquery differential against nested evaluation (Sem)",
        design="5/C09"),
    "C20": dict(
        text=("Props/C20.lean: for every pattern without escapes, the equality, prefix (lits%), suffix (%lits) and contains (%lits%) rewrites accept exactly the strings the LIKE denotation `likeMatch` "
              "accepts (like_plain_is_equality, like_prefix, like_suffix, like_contains - induction over pattern and string, unbounded); escapes and newlines need the general matcher (witness theorems for the "
              "two repaired defects); laws of left/right/repeat/reverse/substring on code points. Tie: all short patterns over {a,b,é,%,_,\\,.} + longer ones with inner wildcards x strings (multi-byte, newline, "
              ">12 bytes) in three contexts (constant pattern with optimizer on / off, pattern from a column) against likeMatch; 1500+ string-function calls (negative/zero/large counts, 2-4 byte code points, "
              "inline and heap strings) against Core/Str.lean."),
        note=TB + "the `regex` crate is modelled only through the LIKE fragment; regexp_*, upper/lower/initcap and md5 are not modelled.",
        technique="Lean proof (LIKE rewrite classes = denotation, by induction) + three-context differential of LIKE and string functions",
        design="5/C20"),
    "C05": dict(
        text=("Props/C05.lean: executor_is_map - the model of the vectorised binary executor (physical buffer + validity by logical row + selection; all-valid fast path and per-row validity path) "
              "returns liftNull f (a[i]) (b[i]) for every selected row, for every vector shape (flat, constant, dictionary-selected, any validity) and any batch selection, so the value cannot depend on the "
              "representation and both paths agree; eval_spec - the code-shaped CASE loop (Core/CaseExpr.lean: shrinking selection, per-arm evaluation on the TRUE rows only, scatter to dense output positions, ELSE on the rest) "
              "equals 'first TRUE arm, else ELSE' mapped over the selected rows for every arm list, batch and selection (loop invariant evalLoop_spec by induction over the arms); the pinned commit's scatter to "
              "physical row indices is wrong (witness; repaired finding F16); Kleene truth tables on the whole domain. Tie: exhaustive truth tables and small-domain operator tables in column / constant-operand / literal-only form with "
              "the optimizer on and off, and random typed expressions each evaluated in nine contexts (column, under a selection, CASE branch, second WHEN, after AND short-circuit, duplicated for CSE, join "
              "condition, WHERE, literal-only) against Sem.evalE."),
        note=TB + "Sem.evalE is the definition of each operator; function families with their own checks: integer/decimal arithmetic (C12), casts (C13), strings/LIKE (C20); float functions are not modelled.",
        technique="Lean proof (vectorised executor = map over logical values for every representation) + nine-context differential against Sem",
        design="5/C05"),
    "C17": dict(
        text=("Props/C17.lean about Core/Csv.lean (byte-level state machine of the csv_core reader as configured by DialectOptions, driven like CsvDecoder::decode and finished like CsvReader::poll_pull): "
              "decode_chunks / run_chunk_independent - decoding any chunking of the bytes (cuts inside quoted fields, between CR and LF, inside code points) equals decoding the whole input; a plain field "
              "followed by LF yields exactly that one-field record; empty lines are skipped; the last record needs no terminator. Type inference (Core/CsvInfer.lean, value parsers abstract): infer_monotone (more sampled rows only widen), "
              "infer_fits_when_nested, ladder_unsound_bool_then_int (the pinned commit's ladder types `true`,`1` as Int64, which rejects `true`, and depends on the row order - F68, repaired), inferFixed_fits (the repaired inference "
              "accepts every sampled value for any parsers) and ladder_never_overshoots. Tie: 4000 random/structured byte strings x 8 dialects x random chunk sizes through "
              "the real CsvDecoder (clear_completed between chunks, empty input at end) must equal the model, and chunked must equal unchunked on the implementation itself; generated files (up to 5000 rows, "
              "one > 4 MiB) read with read_csv under batch sizes 1..8192 and 1-8 partitions must equal the records the model decodes, with the reader's dialect/header rules and, per column, the narrowest of boolean/integer/float/text that fits the sampled values (a third of the files have a column whose value kind changes)."),
        note=TB + "csv_core is third-party code modelled by Core/Csv.lean; dialect and header rules are re-implemented in the driver (tools/c17.py) from dialect.rs/schema.rs, the column type is the property's 'narrowest type that fits' computed with re-implementations of the three value parsers; timestamp inference is a TODO in the engine.",
        technique="Lean proof (chunk independence of the record decoder) + decoder-level correspondence + model-based read_csv oracle",
        design="5/C17"),
    "C10": dict(
        text=("Props/C10.lean about Core/Rle.lean (resumable model of RleBitPackedDecoder::read / read_next, bit_unpack and read_unsigned_vlq over an explicit byte cursor): readN_add and chunked_read - reading "
              "m+n values equals reading m then n, hence any sequence of batch sizes yields the same values and final state (splits mid RLE run, mid bit-packed group, at non-zero bit positions; induction, "
              "unbounded); readN returns exactly n values; a truncated stream is reported, not over-read. Tie: 3000 valid hybrid streams (bit widths 0..32) through the real decoder in random chunk sizes vs the "
              "encoded values and the model; Parquet files written by tools/pqwrite.py (1-5 row groups, 1-N pages per chunk, NULL ratios 0-100%, boundary values) whose every page is decoded by Core/Plain.lean "
              "(placeLevels_spec, placeLevels_append, decodeFixed_encodeFixed are the theorems about it) and which the engine must read back exactly under random (batch_size, partitions); the 53 Parquet files of /repo/testdata under random (batch_size, partitions) vs batch_size 2048, row counts vs a thrift footer reader, metadata table functions across batch sizes and vs the footer."),
        note=TB + "tools/pqwrite.py writes PLAIN / uncompressed v1 pages only: dictionary, DELTA_*, BYTE_STREAM_SPLIT and compressed pages are covered only through the 53 testdata files (batch-size metamorphic reads); "
             "the thrift parser is not modelled; the driver's minimal footer reader is a trusted oracle.",
        technique="Lean proof (batch-split independence of the resumable RLE/bit-packed decoder) + decoder correspondence + batch-size metamorphic reads of real files",
        design="5/C10"),
    "C14": dict(
        text=("Props/C14.lean about Core/Catalog.lean (statement step functions of a session's temp catalog, settings and table contents; INSERT/CTAS evaluate their source with Sem on the state before "
              "the statement) and Core/Collection.lean (code-shaped ConcurrentColumnCollection: chunked append, flush, sequential/parallel/snapshot scans): a failing statement changes nothing "
              "(spec_failed_stmt_changes_nothing, all statements), sessions do not see each other's temp objects/settings (other_sessions_untouched), DROP/IF NOT EXISTS/SET-RESET laws, INSERT reads the "
              "pre-state; the parallel claim protocol hands out every segment index exactly once for any number of scanners and any schedule (claims_perm, claims_nodup, claims_complete - induction over the "
              "schedule); appending keeps every row in order for any chunk capacity; a snapshot scan never returns rows published after its creation (prefix_stable + snapshot_scan_reads_prefix) while the "
              "live scan of the pinned commit reads its own appends (witness; repaired by a fix: commit); the code-shaped CTAS leaves a table behind on a run-time failure (witness; known finding). "
              "Tie: random statement histories on 1-3 sessions vs the model after every statement plus a full state dump; self-inserts around the 16x2048-row flush threshold; exactly-once inserts under "
              "partitions x batch_size; 400+ append/flush/scan interleavings of the real collection vs the model."),
        note=TB + "Sem defines what a source query returns; multi-threaded races inside the scc catalog maps are not driven (statements run one at a time per engine); persistent catalogs do not exist at this commit.",
        technique="Lean 4 proof (statement-step laws, claim protocol exactly-once by induction over schedules, snapshot-scan invariant) + history-level and collection-level differential correspondence",
        design="5/C14"),
    "C15": dict(
        text=("Partial. Props/C15.lean about Core/Tokens.lean (model of Tokenizer::next_token / tokenize): every successful next_token consumes at least one character (nextToken_progress), hence the tokenizer "
              "terminates on every input with fuel = input length (tokenize_total), emits at most one token per character (tokenize_length_le) and fails only on the unhandled character at the head of the rest "
              "(nextToken_error_is_head); the parenthesis depth the recursive-descent parser must follow is unbounded in the input length (paren_depth_unbounded: 2k+1 characters ask for depth k - the logical half "
              "of the stack-overflow finding); a failing statement leaves catalog and settings unchanged in the statement-step specification (from C14). Tie: 4000 random / SQL-shaped / Unicode strings through the "
              "real Tokenizer vs the model (tokens, error character, depth); ~4500 statements (valid, run-time failing, token-level mutations, random Unicode, trailing multi-byte garbage, verify_optimized_plan mode), each "
              "followed in the same session by a dump of 7 settings, the catalog listing and a table digest: outcome must be rows or error and an error must leave the dump unchanged; nesting bombs of 13 shapes."),
        note=TB + "why partial: native stack consumption, allocator failure and panics inside third-party crates are run-time facts no Lean model exhibits - the theorem bounds nothing there, the harness observes the crash; "
             "parser, binder and planner are not modelled beyond the tokenizer (their totality is only sampled by the statement stream); statement text reaches the engine as &str, so invalid UTF-8 cannot be submitted.",
        technique="Lean 4 proof (tokenizer progress/termination/bounds by induction; unbounded nesting depth) + tokenizer correspondence + crash/hang/state-preservation oracle on fuzzed statements in child processes",
        design="5/C15", partial=True),
    "C18": dict(
        text=("Translator + proof + three-way agreement. tools/gen_tables.py regenerates Generated/CastTable.lean on every run from what the running code answers for implicit_cast_score on every ordered pair of "
              "23 DataTypeIds; Props/C18.lean proves over that table (decide +kernel over the whole finite table, lifted by all_complete): an exact match beats every implicit cast, scores depend only on the target, "
              "implicit integer casts are widening, no fractional type is implicitly cast to an integer, and UNION unification (Core/Unify.lean, model of bind_setop.rs) fails exactly when no implicit cast exists either "
              "way and otherwise yields one of the two branch types to which the other has an implicit cast, independent of branch order; plus the decimal +/- announced-vs-produced type (witness of the repaired "
              "re-bind defect). A changed cast rule changes the Lean source these proofs are about. Tie: for ~8800 statements DESCRIBE S, the result's output schema and the datatype of every produced array must agree "
              "(all ordered pairs of 17 SQL types as UNION branches - also against the unification model -, all type pairs x 11 operator forms in column and literal form, every scalar/aggregate function name x 17-33 "
              "argument-type combinations, random typed queries, DESCRIBE of tables/views/table functions/files vs SELECT *, DML/SHOW/EXPLAIN)."),
        note=TB + "overload resolution beyond the score table (candidate.rs) and the per-function return-type rules are tied only by the three-way agreement, not modelled; Array::get_value derives decimal precision/scale and "
             "timestamp unit from the array's datatype, so 'type of every value' is checked as 'type of every array'; statements that return no batch cannot be checked for produced types (counted in the evidence).",
        technique="translator (cast table regenerated from the running code) + Lean 4 proofs over the whole table (decide +kernel) + DESCRIBE / output-schema / produced-array agreement on type-directed statement streams",
        design="5/C18"),
    "C11": dict(
        text=("Props/C11.lean about Core/Scan.lean: queues_partition - for every partition count P >= 1 the per-partition file (row-group) queues `index mod P` together are a permutation of the expanded file list: "
              "every file is scanned exactly once, none twice (buckets_perm by induction over the list, any element type), and the iterator chain the code uses, skip(p).step_by(P), is proved equal to that index-mod-P selection (skipStep_eq_queue); prune_conservative - when the model of PrimitiveRowGroupPruner::should_prune answers true for "
              "statistics that are valid in the comparison type, no row of the chunk satisfies all pushed `col = constant` conjuncts; absent/inexact statistics and NULL constants never prune; the validity "
              "hypothesis on the `as_()` cast cannot be dropped (wrapping-cast witness). Tie: ~900 pushed-down equality scans over every distinct Parquet file of /repo/testdata (constants present / below min / "
              "above max / NULL x projections incl. non-prefix, repeated, reordered, metadata columns, count(*)) vs reading everything and filtering with an unpushable predicate with the optimizer off; file "
              "lists, repeated files and globs of CSV / text / Parquet files of different sizes under 1-16 partitions vs the UNION ALL of single-file scans."),
        note=TB + "no Parquet writer exists offline, so statistics configurations are those of the testdata files (single row group, exact min/max): inexact/absent/unsigned statistics and multi-row-group pruning are "
             "covered by the theorems only; glob matching is not modelled; multi-row-group pruning on generated files with controlled statistics is exercised by the `pruning` component where built, otherwise by the theorems only.",
        technique="Lean 4 proof (queues are a partition of the file list for every P; pruning is conservative) + pushed-vs-unpushed and list-vs-union differential scans",
        design="5/C11"),
    "C19": dict(
        text=("Partial. Props/C19.lean: the footer loader (Core/Footer.lean) accepts only metadata slices that lie inside the file (footer_ok_in_file) and - after the repair - never sizes a buffer from a length "
              "larger than the file (footer_checked_alloc_le_size; the pinned commit's 4 GiB allocation from a 12-byte file is the witness footer_unchecked_alloc_unbounded); the CSV decoder is a total function on "
              "arbitrary bytes whose buffered output never exceeds its input (decode_weight_le, induction over the bytes); a truncated RLE/bit-packed stream is reported, not over-read (Props/C10); the thrift varint reader (Core/Varint.lean) never evaluates a shift of 64 or more on any input, is total, and a value "
              "consumes at most ten bytes (vlq_checked_never_overflows, vlq_total, vlq_consumed_bound; the pinned commit's overflow on eleven continuation bytes is the witness vlq_unchecked_overflows, F62). Tie: the real thrift reader "
              "on 3000 (quick) / 200000 byte strings through a cfg hook must return exactly the model's value and consumed length; ~3700 Parquet "
              "mutants (every truncation length, per-byte corruptions {^01,^80,=00,=FF}, byte insert/delete of the small test files; sampled footer / page-header / data positions of larger ones; crafted footer "
              "lengths and magics checked against the footer model) and ~360 malformed CSV inputs (invalid UTF-8, unterminated quotes, ragged rows, NUL bytes, 3 MB fields, 5000 columns, random CSV-ish bytes x "
              "dialect options), each read by SELECT * and count(*) in a child process with a wall clock and a resident-memory watchdog: outcome must be rows or an error."),
        note=TB + "why partial: whether an out-of-bounds read faults depends on the allocator and build mode, decompressors are third-party, and the thrift/page decoders are not modelled beyond the footer - their robustness "
             "is sampled by the fault sweep, not proved; valid starting files are limited to /repo/testdata (no Parquet writer offline); three crash sites are listed as known findings, keyed by panicking file + message.",
        technique="Lean 4 proof (footer bounds, CSV decoder totality and output bound) + fault-space sweep (truncation / byte corruption / metadata lies) with crash, hang and memory oracle in child processes",
        design="5/C19", partial=True),
    "C04": dict(
        text=("Props/C04.lean about Core/Proto.lean (one critical section of the Rust code = one atomic action). Task model of TaskState::schedule / the worker loop / ThreadedQueryHandle::cancel: an invariant proved for every "
              "reachable state, i.e. every interleaving of wakes (incl. spurious and repeated), worker steps and cancellation (task_inv_reachable, induction over the action list) gives task_no_lost_wake (a wake arriving after "
              "the last poll began leaves `pending` set or a run queued), task_never_polled_after_complete, cancel_reports_error (cancel of an uncompleted task reports the error in the same step, whatever the task is doing) "
              "and poll_error_reported. Barrier model of the countdown + flag + PartitionWakers pattern used by every cross-partition phase: barrier_no_lost_wake - for every partition count and every interleaving of arrivals "
              "and polls, once the flag is set no partition stays parked un-woken; the variant without wake_all loses a wake (witness). Execution stack (Core/ExecStack.lean, code-shaped model of ExecutionStack::pop_next with the operators' poll "
              "results as input): stack_finished_all_finalized - for every number of operators and every sequence of poll results, a partition pipeline that reports Finished has finalized every operator or seen it answer Exhausted "
              "(so no join in another partition waits on it forever), and stack_finalizes_once; old_stack_skips_finalize is the pinned commit's stack finishing with the probe side of a join never finalized (F38/F64, repaired). Materialize (Core/Materialize.lean: producers append and finish, consumers scan lock-free then "
              "check under the lock): materialize_done_saw_everything (a consumer that reports Exhausted has seen every row - the purpose of the second scan in poll_pull), materialize_no_lost_wake, and the variant without the "
              "second scan losing a row (witness). Tie: the harness implements PipelineRuntime itself, owns the partition pipelines and "
              "polls them one at a time, wake-only, under random / fifo / lifo / client-starving / client-first schedules with injected spurious wakes: 49 query shapes covering every barrier kind x 5 partition counts x ~46 "
              "schedules must terminate (no runnable task while unfinished = lost wake-up, reported with the schedule) with the result of the ordinary run; ~580 (quick) generated typed queries run under the same scheduler; the real ExecutionStack driven by 4000 (quick) / 150000 scripted poll sequences through a cfg hook must make exactly the calls of ExecStack.step "
              "and satisfy the theorem's statement on its own call log; on the real thread pool QueryHandle::cancel at 0/20/150 ms of long "
              "scans / joins / sorts must end the stream with an error promptly, 450 cancels at 0-30 ms while the client drains a result must all end (the lock-order inversions F58/F59 deadlocked here), a run-time "
              "error in one partition must reach the client for 1-16 partitions, and every ScheduleState transition of every task logged by the cfg hook in glaredb_rt_native must be a run of the Task model (Proto.accept)."),
        note=TB + "the protocol models are abstractions (per-operator instances of the barrier are not modelled one by one; the real operators are tied by the controlled-scheduler runs); interleavings inside one poll_execute and "
             "rayon's fairness are not controlled; nested locking is abstracted by the models (one critical section = one action): the two cancellation deadlocks were found by the runs on the real thread pool, not by a theorem; the wasm runtime is not driven.",
        technique="Lean 4 proof (invariants of the task and barrier protocol models by induction over all schedules) + controlled-scheduler exploration of the real pipelines with a lost-wake-up oracle + cancellation/error runs",
        design="5/C04"),
    "C16": dict(
        text=("Partial. Props/C16.lean about Core/Layout.lean (model of RowLayout::try_new / byte_offset and of AggregateLayout::try_new / align_len): for every column list every field lies inside its row after the validity "
              "bitmap (field_in_row), consecutive fields do not overlap (offsetsFrom_disjoint), every cell lies inside a buffer of `rows` rows (cell_in_buffer), every validity bit fits (validity_bit_fits); for every list of "
              "aggregate state descriptors whose alignments divide the maximum, every state offset is a multiple of the state's own alignment, states do not overlap and the row width is a multiple of the base alignment "
              "(agg_states_aligned, aggOffsets_disjoint - induction over the state list); the phase gate of the hash join (flag implies every partition arrived, from the C04 barrier invariant). Tie: real RowLayout offsets "
              "(cfg hook) vs the model on random column lists; every ordered pair of 28 aggregate calls with differently sized / aligned states, grouped and ungrouped, 1-8 partitions, with the engine's debug assertions "
              "compiled in (an alignment or bounds assertion aborts the child process); strings around the 12-byte inline threshold, very long and multi-byte values through sort / join / GROUP BY / DISTINCT / min with "
              "batch sizes 1-2048 and up to 30000 rows against closed-form results; the hash-join shapes of C04 under the controlled scheduler."),
        note=TB + "why partial: aliasing, lifetimes, initialisation and data races below the phase granularity are properties of Rust/LLVM semantics that no executable Lean model here expresses; the claim is limited to 'the "
             "offsets and alignments the unsafe code computes are in bounds, and the phase protocol that is its stated safety argument holds'; AddressSanitizer / Miri runs of the workloads are not part of the registered checks "
             "(a full sanitizer build of the engine does not fit the quick tier); AggregateLayout itself is not reachable through a hook (its states are function pointers), only its arithmetic is modelled.",
        technique="Lean 4 proof (row / aggregate layout arithmetic in bounds and aligned, by induction over column and state lists) + layout correspondence + debug-assertion oracle on alignment-, string- and phase-sensitive workloads",
        design="5/C16", partial=True),
}

NOT_YET = {
}

ALL = [f"C{i:02d}" for i in range(1, 21)]


def main():
    checks = []
    for pid in ALL:
        if pid not in CLAIMS:
            continue
        c = CLAIMS[pid]
        checks.append({
            "property_id": pid,
            "quick_cmd": f"./check {pid} quick",
            "thorough_cmd": f"./check {pid} thorough",
            "evidence_file": f"/verif/evidence/{pid}.json",
            "replay_cmd_template": "cat {path}",
            "engine": "lean4+gvh",
            "level_claimed": {"category": "proof", "text": c["text"], "design_ref": "DESIGN.md section " + c["design"]},
            "level_note": c["note"],
            "technique": c["technique"],
        })
    na = [{"property_id": pid, "reason": NOT_YET.get(pid, "check not built yet in this session (work in progress; the design in DESIGN.md section 5 claims it)")}
          for pid in ALL if pid not in CLAIMS]
    m = {
        "version": 1,
        "setup_cmd": "./check --setup",
        "hooks": {
            "guard": "--cfg glaredb_verif",
            "enable": "RUSTFLAGS='--cfg glaredb_verif' (set in /verif/harness/.cargo/config.toml; the harness has path dependencies on /repo/crates/*)",
            "baseline_off_cmd": "cd /repo && cargo nextest run --workspace --no-fail-fast --test-threads 8 --offline || cargo test --workspace --no-fail-fast --offline",
            "source_commits": HOOK_COMMITS,
            "add_only": True,
        },
        "engines": [
            {"name": "lean4+gvh", "path": "/verif/lean (model+theorems), /verif/harness (Rust harness), /verif/tools (driver)",
             "serves_properties": [c["property_id"] for c in checks],
             "kind_free_text": "Lean 4 theorems about a hand-written executable model; model tied to the code by differential correspondence run on every check"},
        ],
        "checks": checks,
        "not_applicable": na,
        "notes": "See DESIGN.md. known_findings.txt lists fixed/known defects.",
    }
    with open(os.path.join(ROOT, "MANIFEST.json"), "w") as f:
        json.dump(m, f, indent=1)
    print("claimed:", [c["property_id"] for c in checks])


if __name__ == "__main__":
    main()
