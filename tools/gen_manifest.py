#!/usr/bin/env python3
"""Writes /verif/MANIFEST.json from the table below (single source of truth for the claims)."""
import json
import os
import subprocess

ROOT = os.path.dirname(os.path.dirname(os.path.abspath(__file__)))

HOOK_COMMITS = subprocess.run(
    "git -C /repo log --format=%h --grep='^verif hooks' ", shell=True, capture_output=True, text=True).stdout.split()

TB = ("Trusted base: Lean 4.33.0 kernel (axioms per theorem are printed by #print axioms into the evidence; only propext, "
      "Classical.choice, Quot.sound are accepted); the hand-written model is tied to /repo by the correspondence check "
      "(Rust harness gvh built from /repo's working tree with --cfg glaredb_verif, Lean driver gmodel, Python driver); ")

CLAIMS = {
    "C08": dict(
        text=("Lean theorems (Props/C08.lean): byte comparison of the normalised sort key equals the declared order for every fixed-width "
              "type/width, every ASC/DESC x NULLS FIRST/LAST combination and any number of key columns (key_row_embedding, key_col_embedding, "
              "key_col_injective), and the 12-byte string prefix never contradicts the full byte order (string_prefix_sound) - all values, by "
              "induction, no bound. Tie to the code: the real SortLayout::write_key_arrays is run on exhaustive 8/16-bit domains, boundary-biased "
              "wide values, strings and multi-column rows and must equal Core/SortKey.lean byte for byte; an independent order oracle checks the "
              "implementation's own key bytes and SQL-level ORDER BY/LIMIT/OFFSET scripts (sorted, permutation, exact slice)."),
        note=TB + "sort/merge/limit operators are covered by the SQL-level oracle only (Lean model of sort_from_blocks/merge pending); Python comparator of tools/sqlutil.py is the SQL oracle.",
        technique="Lean 4 proof (order embedding by induction) + differential correspondence with the real key encoder + SQL sort oracle",
        design="5/C08"),
    "C12": dict(
        text=("Lean theorems (Props/C12.lean) about the code-shaped arithmetic model Core/Arith.lean: every native integer operator is exact whenever it yields a value "
              "and traps exactly when the mathematical result is not representable (all widths, both signednesses); SUM is a homomorphism over any split of the input and a "
              "finalized SUM is the exact total (induction over lists); decimal +/- result-type bounds; up-scaling is exact. The statement 'overflow is an error' is proved false of "
              "the model with the witness 127+1 (the code panics/wraps; listed known findings). Tie: exhaustive 8-bit pairs x 5 ops x 2 signednesses over columns, boundary-biased "
              "16/32/64-bit pairs folded and over columns, decimal (p,s) configurations incl. mixed int/decimal and the 64/128 boundary, round(), SUM over partitions; engine vs model vs exact arithmetic."),
        note=TB + "Python big-integer arithmetic is the exact-value oracle; float-typed results are outside the modelled fragment; 128-bit integer types have no SQL name and are covered by the theorems only.",
        technique="Lean 4 proof (exact-or-trap, SUM homomorphism by induction) + differential correspondence engine/model/exact arithmetic",
        design="5/C12"),
    "C13": dict(
        text=("Lean theorems (Props/C13.lean): integer casts are identity-or-none; a decimal rescale never exceeds the target precision; the down-scaling computation is "
              "round-half-away-from-zero for every value and every power of ten (roundAdj_half_away: nearest multiple, ties away from zero - unbounded, by arithmetic on quotient/remainder); "
              "boolean text round trip; documented parser facts. Tie: the real Parser/Formatter implementations (dates over 0001..9999 incl. whole years, year boundaries, leap days; integer and "
              "decimal texts incl. malformed) and SQL casts (int->int exhaustive for 8/16-bit sources, decimal rescales with ties of both signs, int->decimal, f64->int, text round trips) "
              "against Core/Cast.lean and against exact oracles."),
        note=TB + "Python datetime/big integers are the oracle for civil dates and exact rounding; chrono's lenient date parsing (whitespace, digit counts) and float<->text are third-party/out of the model.",
        technique="Lean 4 proof (rounding law, precision bound) + differential correspondence of real parsers/formatters/casts with the model",
        design="5/C13"),
}

NOT_YET = {
}

ALL = [f"C{i:02d}" for i in range(1, 21)]


def main():
    checks = []
    for pid in ALL:
        if pid not in CLAIMS:
            continue
        c = CLAIMS[pid]
        checks.append({
            "property_id": pid,
            "quick_cmd": f"./check {pid} quick",
            "thorough_cmd": f"./check {pid} thorough",
            "evidence_file": f"/verif/evidence/{pid}.json",
            "replay_cmd_template": "cat {path}",
            "engine": "lean4+gvh",
            "level_claimed": {"category": c.get("category", "proof"), "text": c["text"], "design_ref": "DESIGN.md section " + c["design"]},
            "level_note": c["note"],
            "technique": c["technique"],
        })
    na = [{"property_id": pid, "reason": NOT_YET.get(pid, "check not built yet in this session (work in progress; the design in DESIGN.md section 5 claims it)")}
          for pid in ALL if pid not in CLAIMS]
    m = {
        "version": 1,
        "setup_cmd": "./check --setup",
        "hooks": {
            "guard": "--cfg glaredb_verif",
            "enable": "RUSTFLAGS='--cfg glaredb_verif' (set in /verif/harness/.cargo/config.toml; the harness has path dependencies on /repo/crates/*)",
            "baseline_off_cmd": "cd /repo && cargo nextest run --workspace --no-fail-fast --test-threads 8 --offline || cargo test --workspace --no-fail-fast --offline",
            "source_commits": HOOK_COMMITS,
            "add_only": True,
        },
        "engines": [
            {"name": "lean4+gvh", "path": "/verif/lean (model+theorems), /verif/harness (Rust harness), /verif/tools (driver)",
             "serves_properties": [c["property_id"] for c in checks],
             "kind_free_text": "Lean 4 theorems about a hand-written executable model; model tied to the code by differential correspondence run on every check"},
        ],
        "checks": checks,
        "not_applicable": na,
        "notes": "See DESIGN.md. known_findings.txt lists fixed/known defects.",
    }
    with open(os.path.join(ROOT, "MANIFEST.json"), "w") as f:
        json.dump(m, f, indent=1)
    print("claimed:", [c["property_id"] for c in checks])


if __name__ == "__main__":
    main()
