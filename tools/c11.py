#!/usr/bin/env python3
"""C11 — Scan pushdown and multi-file scans only skip work, never change rows.

Components
  pushdown    for every Parquet file under /repo/testdata, every scalar column and a set of constants (values present in the
              file, below the minimum, above the maximum, NULL): SELECT <projection> FROM file WHERE col = K [AND ...] must equal
              the same projection over (SELECT * FROM file) filtered by a predicate the optimizer cannot push (col + 0 = K /
              col || '' = K) - projections: single column, non-prefix subsets, reorderings, repetitions, metadata columns;
              optimizer on and off; partitions 1..8; CSV and in-memory tables likewise
  multi_file  read_parquet / read_csv / read_text over file lists and globs vs UNION ALL of the single-file reads, for
              1..16 partitions and more files than partitions / fewer files than partitions, files of different sizes
  assignment  Core/Scan.lean `queue` vs the observed per-partition file assignment is not observable from SQL; the theorem
              queues_partition covers every P, the multi_file runs validate the model's reading of skip/step_by
"""
import glob as pyglob
import os
import sys

import vlib
from sqlutil import Rng, bag

SCRATCH = os.path.join(vlib.ROOT, "scratch", "c11")
INT_TYPES = {"Int8", "Int16", "Int32", "Int64", "UInt8", "UInt16", "UInt32", "UInt64"}


def q1(runner, sql, timeout=60):
    res = runner.run([sql], timeout=timeout)
    if isinstance(res, dict):
        return ("crash", res)
    r = res[0]
    if "rows" in r:
        return ("rows", r["rows"], r["cols"])
    return ("err", r.get("err", r.get("panic", "")))


def same(a, b):
    return a[0] == "rows" and b[0] == "rows" and bag(a[1]) == bag(b[1])


def lit_of(cell, ty):
    if cell is None:
        return "NULL"
    if ty in INT_TYPES:
        return f"CAST({cell} AS BIGINT)" if not cell.startswith("-") else f"CAST('{cell}' AS BIGINT)"
    if ty == "Utf8":
        return "'" + cell[2:].replace("'", "''") + "'"
    if ty == "Boolean":
        return cell
    if ty.startswith("Decimal"):
        p, s, v = cell.split(":")[1:]
        v = int(v)
        s = int(s)
        txt = str(abs(v)).rjust(s + 1, "0")
        return ("-" if v < 0 else "") + (txt[:-s] + "." + txt[-s:] if s > 0 else txt)
    return None


def pushdown_component(ck, runner, rng, tier):
    comp = "pushdown"
    files = sorted(pyglob.glob("/repo/testdata/**/*.parquet", recursive=True))
    stats = {"files": 0, "files_unreadable": 0, "agree": 0, "both_err": 0, "pushed_err_only": 0, "columns": 0}
    seen_shapes = set()
    for f in files:
        d = q1(runner, f"DESCRIBE '{f}'")
        if d[0] != "rows":
            stats["files_unreadable"] += 1
            continue
        cols = [(r[0][2:], r[1][2:]) for r in d[1]]
        shape = (tuple(cols), os.path.getsize(f))
        if shape in seen_shapes and tier == "quick":
            continue                      # identical copies (glob_numbers/*/100.parquet ...)
        seen_shapes.add(shape)
        base = q1(runner, f"SELECT * FROM '{f}' LIMIT 400")
        if base[0] != "rows":
            stats["files_unreadable"] += 1
            continue
        stats["files"] += 1
        names = [c[0] for c in cols]
        quoted = ['"' + n.replace('"', '""') + '"' for n in names]
        pending = []
        usable = [i for i, (n, t) in enumerate(cols) if t in INT_TYPES or t == "Utf8" or t == "Boolean" or t.startswith("Decimal")]
        if tier == "quick" and len(usable) > 6:
            usable = [usable[i] for i in sorted({rng.below(len(usable)) for _ in range(6)})]
        for ci in usable:
            stats["columns"] += 1
            n, t = cols[ci]
            vals = [r[ci] for r in base[1]]
            nn = [v for v in vals if v is not None]
            consts = []
            for v in (nn[:1] + nn[len(nn) // 2:len(nn) // 2 + 1] + nn[-1:]):
                consts.append(lit_of(v, t))
            if t in INT_TYPES and nn:
                ints = [int(v) for v in nn]
                consts += [lit_of(str(min(ints) - 1), t), lit_of(str(max(ints) + 1), t), lit_of(str((min(ints) + max(ints)) // 2), t)]
            if t == "Utf8":
                consts += ["''", "'zzzzzzzz'", "'\x01'"]
            consts.append("NULL")
            consts = [c for c in dict.fromkeys(consts) if c is not None]
            for k in consts:
                others = [i for i in range(len(cols)) if i != ci]
                projs = [quoted[ci], "*"]
                if others:
                    o = rng.pick(others)
                    projs += [f"{quoted[o]}, {quoted[ci]}", f"{quoted[ci]}, {quoted[o]}, {quoted[ci]}", quoted[o]]
                    if len(others) > 1:
                        o2 = rng.pick([x for x in others if x != o])
                        projs.append(f"{quoted[o2]}, {quoted[o]}")
                projs.append(f"_filename, {quoted[ci]}")
                projs.append("count(*)")
                if tier == "quick":
                    projs = [projs[0]] + [rng.pick(projs[1:]) for _ in range(2)]
                unpushed = f"{quoted[ci]} + 0 = {k}" if t in INT_TYPES else (f"{quoted[ci]} || '' = {k}" if t == "Utf8" else f"({quoted[ci]} = {k}) IS TRUE")
                extra = ""
                if others and rng.chance(1, 3):
                    o = rng.pick(others)
                    if cols[o][1] in INT_TYPES:
                        extra = f" AND {quoted[o]} IS NOT NULL"
                cases = []
                for proj in projs:
                    for setting in ([[]] if tier == "quick" else [[], ["SET enable_optimizer TO false"], ["SET partitions TO 1"], ["SET partitions TO 8"]]):
                        pushed_sql = f"SELECT {proj} FROM '{f}' WHERE {quoted[ci]} = {k}{extra}"
                        ref_sql = f"SELECT {proj} FROM (SELECT *{', _filename' if '_filename' in proj else ''} FROM '{f}') zz WHERE {unpushed}{extra}"
                        cases.append((setting, pushed_sql, ref_sql))
                pending.extend(cases)
        # one request per file: [settings, pushed, optimizer off, reference, reset] per case
        for i in range(0, len(pending), 12):
            chunk = pending[i:i + 12]
            flat = []
            for setting, pushed_sql, ref_sql in chunk:
                flat += ["RESET enable_optimizer", "RESET partitions"] + setting + [pushed_sql, "SET enable_optimizer TO false", ref_sql]
            res = runner.run(flat, timeout=120)
            if isinstance(res, dict):
                # isolate
                for setting, pushed_sql, ref_sql in chunk:
                    r1 = runner.run(setting + [pushed_sql], timeout=60)
                    ck.count(comp, 1)
                    if isinstance(r1, dict):
                        ck.violation("pushdown/crash", f"scan with pushed filter crashes: {pushed_sql[:200]}", {"kind": "crash", "stmts": setting + [pushed_sql], "result": r1})
                continue
            pos = 0
            for setting, pushed_sql, ref_sql in chunk:
                a, b = res[pos + 2 + len(setting)], res[pos + 4 + len(setting)]
                pos += 5 + len(setting)
                ck.count(comp, 1)
                ck.nontrivial(pushed_sql)
                if "rows" in a and "rows" in b:
                    if bag(a["rows"]) != bag(b["rows"]):
                        ck.violation("pushdown/rows-differ", f"pushed-down scan returns {len(a['rows'])} rows, reading everything and filtering afterwards {len(b['rows'])}: {pushed_sql[:220]}",
                                     {"kind": "impl-vs-oracle", "settings": setting, "pushed": pushed_sql, "reference": ref_sql, "pushed_rows": a["rows"][:10], "reference_rows": b["rows"][:10]})
                    else:
                        stats["agree"] += 1
                elif "rows" in b and "rows" not in a:
                    stats["pushed_err_only"] += 1
                    ck.violation("pushdown/error-only-when-pushed", f"the pushed-down form fails ({str(a)[:100]}) while filtering afterwards works: {pushed_sql[:200]}",
                                 {"kind": "impl-vs-oracle", "settings": setting, "pushed": pushed_sql, "reference": ref_sql, "pushed_result": a})
                else:
                    stats["both_err"] += 1
    for k, v in stats.items():
        ck.note(comp, k, v)


def pruning_component(ck, runner, rng, tier):
    """Multi-row-group Parquet files written by tools/pqwrite.py with controlled statistics: exact, loose (valid but wider),
    absent, deprecated min/max fields, flagged inexact, NULL-only chunks, single-value chunks; predicates whose constant is
    inside one row group's range, between ranges, outside all ranges, NULL. Pushed scan vs unpushable filter."""
    import pqwrite
    comp = "pruning"
    d = os.path.join(vlib.ROOT, "scratch", "c11pq")
    os.makedirs(d, exist_ok=True)
    nfiles = 12 if tier == "quick" else 200
    for fi in range(nfiles):
        ty = rng.pick(["int32", "int64", "int64"])
        cols = [("k", ty, rng.chance(1, 2)), ("v", "int64", True), ("s", "utf8", True)]
        nrg = rng.pick([2, 3, 5])
        rgs, allk = [], []
        base = rng.pick([-1000, 0, 10, 2 ** 31 - 5000 if ty == "int64" else 1000])
        for g in range(nrg):
            lo = base + g * rng.pick([10, 100, 100, 7])          # ranges may overlap or leave gaps
            n = rng.pick([1, 3, 50, 300])
            ks = [lo + rng.below(rng.pick([1, 5, 60])) for _ in range(n)]
            if cols[0][2]:
                mode = rng.pick(["some", "none", "all"])
                ks = [None if (mode == "all" or (mode == "some" and rng.chance(1, 4))) else k for k in ks]
            rows = [[k, rng.below(100), rng.pick(["a", "b", None])] for k in ks]
            nn = [k for k in ks if k is not None]
            allk += nn
            kind = rng.pick(["auto", "auto", "loose", "absent", "deprecated", "inexact", "no_flags"])
            if kind == "auto" or not nn:
                st = "auto"
            elif kind == "loose":
                st = {"min": min(nn) - rng.below(50), "max": max(nn) + rng.below(50), "exact": rng.pick([True, False])}
            elif kind == "absent":
                st = None
            elif kind == "deprecated":
                st = {"deprecated": True}
            elif kind == "inexact":
                st = {"exact": False}
            else:
                st = {"exact": None}
            rgs.append({"rows": rows, "page_rows": rng.pick([None, 7, 100]), "stats": {0: st}})
        path = os.path.join(d, f"p{fi % 6}.parquet")
        pqwrite.write_file(path, cols, rgs)
        consts = []
        if allk:
            consts += [rng.pick(allk), min(allk), max(allk), min(allk) - 1, max(allk) + 1, (min(allk) + max(allk)) // 2]
            gaps = [k + 1 for k in sorted(set(allk)) if k + 1 not in set(allk)]
            consts += gaps[:2]
        consts = list(dict.fromkeys(consts)) + [None]
        cases = []
        for c in consts:
            lit = "NULL" if c is None else (f"CAST({c} AS BIGINT)" if c >= 0 else f"CAST('{c}' AS BIGINT)")
            for proj in ["k, v", "s", "count(*)", "v, k, v"]:
                for extra in ["", " AND v >= 0", f" AND k = {lit}"]:
                    cases.append((f"SELECT {proj} FROM '{path}' WHERE k = {lit}{extra}", f"SELECT {proj} FROM (SELECT * FROM '{path}') zz WHERE k + 0 = {lit}{extra.replace('k =', 'k + 0 =')}"))
        if tier == "quick":
            cases = [cs for cs in cases if rng.chance(1, 2)]
        flat = []
        for a, b in cases:
            flat += ["RESET enable_optimizer", f"SET partitions TO {rng.pick([1, 2, 8])}", a, "SET enable_optimizer TO false", b]
        res = runner.run(flat, timeout=180)
        if isinstance(res, dict):
            ck.violation("pruning/crash", "pushed-down scans over a generated multi-row-group file crash", {"kind": "crash", "columns": cols, "row_groups": [len(r['rows']) for r in rgs], "stmts": flat[:10], "result": res})
            continue
        for i, (a, b) in enumerate(cases):
            ra, rb = res[5 * i + 2], res[5 * i + 4]
            ck.count(comp, 1)
            ck.nontrivial(a)
            if "rows" in ra and "rows" in rb:
                if bag(ra["rows"]) != bag(rb["rows"]):
                    import shutil
                    keep = os.path.join(vlib.ROOT, "replays", "C11", f"pruning_{fi}.parquet")
                    os.makedirs(os.path.dirname(keep), exist_ok=True)
                    shutil.copy(path, keep)
                    ck.violation("pruning/rows-differ", f"row-group pruning changes the result: pushed scan {len(ra['rows'])} rows, unpushed {len(rb['rows'])}: {a.replace(path, keep)[:200]}",
                                 {"kind": "impl-vs-oracle", "file": keep, "pushed": a.replace(path, keep), "reference": b.replace(path, keep), "row_group_stats": [str(r['stats']) for r in rgs],
                                  "pushed_rows": ra["rows"][:8], "reference_rows": rb["rows"][:8]})
            elif "rows" in rb:
                ck.violation("pruning/error-only-when-pushed", f"the pushed-down form fails ({str(ra)[:100]}): {a[:160]}", {"kind": "impl-vs-oracle", "pushed": a, "result": ra, "row_group_stats": [str(r['stats']) for r in rgs]})


def write_files(rng):
    os.makedirs(SCRATCH, exist_ok=True)
    for old in pyglob.glob(os.path.join(SCRATCH, "*")):
        if os.path.isfile(old):
            os.remove(old)
    csvs, txts = [], []
    sizes = [0, 1, 3, 10, 50, 400, 3000]
    for i, n in enumerate(sizes):
        p = os.path.join(SCRATCH, f"c{i}.csv")
        with open(p, "w") as f:
            f.write("id,name,v\n")
            for r in range(n):
                f.write(f"{i * 100000 + r},n{rng.below(50)},{rng.below(1000) / 10}\n")
        csvs.append(p)
        t = os.path.join(SCRATCH, f"t{i}.txt")
        with open(t, "w") as f:
            f.write(("line %d of file %d\n" % (rng.below(99), i)) * (len(sizes) - i) * (i % 3 + 1) if i else "")
        txts.append(t)
    return csvs, txts


def multi_file_component(ck, runner, rng, tier):
    comp = "multi_file"
    csvs, txts = write_files(rng)
    pq = sorted(pyglob.glob("/repo/testdata/parquet/glob_numbers/*.parquet"))
    pq_all = sorted(pyglob.glob("/repo/testdata/parquet/glob_numbers/**/*.parquet", recursive=True))
    families = [("read_csv", csvs, "SELECT {p} FROM read_csv({src})", ["*", "id, v", "count(*), sum(id)", "_filename, count(*)"]),
                ("read_text", txts, "SELECT {p} FROM read_text({src})", ["*", "length(content)", "_filename, content"]),
                ("read_parquet", pq, "SELECT {p} FROM read_parquet({src})", ["*", "count(*)", "_filename, count(*)"]),
                ("read_parquet", pq_all, "SELECT {p} FROM read_parquet({src})", ["*", "count(*)"])]
    parts = [1, 2, 3, 8, 16] if tier != "quick" else [1, 3, 16]
    for fn, files, tmpl, projs in families:
        if not files:
            continue
        subsets = [files, files[::-1], files[:1], files[:2], files[1:], [files[0], files[0]], files + files[:1]]
        if tier != "quick":
            subsets += [rng.shuffle(files)[:k] for k in (3, 4, 5)]
        for sub in subsets:
            src = "[" + ", ".join(f"'{f}'" for f in sub) + "]"
            for proj in projs:
                group = " GROUP BY _filename" if proj.startswith("_filename, count") else ""
                inner = "*, _filename" if "_filename" in proj else "*"
                union = " UNION ALL ".join("(" + tmpl.format(p=inner, src=f"'{f}'") + ")" for f in sub)
                ref = q1(runner, f"SELECT {proj} FROM ({union}) u{group}")
                for P in parts:
                    sql = tmpl.format(p=proj, src=src) + group
                    res = runner.run([f"SET partitions TO {P}", sql], timeout=90)
                    ck.count(comp, 1)
                    ck.nontrivial((sql, P))
                    if isinstance(res, dict):
                        ck.violation(f"multi_file/{fn}/crash", f"multi-file scan crashes under partitions={P}: {sql[:200]}", {"kind": "crash", "stmts": [f"SET partitions TO {P}", sql], "result": res})
                        continue
                    got = res[1]
                    if ref[0] != "rows" or "rows" not in got:
                        if ref[0] == "rows" and "rows" not in got:
                            ck.violation(f"multi_file/{fn}/error-only-for-list", f"scan of a file list fails ({str(got)[:100]}) while the single-file scans work: {sql[:200]}",
                                         {"kind": "impl-vs-oracle", "partitions": P, "sql": sql, "result": got})
                        continue
                    if bag(got["rows"]) != bag(ref[1]):
                        ck.violation(f"multi_file/{fn}/not-the-union", f"{fn} over {len(sub)} files under partitions={P} returns {len(got['rows'])} rows, the union of the single-file scans has {len(ref[1])}: {sql[:160]}",
                                     {"kind": "impl-vs-oracle", "partitions": P, "sql": sql, "files": sub, "got_head": got["rows"][:8], "union_head": ref[1][:8]})
    # globs (relative patterns: absolute-path globs are rejected at this commit, DESIGN finding F17)
    rel = os.path.relpath(SCRATCH, os.getcwd())
    for pat, fn, files in [(f"{rel}/c*.csv", "read_csv", csvs), (f"{rel}/t*.txt", "read_text", txts), (f"{rel}/c[0-3].csv", "read_csv", csvs[:4]), (f"{rel}/c?.csv", "read_csv", csvs)]:
        proj = "count(*)" if fn == "read_csv" else "sum(length(content))"
        ref = q1(runner, "SELECT " + ("sum(c)" if fn == "read_csv" else "sum(c)") + " FROM (" + " UNION ALL ".join(f"(SELECT {proj} AS c FROM {fn}('{f}'))" for f in files) + ") u")
        for P in parts:
            res = runner.run([f"SET partitions TO {P}", f"SELECT {proj} FROM {fn}('{pat}')"], timeout=90)
            ck.count(comp, 1)
            ck.nontrivial((pat, P))
            if isinstance(res, dict) or "rows" not in res[1] or ref[0] != "rows":
                ck.note(comp, "glob_unsupported_or_error", str(res)[:200])
                continue
            a = res[1]["rows"][0][0]
            b = ref[1][0][0]
            if (a or "0") != (b or "0"):
                ck.violation(f"multi_file/{fn}/glob-not-the-union", f"{fn}('{pat}') under partitions={P} gives {a}, the union of the matching files {b}",
                             {"kind": "impl-vs-oracle", "partitions": P, "pattern": pat, "files": files, "got": a, "want": b})


def main():
    tier = sys.argv[1] if len(sys.argv) > 1 else "quick"
    ck = vlib.Check("C11", tier)
    ck.coverage["rule"] = ("pushed-down `col = K` scans of every distinct Parquet file of /repo/testdata (per scalar column: constants present / below min / above max / NULL; projections: the column, *, non-prefix pairs, "
                           "repeated and reordered columns, metadata column, count(*)) vs reading everything and filtering with an unpushable predicate; file lists, repeated files and globs of CSV/text/Parquet files of "
                           "different sizes under 1-16 partitions vs UNION ALL of single-file scans; distinct = distinct statement")
    ck.assumptions = ["no Parquet writer exists offline: statistics configurations are those of the testdata files (all single-row-group; exact min/max present) - inexact / absent / unsigned statistics are covered by the theorems only",
                      "the reference form wraps the scan in a subquery and uses `col + 0 = K` / `col || '' = K` with the optimizer off, so that nothing is pushed into the scan"]
    proof_ok = ck.proof_step()
    ok, blog, secs = vlib.build_harness()
    ck.coverage["harness_build_s"] = round(secs, 1)
    if not ok:
        ck.violation("harness/build", "harness does not build against /repo", {"correspondence": "harness build", "log": blog[-1500:]}, found_input=False)
        sys.exit(ck.finish())
    runner = vlib.SqlRunner(mem_gb=8)
    rng = Rng(ck.seed * 3571 + 11)
    os.chdir(vlib.ROOT)
    try:
        pruning_component(ck, runner, rng, tier)
        multi_file_component(ck, runner, rng, tier)
        pushdown_component(ck, runner, rng, tier)
    finally:
        runner.close()
    if not proof_ok:
        ck.violation("proof/C11", "proof obligation of Props/C11.lean no longer checks", {"theorem": "GlareModel.Props.C11.*", "log": ck.broken_proof}, found_input=bool(ck.violations))
    sys.exit(ck.finish())


if __name__ == "__main__":
    main()
