"""Typed random query generator shared by the SQL-level checks.

A query is a term of the relational algebra of lean/GlareModel/Core/Sem.lean (nested tuples);
`sexp(q)` prints it for gmodel, `Renderer().query(q)` prints it as SQL (every node becomes a derived
table with columns c0..ck, so operators compose arbitrarily and exercise binder/planner/optimizer).
"""
from sqlutil import sql_str

INT, STR, BOOL = "int", "str", "bool"
SQLTY = {INT: "BIGINT", STR: "TEXT", BOOL: "BOOLEAN"}


# ----------------------------------------------------------------------------- s-expressions

def sexp_val(v):
    if v is None:
        return "null"
    if v is True:
        return "true"
    if v is False:
        return "false"
    if isinstance(v, int):
        return str(v)
    return '"' + v.replace("\\", "\\\\").replace('"', '\\"') + '"'


def sexp(n):
    """Expression / query term -> s-expression text."""
    if isinstance(n, tuple):
        tag = n[0]
        if tag == "lit":
            v = n[1]
            if v is None:
                return "null"
            if v is True:
                return "true"
            if v is False:
                return "false"
            if isinstance(v, int):
                return f"(int {v})"
            return f"(str {sexp_val(v)})"
        if tag == "case":
            return "(case (" + " ".join(f"({sexp(w)} {sexp(t)})" for w, t in n[1]) + ") " + sexp(n[2]) + ")"
        if tag == "coalesce":
            return "(coalesce " + " ".join(sexp(x) for x in n[1]) + ")"
        if tag == "in":
            return f"(in {sexp(n[1])} (" + " ".join(sexp(x) for x in n[2]) + "))"
        if tag == "values":
            return "(values (" + " ".join("(" + " ".join(sexp(e) for e in r) + ")" for r in n[1]) + "))"
        if tag == "project":
            return "(project (" + " ".join(sexp(e) for e in n[1]) + ") " + sexp(n[2]) + ")"
        if tag == "agg":
            aggs = " ".join(f"({fn} {'distinct' if d else 'all'} {sexp(arg)} {sexp(f) if f is not None else 'none'})" for fn, d, arg, f in n[2])
            return "(agg (" + " ".join(sexp(e) for e in n[1]) + ") (" + aggs + ") " + sexp(n[3]) + ")"
        if tag == "aggsets":
            aggs = " ".join(f"({fn} {'distinct' if d else 'all'} {sexp(arg)} {sexp(f) if f is not None else 'none'})" for fn, d, arg, f in n[3])
            sets = " ".join("(" + " ".join(str(i) for i in st) + ")" for st in n[2])
            return "(aggsets (" + " ".join(sexp(e) for e in n[1]) + ") (" + sets + ") (" + aggs + ") " + sexp(n[4]) + ")"
        if tag == "sort":
            ks = " ".join(f"({sexp(e)} {'desc' if d else 'asc'} {'first' if nf else 'last'})" for e, d, nf in n[1])
            return f"(sort ({ks}) {sexp(n[2])})"
        if tag == "union":
            return f"(union {'all' if n[1] else 'distinct'} {sexp(n[2])} {sexp(n[3])})"
        return "(" + " ".join(sexp(x) for x in n) + ")"
    if isinstance(n, bool):
        return "true" if n else "false"
    return str(n)


def db_sexp(db):
    """db: dict name -> (types, rows)."""
    parts = []
    for name, (types, rows) in db.items():
        parts.append(f"({name} {len(types)} (" + " ".join("(" + " ".join(sexp_val(v) for v in r) + ")" for r in rows) + "))")
    return "(" + " ".join(parts) + ")"


# ----------------------------------------------------------------------------- SQL rendering

class Renderer:
    def __init__(self, db_schema):
        self.schema = db_schema          # name -> list of types
        self.n = 0

    def alias(self):
        self.n += 1
        return f"q{self.n}"

    def lit(self, v, ty=None):
        if v is None:
            return f"CAST(NULL AS {SQLTY[ty]})" if ty else "NULL"
        if v is True:
            return "true"
        if v is False:
            return "false"
        if isinstance(v, int):
            return f"CAST({v} AS BIGINT)" if v >= 0 else f"CAST('{v}' AS BIGINT)"
        return sql_str(v)

    def expr(self, e, cols, outer):
        """cols: list of SQL column references for (col i); outer: list of such lists for (ocol d i)."""
        t = e[0]
        if t == "col":
            return cols[e[1]]
        if t == "ocol":
            return outer[e[1]][e[2]]
        if t == "lit":
            return self.lit(e[1], e[2] if len(e) > 2 else None)
        if t in ("+", "-", "*", "=", "<>", "<", "<=", ">", ">="):
            return f"({self.expr(e[1], cols, outer)} {t} {self.expr(e[2], cols, outer)})"
        if t in ("and", "or"):
            return f"({self.expr(e[1], cols, outer)} {t.upper()} {self.expr(e[2], cols, outer)})"
        if t in ("isdistinct", "isnotdistinct"):
            return f"({self.expr(e[1], cols, outer)} IS {'NOT ' if t == 'isnotdistinct' else ''}DISTINCT FROM {self.expr(e[2], cols, outer)})"
        if t == "not":
            return f"(NOT {self.expr(e[1], cols, outer)})"
        if t == "neg":
            return f"(-{self.expr(e[1], cols, outer)})"
        if t == "isnull":
            return f"({self.expr(e[1], cols, outer)} IS NULL)"
        if t == "isnotnull":
            return f"({self.expr(e[1], cols, outer)} IS NOT NULL)"
        if t == "case":
            return "(CASE " + " ".join(f"WHEN {self.expr(w, cols, outer)} THEN {self.expr(th, cols, outer)}" for w, th in e[1]) + f" ELSE {self.expr(e[2], cols, outer)} END)"
        if t == "coalesce":
            return "coalesce(" + ", ".join(self.expr(x, cols, outer) for x in e[1]) + ")"
        if t == "in":
            return f"({self.expr(e[1], cols, outer)} IN (" + ", ".join(self.expr(x, cols, outer) for x in e[2]) + "))"
        if t == "between":
            return f"({self.expr(e[1], cols, outer)} BETWEEN {self.expr(e[2], cols, outer)} AND {self.expr(e[3], cols, outer)})"
        if t == "exists":
            return f"EXISTS ({self.query(e[1], [cols] + outer)})"
        if t == "scalar":
            a = self.alias()
            return f"(SELECT {a}.c0 FROM ({self.query(e[1], [cols] + outer)}) AS {a})"
        if t == "insub":
            a = self.alias()
            return f"({self.expr(e[1], cols, outer)} IN (SELECT {a}.c0 FROM ({self.query(e[2], [cols] + outer)}) AS {a}))"
        if t == "notinsub":
            a = self.alias()
            return f"({self.expr(e[1], cols, outer)} NOT IN (SELECT {a}.c0 FROM ({self.query(e[2], [cols] + outer)}) AS {a}))"
        raise ValueError(t)

    def width(self, q):
        t = q[0]
        if t == "scan":
            return len(self.schema[q[1]])
        if t == "values":
            return len(q[1][0]) if q[1] else q[2]
        if t in ("filter", "distinct"):
            return self.width(q[-1])
        if t == "project":
            return len(q[1])
        if t == "join":
            return self.width(q[3]) if q[1] in ("semi", "anti") else self.width(q[3]) + self.width(q[4])
        if t == "agg":
            return len(q[1]) + len(q[2])
        if t == "aggsets":
            return len(q[1]) + len(q[3])
        if t == "union":
            return self.width(q[2])
        if t in ("sort", "limit"):
            return self.width(q[-1])
        raise ValueError(t)

    def sel_all(self, a, w):
        return ", ".join(f"{a}.c{i} AS c{i}" for i in range(w))

    def order_by(self, keys, cols, outer):
        return ", ".join(self.expr(e, cols, outer) + (" DESC" if d else " ASC") + (" NULLS FIRST" if nf else " NULLS LAST") for e, d, nf in keys)

    def query(self, q, outer=None):
        outer = outer or []
        t = q[0]
        if t == "scan":
            return "SELECT " + ", ".join(f"{q[1]}.k{i} AS c{i}" for i in range(len(self.schema[q[1]]))) + f" FROM {q[1]}"
        if t == "values":
            a = self.alias()
            rows = ", ".join("(" + ", ".join(self.expr(e, [], outer) for e in r) + ")" for r in q[1])
            w = len(q[1][0])
            return f"SELECT {self.sel_all(a, w)} FROM (VALUES {rows}) AS {a}(" + ", ".join(f"c{i}" for i in range(w)) + ")"
        if t == "filter":
            a = self.alias()
            w = self.width(q[2])
            cols = [f"{a}.c{i}" for i in range(w)]
            return f"SELECT {self.sel_all(a, w)} FROM ({self.query(q[2], outer)}) AS {a} WHERE {self.expr(q[1], cols, outer)}"
        if t == "project":
            a = self.alias()
            w = self.width(q[2])
            cols = [f"{a}.c{i}" for i in range(w)]
            return "SELECT " + ", ".join(f"{self.expr(e, cols, outer)} AS c{i}" for i, e in enumerate(q[1])) + f" FROM ({self.query(q[2], outer)}) AS {a}"
        if t == "join":
            k, on, l, r = q[1], q[2], q[3], q[4]
            a, b = self.alias(), self.alias()
            wl, wr = self.width(l), self.width(r)
            cols = [f"{a}.c{i}" for i in range(wl)] + [f"{b}.c{i}" for i in range(wr)]
            if k in ("semi", "anti"):
                return (f"SELECT {self.sel_all(a, wl)} FROM ({self.query(l, outer)}) AS {a} WHERE {'NOT ' if k == 'anti' else ''}EXISTS "
                        f"(SELECT 1 FROM ({self.query(r, outer)}) AS {b} WHERE {self.expr(on, cols, outer)})")
            sel = ", ".join([f"{a}.c{i} AS c{i}" for i in range(wl)] + [f"{b}.c{i} AS c{wl + i}" for i in range(wr)])
            if k == "cross":
                return f"SELECT {sel} FROM ({self.query(l, outer)}) AS {a} CROSS JOIN ({self.query(r, outer)}) AS {b}"
            kw = {"inner": "INNER JOIN", "left": "LEFT JOIN", "right": "RIGHT JOIN"}[k]
            return f"SELECT {sel} FROM ({self.query(l, outer)}) AS {a} {kw} ({self.query(r, outer)}) AS {b} ON {self.expr(on, cols, outer)}"
        if t == "agg":
            a = self.alias()
            w = self.width(q[3])
            cols = [f"{a}.c{i}" for i in range(w)]
            gs = [self.expr(e, cols, outer) for e in q[1]]
            items = [f"{g} AS c{i}" for i, g in enumerate(gs)]
            for j, (fn, dist, arg, filt) in enumerate(q[2]):
                if fn == "count_star":
                    call = "count(*)"
                else:
                    call = f"{fn}({'DISTINCT ' if dist else ''}{self.expr(arg, cols, outer)})"
                if filt is not None:
                    call += f" FILTER (WHERE {self.expr(filt, cols, outer)})"
                items.append(f"{call} AS c{len(gs) + j}")
            s = "SELECT " + ", ".join(items) + f" FROM ({self.query(q[3], outer)}) AS {a}"
            if gs:
                s += " GROUP BY " + ", ".join(gs)
            return s
        if t == "aggsets":
            a = self.alias()
            w = self.width(q[4])
            cols = [f"{a}.c{i}" for i in range(w)]
            gs = [self.expr(e, cols, outer) for e in q[1]]
            items = [f"{g} AS c{i}" for i, g in enumerate(gs)]
            for j, (fn, dist, arg, filt) in enumerate(q[3]):
                call = "count(*)" if fn == "count_star" else f"{fn}({'DISTINCT ' if dist else ''}{self.expr(arg, cols, outer)})"
                items.append(f"{call} AS c{len(gs) + j}")
            kind = q[5] if len(q) > 5 else "sets"
            if kind == "rollup":
                grp = "ROLLUP (" + ", ".join(gs) + ")"
            elif kind == "cube":
                grp = "CUBE (" + ", ".join(gs) + ")"
            else:
                grp = "GROUPING SETS (" + ", ".join("(" + ", ".join(gs[i] for i in st) + ")" for st in q[2]) + ")"
            return "SELECT " + ", ".join(items) + f" FROM ({self.query(q[4], outer)}) AS {a} GROUP BY {grp}"
        if t == "distinct":
            a = self.alias()
            w = self.width(q[1])
            return f"SELECT DISTINCT {self.sel_all(a, w)} FROM ({self.query(q[1], outer)}) AS {a}"
        if t == "union":
            a, b = self.alias(), self.alias()
            w = self.width(q[2])
            return (f"SELECT {self.sel_all(a, w)} FROM ({self.query(q[2], outer)}) AS {a} UNION {'ALL ' if q[1] else ''}"
                    f"SELECT {self.sel_all(b, w)} FROM ({self.query(q[3], outer)}) AS {b}")
        if t == "sort":
            a = self.alias()
            w = self.width(q[2])
            cols = [f"{a}.c{i}" for i in range(w)]
            return f"SELECT {self.sel_all(a, w)} FROM ({self.query(q[2], outer)}) AS {a} ORDER BY {self.order_by(q[1], cols, outer)}"
        if t == "limit":
            n, off, inner = q[1], q[2], q[3]
            a = self.alias()
            w = self.width(inner)
            cols = [f"{a}.c{i}" for i in range(w)]
            if inner[0] == "sort":
                s = f"SELECT {self.sel_all(a, w)} FROM ({self.query(inner[2], outer)}) AS {a} ORDER BY {self.order_by(inner[1], cols, outer)}"
            else:
                s = f"SELECT {self.sel_all(a, w)} FROM ({self.query(inner, outer)}) AS {a}"
            return s + f" LIMIT {n}" + (f" OFFSET {off}" if off else "")
        raise ValueError(t)


# ----------------------------------------------------------------------------- data

STR_POOL = ["", "a", "b", "ab", "A", "é", "zz", "aaaaaaaaaaaaa", "aaaaaaaaaaaab", "x y", "Ω"]


def gen_value(rng, ty, null_pct=15, small=True):
    if rng.below(100) < null_pct:
        return None
    if ty == INT:
        c = rng.below(10)
        if c < 6:
            return rng.below(7) - 2
        if c < 9:
            return rng.below(101) - 50
        return rng.pick([1000, -1000, 12345])
    if ty == STR:
        return rng.pick(STR_POOL)
    return rng.chance(1, 2)


def gen_db(rng, ntables=3, max_rows=30, big=False):
    db = {}
    for i in range(ntables):
        ncols = 2 + rng.below(2)
        types = [INT] + [rng.pick([INT, INT, STR, BOOL]) for _ in range(ncols - 1)]
        nrows = rng.pick([0, 1, 2, 5, 12, max_rows]) if not big else rng.pick([300, 700, 1500])
        if big:
            rows = []
            for r in range(nrows):
                row = [(r * 7 + rng.below(3)) % 650 if rng.chance(9, 10) else None]
                row += [gen_value(rng, t) for t in types[1:]]
                rows.append(row)
        else:
            rows = [[gen_value(rng, t) for t in types] for _ in range(nrows)]
        db[f"t{i}"] = (types, rows)
    return db


def setup_sql(db, rng=None, inserts=1, cap=400):
    """CREATE TEMP TABLE + INSERT statements: rows split over `inserts` statements, at most `cap` rows each
    (a stored chunk larger than the session's batch_size panics in scans: known finding F36)."""
    r = Renderer({k: v[0] for k, v in db.items()})
    stmts = []
    for name, (types, rows) in db.items():
        stmts.append(f"CREATE TEMP TABLE {name} (" + ", ".join(f"k{i} {SQLTY[t]}" for i, t in enumerate(types)) + ")")
        if rows:
            per = max(1, (len(rows) + inserts - 1) // inserts)
            per = max(1, min(per, cap))
            for i in range(0, len(rows), per):
                stmts.append(f"INSERT INTO {name} VALUES " + ", ".join("(" + ", ".join(r.lit(v, t) for v, t in zip(row, types)) + ")" for row in rows[i:i + per]))
    return stmts


# ----------------------------------------------------------------------------- generator

class Gen:
    def __init__(self, rng, db, feats):
        """feats: set of enabled constructs: join, outer, semi, agg, distinct, union, sort, limit, case, sub, corr, aggmods, inlist"""
        self.rng = rng
        self.db = db
        self.schema = {k: v[0] for k, v in db.items()}
        self.f = feats

    # expressions --------------------------------------------------------
    def expr(self, types, want, depth, outer=()):
        """Expression of type `want` over columns of `types` (+ outer rows for correlation)."""
        rng = self.rng
        idx = [i for i, t in enumerate(types) if t == want]
        if depth <= 0 or rng.chance(2, 5):
            if idx and rng.chance(3, 4):
                return ("col", rng.pick(idx))
            for d, ot in enumerate(outer):
                oi = [i for i, t in enumerate(ot) if t == want]
                if oi and rng.chance(1, 2):
                    return ("ocol", d, rng.pick(oi))
            return ("lit", gen_value(rng, want, null_pct=8), want)
        c = rng.below(10)
        if want == INT:
            if c < 4:
                return (rng.pick(["+", "-", "*"]) if depth > 1 else rng.pick(["+", "-"]), self.expr(types, INT, depth - 1, outer), self.small_int(types, depth - 1, outer))
            if c < 5:
                return ("neg", self.expr(types, INT, depth - 1, outer))
            if c < 7 and "case" in self.f:
                return ("case", [(self.expr(types, BOOL, depth - 1, outer), self.expr(types, INT, depth - 1, outer)) for _ in range(1 + rng.below(2))], self.expr(types, INT, depth - 1, outer))
            if c < 9:
                return ("coalesce", [self.expr(types, INT, depth - 1, outer), self.expr(types, INT, depth - 1, outer)])
            return self.expr(types, INT, 0, outer)
        if want == STR:
            if c < 3 and "case" in self.f:
                return ("case", [(self.expr(types, BOOL, depth - 1, outer), self.expr(types, STR, depth - 1, outer))], self.expr(types, STR, depth - 1, outer))
            if c < 5:
                return ("coalesce", [self.expr(types, STR, depth - 1, outer), self.expr(types, STR, 0, outer)])
            return self.expr(types, STR, 0, outer)
        # BOOL
        if c < 4:
            ty = rng.pick([INT, INT, STR]) if any(t == STR for t in types) else INT
            ops = ["=", "<>", "<", "<=", ">", ">="] + (["isdistinct", "isnotdistinct"] if "distinct_from" in self.f else [])
            if "distinct_from" in self.f and rng.chance(1, 6):
                ty = BOOL
                ops = ["isdistinct", "isnotdistinct"]
            return (rng.pick(ops), self.expr(types, ty, depth - 1, outer), self.expr(types, ty, depth - 1, outer))
        if c < 6:
            return (rng.pick(["and", "or"]), self.expr(types, BOOL, depth - 1, outer), self.expr(types, BOOL, depth - 1, outer))
        if c < 7:
            return ("not", self.expr(types, BOOL, depth - 1, outer))
        if c < 8:
            ty = rng.pick([INT, STR, BOOL])
            return (rng.pick(["isnull", "isnotnull"]), self.expr(types, ty, depth - 1, outer))
        if c < 9 and "inlist" in self.f:
            if rng.chance(1, 2):
                return ("in", self.expr(types, INT, depth - 1, outer), [("lit", gen_value(rng, INT, 10), INT) for _ in range(1 + rng.below(3))])
            return ("between", self.expr(types, INT, depth - 1, outer), self.expr(types, INT, 0, outer), self.expr(types, INT, 0, outer))
        return self.expr(types, BOOL, 0, outer)

    def small_int(self, types, depth, outer):
        if self.rng.chance(1, 2):
            return ("lit", self.rng.below(5) - 1, INT)
        return self.expr(types, INT, min(depth, 1), outer)

    # queries ------------------------------------------------------------
    def query(self, depth, outer=()):
        """Returns (term, types)."""
        rng = self.rng
        if depth <= 0:
            if rng.chance(1, 8):
                types = [INT, rng.pick([INT, STR, BOOL])]
                rows = [[("lit", gen_value(rng, t, 15), t) for t in types] for _ in range(1 + rng.below(3))]
                return ("values", rows), types
            t = rng.pick(sorted(self.schema))
            return ("scan", t), list(self.schema[t])
        c = rng.below(20)
        if c < 4:
            q, ty = self.query(depth - 1, outer)
            return ("filter", self.expr(ty, BOOL, 2, outer), q), ty
        if c < 7:
            q, ty = self.query(depth - 1, outer)
            n = 1 + rng.below(3)
            out = [rng.pick([INT, INT, STR, BOOL]) for _ in range(n)]
            return ("project", [self.expr(ty, t, 2, outer) for t in out], q), out
        if c < 11 and "join" in self.f:
            l, lt = self.query(depth - 1, outer)
            r, rt = self.query(depth - 1, outer)
            kinds = ["inner", "inner", "cross"]
            if "outer" in self.f:
                kinds += ["left", "left", "right"]
            if "semi" in self.f:
                kinds += ["semi", "anti"]
            k = rng.pick(kinds)
            both = lt + rt
            li = [i for i, t in enumerate(lt) if t == INT]
            ri = [len(lt) + i for i, t in enumerate(rt) if t == INT]
            conds = []
            if li and ri and rng.chance(4, 5):
                conds.append(("=", ("col", rng.pick(li)), ("col", rng.pick(ri))))
            if rng.chance(1, 3) and li and ri:
                conds.append((rng.pick(["<", "<=", ">", "<>"]), ("col", rng.pick(li)), ("col", rng.pick(ri))))
            if rng.chance(1, 4) or not conds:
                conds.append(self.expr(both, BOOL, 1, outer))
            on = conds[0]
            for x in conds[1:]:
                on = ("and", on, x)
            if k == "cross":
                return ("join", k, ("lit", True), l, r), both
            if k in ("semi", "anti"):
                return ("join", k, on, l, r), lt
            return ("join", k, on, l, r), both
        if c < 14 and "agg" in self.f:
            q, ty = self.query(depth - 1, outer)
            ng = rng.pick([0, 1, 1, 2])
            groups = []
            gt = []
            for _ in range(ng):
                i = rng.below(len(ty))
                if rng.chance(3, 4):
                    groups.append(("col", i)); gt.append(ty[i])
                else:
                    t = rng.pick([INT, BOOL])
                    groups.append(self.expr(ty, t, 1, outer)); gt.append(t)
            aggs, at = [], []
            for _ in range(1 + rng.below(3)):
                fn = rng.pick(["count_star", "count", "sum", "min", "max", "min", "max", "bool_and", "bool_or"])
                dist = "aggmods" in self.f and fn in ("count", "sum") and rng.chance(1, 3)
                filt = self.expr(ty, BOOL, 1, outer) if "aggmods" in self.f and rng.chance(1, 4) else None
                if fn == "count_star":
                    arg, t = ("lit", None), INT
                elif fn in ("count",):
                    at_ = rng.pick([INT, STR, BOOL]); arg, t = self.expr(ty, at_, 1, outer), INT
                elif fn == "sum":
                    arg, t = self.expr(ty, INT, 1, outer), INT
                elif fn in ("min", "max"):
                    at_ = rng.pick([INT, INT, STR]); arg, t = self.expr(ty, at_, 1, outer), at_
                else:
                    arg, t = self.expr(ty, BOOL, 1, outer), BOOL
                aggs.append((fn, dist, arg, filt)); at.append(t)
            if "rollup" in self.f and len(groups) >= 1 and rng.chance(1, 2) and all(g[0] == "col" for g in groups) and len({g[1] for g in groups}) == len(groups):
                n = len(groups)
                kind = rng.pick(["rollup", "cube"] if n <= 2 else ["rollup"])
                if kind == "rollup":
                    sets = [list(range(k)) for k in range(n, -1, -1)]
                else:
                    sets = [[i for i in range(n) if (m >> (n - 1 - i)) & 1] for m in range(2 ** n - 1, -1, -1)]
                aggs2 = [(fn, False, arg, None) for fn, d, arg, f in aggs]
                return ("aggsets", groups, sets, aggs2, q, kind), gt + at
            return ("agg", groups, aggs, q), gt + at
        if c < 15 and "distinct" in self.f:
            q, ty = self.query(depth - 1, outer)
            return ("distinct", q), ty
        if c < 17 and "union" in self.f:
            l, lt = self.query(depth - 1, outer)
            # right branch: projection of another query onto the same types
            r, rt = self.query(depth - 1, outer)
            r = ("project", [self.expr(rt, t, 1, outer) for t in lt], r)
            return ("union", rng.chance(1, 2), l, r), lt
        if c < 18 and "limit" in self.f:
            q, ty = self.query(depth - 1, outer)
            keys = [(("col", i), rng.chance(1, 2), rng.chance(1, 2)) for i in rng.shuffle(range(len(ty)))]   # total order on all columns
            n = rng.pick([0, 1, 2, 3, 5, 10, 100])
            off = rng.pick([0, 0, 1, 2, 7])
            return ("limit", n, off, ("sort", keys, q)), ty
        if c < 20 and "sub" in self.f:
            q, ty = self.query(depth - 1, outer)
            return ("filter", self.subquery_pred(ty, depth - 1, outer), q), ty
        return self.query(depth - 1, outer)

    def subquery_pred(self, types, depth, outer):
        rng = self.rng
        new_outer = (types,) + tuple(outer) if "corr" in self.f else ()
        kind = rng.pick(["exists", "exists", "in", "scalar_cmp"])
        sq, st = self.query(min(depth, 1), new_outer)
        if "corr" in self.f and rng.chance(3, 4):
            oi = [i for i, t in enumerate(types) if t == INT]
            si = [i for i, t in enumerate(st) if t == INT]
            if oi and si:
                sq = ("filter", (rng.pick(["=", "=", "<", ">="]), ("col", rng.pick(si)), ("ocol", 0, rng.pick(oi))), sq)
        if kind == "exists":
            e = ("exists", sq)
            return ("not", e) if rng.chance(1, 3) else e
        ii = [i for i, t in enumerate(st) if t == INT]
        oi = [i for i, t in enumerate(types) if t == INT]
        if kind == "in" and ii and oi:
            return ("insub", ("col", rng.pick(oi)), ("project", [("col", rng.pick(ii))], sq))
        if ii and oi:
            fn = rng.pick(["min", "max", "sum", "count"])
            sc = ("scalar", ("agg", [], [(fn, False, ("col", rng.pick(ii)), None)], sq))
            return (rng.pick(["=", "<", ">=", "<>"]), ("col", rng.pick(oi)), sc)
        return ("exists", sq)


def top_sort(rng, q, types):
    """Wrap a query in a top-level ORDER BY over a random prefix of columns; returns (term, key column list)."""
    cols = rng.shuffle(range(len(types)))[:1 + rng.below(len(types))]
    keys = [(("col", i), rng.chance(1, 2), rng.chance(1, 2)) for i in cols]
    return ("sort", keys, q), keys


# ----------------------------------------------------------------------------- known-defect exclusions

def _conjuncts(e):
    if isinstance(e, tuple) and e and e[0] == "and":
        return _conjuncts(e[1]) + _conjuncts(e[2])
    return [e]


def _disjuncts(e):
    if isinstance(e, tuple) and e and e[0] == "or":
        return _disjuncts(e[1]) + _disjuncts(e[2])
    return [e]


def est_rows(q, db):
    """Upper bound on the number of rows a query term returns (and has to be materialised by the reference evaluator and
    shipped by the engine): joins multiply, unions add, semi/anti joins and filters keep at most their input."""
    t = q[0]
    if t == "scan":
        return len(db[q[1]][1])
    if t == "values":
        return len(q[1])
    if t in ("filter", "distinct", "project", "sort"):
        return est_rows(q[-1], db)
    if t == "join":
        l, r = est_rows(q[3], db), est_rows(q[4], db)
        if q[1] in ("semi", "anti"):
            return l
        return max(l * r, l, r)          # outer joins keep unmatched rows
    if t == "agg":
        return max(1, est_rows(q[-1], db))
    if t == "aggsets":
        return max(1, est_rows(q[-1], db)) * max(1, len(q[2]) if isinstance(q[2], (list, tuple)) else 1)
    if t == "union":
        return est_rows(q[2], db) + est_rows(q[3], db)
    if t == "limit":
        return min(q[1], est_rows(q[-1], db))
    return 1


def max_intermediate(q, db):
    """The largest est_rows over all subterms: a LIMIT on top does not make the join below it small."""
    best = est_rows(q, db)
    for x in q[1:]:
        if isinstance(x, tuple) and x and isinstance(x[0], str) and x[0] in ("scan", "values", "filter", "distinct", "project", "sort", "join", "agg", "aggsets", "union", "limit"):
            best = max(best, max_intermediate(x, db))
    return best


def _is_const(t):
    """No column reference (own or outer) and no subquery below t."""
    if isinstance(t, tuple):
        if t and t[0] in ("col", "ocol", "exists", "scalar", "insub", "notinsub"):
            return False
        return all(_is_const(x) for x in t[1:] if isinstance(x, (tuple, list)))
    if isinstance(t, list):
        return all(_is_const(x) for x in t)
    return True


def has_or_absorption(t):
    """True if the term contains `X OR (X AND Y)`-shaped predicates: all OR branches share a conjunct and one
    branch consists only of shared conjuncts. The optimizer's distributive-OR rewrite turns these into
    `X AND Y` (known finding F35, asserted by an existing unit test); such queries are not generated."""
    if isinstance(t, tuple):
        if t and t[0] == "or":
            # constant conjuncts are compared after the engine's constant folding (`NOT false` and `true` are the same
            # conjunct for the rewrite): every column-free conjunct counts as one and the same token
            branches = [[("<const>" if _is_const(c) else sexp(c)) for c in _conjuncts(b)] for b in _disjuncts(t)]
            common = set(branches[0])
            for b in branches[1:]:
                common &= set(b)
            if common and any(set(b) <= common for b in branches):
                return True
        return any(has_or_absorption(x) for x in t[1:] if isinstance(x, (tuple, list)))
    if isinstance(t, list):
        return any(has_or_absorption(x) for x in t)
    return False


def _contains_outer_join(t):
    if isinstance(t, tuple):
        if t and t[0] == "join" and t[1] in ("left", "right"):
            return True
        return any(_contains_outer_join(x) for x in t[1:] if isinstance(x, (tuple, list)))
    if isinstance(t, list):
        return any(_contains_outer_join(x) for x in t)
    return False


def has_exists_over_outer_join(t):
    """EXISTS / NOT EXISTS (semi / anti joins) whose subquery contains a LEFT/RIGHT join: these hung the engine (F38, the LIMIT 1
    of the EXISTS cut the probing partition off before the join's drain barrier) until the fix; kept as a classifier for the
    generator statistics."""
    if isinstance(t, tuple):
        if t and t[0] == "join" and t[1] in ("semi", "anti") and _contains_outer_join(t[4]):
            return True
        if t and t[0] in ("exists", "scalar", "insub", "notinsub") and _contains_outer_join(t[-1]):
            return True
        return any(has_exists_over_outer_join(x) for x in t[1:] if isinstance(x, (tuple, list)))
    if isinstance(t, list):
        return any(has_exists_over_outer_join(x) for x in t)
    return False


def excluded(t):
    # (EXISTS over an outer join used to be excluded as well: it hung the engine until the fix of F38, see known_findings.txt)
    return has_or_absorption(t)
