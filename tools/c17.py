#!/usr/bin/env python3
"""C17 — Reading a CSV file returns the RFC-4180 records with inferred types."""
import os
import shutil
import struct
import sys

import vlib
from sqlutil import Rng, bag

SCRATCH = os.path.join(vlib.ROOT, "scratch", "c17")
DIALECTS = [(44, 34), (124, 34), (59, 34), (9, 34), (44, 39), (124, 39), (59, 39), (9, 39)]


def decoder_component(ck, tier):
    rng = Rng(ck.seed * 17 + 170)
    n = 4000 if tier == "quick" else 100000
    lines = []
    for i in range(n):
        d, q = rng.pick(DIALECTS)
        alpha = [d, d, q, q, 10, 10, 13, 97, 98, 0xC3, 0xA9, 32, 44, 124, 34, 39, 0]
        ln = rng.pick([0, 1, 2, 5, 12, 30, 80])
        bs = bytes(rng.pick(alpha) for _ in range(ln))
        if rng.chance(1, 3):
            # structured: records of fields, some quoted
            recs = []
            for _ in range(1 + rng.below(4)):
                fs = []
                for _ in range(1 + rng.below(4)):
                    f = bytes(rng.pick([97, 98, 32, d, q, 10, 0xC3, 0xA9][: 4 if rng.chance(1, 2) else 8]) for _ in range(rng.below(5)))
                    if any(c in f for c in (d, q, 10, 13)) or rng.chance(1, 5):
                        f = bytes([q]) + f.replace(bytes([q]), bytes([q, q])) + bytes([q])
                    fs.append(f)
                recs.append(bytes([d]).join(fs))
            bs = rng.pick([b"\n", b"\r\n"]).join(recs) + rng.pick([b"", b"\n", b"\r\n", b"\n\n"])
        chunks = "-" if rng.chance(1, 3) else ",".join(str(1 + rng.below(rng.pick([1, 3, 9, 40]))) for _ in range(1 + rng.below(4)))
        lines.append(f"case {i} csv {d} {q} {chunks} {bs.hex() if bs else '-'}")
    model = vlib.run_model(lines, timeout=600).get("out", {})
    rc, out, err, secs = vlib.sh([vlib.GVH, "csv"], inp="\n".join(lines) + "\n", timeout=600)
    impl = {}
    for l in out.split("\n"):
        p = l.split(" ", 2)
        if len(p) == 3 and p[0] == "out":
            impl[p[1]] = p[2]
    ck.count("csv_decoder", len(lines))
    if rc != 0 or len(impl) < len(lines):
        ck.violation("csv_decoder/harness", "gvh csv failed: " + err[-300:], {"correspondence": "gvh csv", "stderr": err[-800:]}, found_input=False)
        return
    whole = {}
    for i, line in enumerate(lines):
        ck.nontrivial(line.split(" ", 3)[3])
        a, b = impl.get(str(i)), model.get(str(i))
        if a == "panic":
            ck.violation("csv_decoder/panic", f"CsvDecoder panics on {line}", {"kind": "crash", "case": line})
            break
        if a != b:
            # oracle on the implementation: chunking must not matter -> re-run unchunked
            p = line.split(" ")
            unchunked = f"case 0 csv {p[3]} {p[4]} - {p[6]}"
            rc2, out2, _, _ = vlib.sh([vlib.GVH, "csv"], inp=unchunked + "\n", timeout=60)
            whole_out = out2.strip().split(" ", 2)[2] if out2.strip() else None
            if whole_out != a:
                ck.violation("csv_decoder/chunk-dependent", f"decoding depends on the read-buffer boundaries: {line}: chunked {a} vs whole {whole_out}",
                             {"kind": "impl-vs-oracle", "case": line, "chunked": a, "whole": whole_out, "model": b})
            else:
                ck.violation("csv_decoder/correspondence", f"Core/Csv.lean disagrees with CsvDecoder on {line}: impl {a} model {b}",
                             {"kind": "model-vs-impl", "correspondence": "Csv.run ~ CsvDecoder::decode", "case": line, "impl": a, "model": b}, found_input=False)
            break
    ck.sample({"case": lines[1], "impl": impl.get("1"), "model": model.get("1")})


def render_field(f, d, q, force=False):
    ds, qs = chr(d), chr(q)
    if force or any(c in f for c in (ds, qs, "\n", "\r")):
        return qs + f.replace(qs, qs + qs) + qs
    return f


def gen_file(rng, path, nrows, big_field=False):
    # the rows are checked *for the dialect the reader infers*; to keep that inference unambiguous the files use the
    # double quote (a single-quote dialect is only inferred when it yields strictly more fields) and text never
    # contains one of the other candidate delimiters. The other dialects are covered at decoder level.
    d, q = rng.pick(DIALECTS[:4])
    ncols = 2 + rng.below(4)
    kinds = [rng.pick(["int", "float", "bool", "text", "text"]) for _ in range(ncols)]
    if "text" not in kinds:
        kinds[rng.below(ncols)] = "text"
    # mixed columns (F68): the value kind changes at row `switch`; the narrowest type that fits all sampled values is what the
    # property asks for (bool then int -> text, int then float -> float, ...)
    mixed = {}
    if rng.chance(1, 3):
        j = rng.below(ncols)
        a, b = rng.pick([("bool", "int"), ("int", "bool"), ("int", "float"), ("float", "int"), ("bool", "float"), ("float", "bool"), ("int", "text"), ("bool", "text")])
        mixed[j] = (a, b, rng.pick([1, 2, 3, 5, max(1, nrows // 2)]))
        kinds[j] = a
        if "text" not in [k for i, k in enumerate(kinds) if i not in mixed]:
            kinds[(j + 1) % ncols] = "text"
    # a header can only be recognised when some column is not text (the header text then fails that column's type)
    header = rng.chance(2, 3) and any(k != "text" for k in kinds)
    eol = rng.pick(["\n", "\n", "\r\n"])
    last_eol = rng.pick([eol, eol, ""])
    names = [f"col{chr(97 + i)}" for i in range(ncols)]
    rows, exp = [], []
    words = ["x", "hello", "a b", "é", "日本", "it's", 'say "hi"', "line\nbreak", "cr\r\nlf", "zzzzzzzzzzzzzzzzzzzzzzzzz",
             "de" + chr(d) + "lim", chr(d), 'q"' + chr(d) + '"']
    for r in range(nrows):
        fs, ev = [], []
        for ci, k in enumerate(kinds):
            if ci in mixed and r >= mixed[ci][2]:
                k = mixed[ci][1]
            # the first rows are complete: the reader's header decision ("first record fails some column's type") and
            # the type candidates are then determined by the generator's intent, not by where NULLs happen to fall
            if r >= 3 and rng.chance(1, 9):
                fs.append("")
                ev.append(None)
                continue
            if k == "int":
                v = rng.below(2001) - 1000 if rng.chance(9, 10) else rng.pick([9223372036854775807, -9223372036854775808])
                fs.append(str(v)); ev.append(str(v))
            elif k == "float":
                v = (rng.below(200001) - 100000) / rng.pick([2, 4, 8, 100])
                t = repr(v)
                fs.append(t); ev.append("f64:%016x" % struct.unpack(">Q", struct.pack(">d", float(t)))[0])
            elif k == "bool":
                v = rng.chance(1, 2)
                fs.append("true" if v else "false"); ev.append("true" if v else "false")
            else:
                v = rng.pick(words) + (str(rng.below(50)) if rng.chance(1, 2) else "w")
                if big_field and rng.chance(1, 50):
                    v = v * 300
                fs.append(v); ev.append("s:" + v)
        rows.append(fs)
        exp.append(ev)
    with open(path, "w", encoding="utf-8", newline="") as f:
        recs = []
        if header:
            recs.append(chr(d).join(render_field(n, d, q) for n in names))
        for fs in rows:
            recs.append(chr(d).join(render_field(x, d, q, force=(x != "" and rng.chance(1, 8))) for x in fs))
        f.write(eol.join(recs) + (last_eol if recs else ""))
    types = {"int": "Int64", "float": "Float64", "bool": "Boolean", "text": "Utf8"}
    return {"dialect": (d, q), "kinds": kinds, "mixed": mixed, "header": header, "names": names if header else [f"column{i}" for i in range(ncols)],
            "types": [types[k] for k in kinds], "rows": exp, "eol": eol, "last_eol": last_eol}


def model_parse(cases):
    """cases: list of (d, q, bytes, sample) -> list of records (list of list of bytes) via the Lean model."""
    lines = [f"case {i} {'csvsample' if smp else 'csv'} {d} {q} - {bs.hex() if bs else '-'}" for i, (d, q, bs, smp) in enumerate(cases)]
    out = vlib.run_model(lines, timeout=300).get("out", {})
    res = []
    for i in range(len(cases)):
        o = out.get(str(i), "none")
        if o == "none":
            res.append([])
        else:
            res.append([[b"" if f == "-" else bytes.fromhex(f) for f in r.split(",")] for r in o.split("|")])
    return res


BOOLS = {"t": True, "true": True, "TRUE": True, "T": True, "f": False, "false": False, "FALSE": False, "F": False}


def valid(cand, txt):
    import re
    if cand == "Boolean":
        return txt in BOOLS
    if cand == "Int64":
        return bool(re.fullmatch(r"[+-]?[0-9]+", txt)) and -(1 << 63) <= int(txt) < (1 << 63)
    if cand == "Float64":
        if not txt or txt != txt.strip() or "_" in txt:
            return False
        try:
            float(txt)
            return True
        except ValueError:
            return False
    return cand == "Utf8"


ORDER = ["Boolean", "Int64", "Float64", "Utf8"]      # Timestamp candidate always widens to Utf8 (TODO in schema.rs)


def expected_for(file_bytes):
    """What the reader must return according to its own inference rules (dialect.rs, schema.rs) applied to the records
    the Lean model decodes. Returns ('rows', names, types, rows) or ('error', reason)."""
    sample = file_bytes[:4096]
    per = model_parse([(d, q, sample, True) for d, q in DIALECTS])
    best = (None, 0)
    for dq, recs in zip(DIALECTS, per):
        if len(recs) < 2:
            continue
        nf = len(recs[0])
        if nf < 2 or nf <= best[1] or any(len(r) != nf for r in recs):
            continue
        best = (dq, nf)
    d, q = best[0] or (44, 34)
    srecs, full = model_parse([(d, q, sample, True), (d, q, file_bytes, False)])
    if not srecs:
        return ("error", "no sample records")
    nf = len(srecs[0])
    cands = ["Boolean"] * nf
    try:
        # the property: each column is typed by the narrowest of boolean, integer, float, text that fits the sampled values
        # (Core/CsvInfer.lean: narrowestFitting; the repaired reader computes the same for its parsers, the ladder of the
        # pinned commit does not - Props/C17 ladder_unsound_bool_then_int)
        for j in range(nf):
            vals = [rec[j].decode("utf-8") for rec in srecs[1:] if j < len(rec)]
            vals = [t for t in vals if t != ""]
            cands[j] = next(c for c in ORDER if all(valid(c, t) for t in vals))
        header = any(not valid(c, f.decode("utf-8", errors="replace")) for f, c in zip(srecs[0], cands))
        names = [f.decode("utf-8") for f in srecs[0]] if header else [f"column{i}" for i in range(nf)]
    except UnicodeDecodeError:
        return ("error", "invalid utf8 in sample")
    rows = []
    for rec in (full[1:] if header else full):
        if len(rec) != nf:
            return ("error", f"record with {len(rec)} fields, expected {nf}")
        row = []
        for f, c in zip(rec, cands):
            try:
                t = f.decode("utf-8")
            except UnicodeDecodeError:
                return ("error", "invalid utf8")
            if t == "":
                row.append(None)
            elif not valid(c, t):
                return ("error", f"'{t}' does not parse as {c}")
            elif c == "Boolean":
                row.append("true" if BOOLS[t] else "false")
            elif c == "Int64":
                row.append(str(int(t)))
            elif c == "Float64":
                row.append("f64:%016x" % struct.unpack(">Q", struct.pack(">d", float(t)))[0])
            else:
                row.append("s:" + t)
        rows.append(row)
    return ("rows", names, cands, rows, (d, q), header)


def sql_component(ck, tier, runner):
    rng = Rng(ck.seed * 19 + 171)
    shutil.rmtree(SCRATCH, ignore_errors=True)
    os.makedirs(SCRATCH, exist_ok=True)
    nfiles = 40 if tier == "quick" else 1500
    agree_intent = 0
    for i in range(nfiles):
        nrows = rng.pick([2, 3, 7, 40, 300, 2048, 4096, 5000])
        big = (i % 20 == 19)
        if big:
            nrows = 120000          # > 4 MiB read buffer
        path = os.path.join(SCRATCH, f"f{i}.csv")
        info = gen_file(rng, path, nrows, big_field=big)
        size = os.path.getsize(path)
        exp = expected_for(open(path, "rb").read())
        if exp[0] == "rows" and (info["mixed"] or exp[3] == info["rows"]):
            agree_intent += 1
        cfgs = [(2048, 1)] + [(rng.pick([1, 7, 64, 2048, 4096, 8192]) if not big else rng.pick([2048, 8192]), rng.pick([1, 2, 8])) for _ in range(1 if big else 2)]
        keep = False
        for bsz, parts in cfgs:
            stmts = [f"SET batch_size TO {bsz}", f"SET partitions TO {parts}", f"SELECT * FROM read_csv('{path}')"]
            res = runner.run(stmts, timeout=120)
            ck.count("csv_files", 1, bytes=size)
            ck.nontrivial((i, bsz, parts))
            meta = {"file": path, "size": size, "generated_dialect": [chr(c) for c in info["dialect"]], "generated_header": info["header"], "eol": repr(info["eol"]), "last_eol": repr(info["last_eol"]),
                    "rows": nrows, "batch_size": bsz, "partitions": parts, "model_expectation": exp[0] if exp[0] == "error" else {"names": exp[1], "types": exp[2], "dialect": [chr(c) for c in exp[4]], "header": exp[5]}}
            if isinstance(res, dict):
                ck.violation("csv_read/crash", f"read_csv crashed: {str(res)[:200]}", {"kind": "crash", "stmts": stmts, **meta, "result": res})
                keep = True
                continue
            r = res[-1]
            if exp[0] == "error":
                if "rows" in r:
                    ck.violation("csv_read/accepts-invalid", f"read_csv returned rows where its own rules give an error ({exp[1]})", {"kind": "impl-vs-oracle", "stmts": stmts, **meta})
                    keep = True
                continue
            if "rows" not in r:
                ck.violation("csv_read/error", f"read_csv of a valid file failed: {str(r)[:200]}", {"kind": "impl-vs-oracle", "stmts": stmts, **meta, "engine": r})
                keep = True
                continue
            names = [c[0] for c in r["cols"]]
            types = [c[1] for c in r["cols"]]
            if names != exp[1] or types != exp[2]:
                ck.violation("csv_read/schema", f"read_csv announces {list(zip(names, types))}, the narrowest types fitting the sampled values are {list(zip(exp[1], exp[2]))}",
                             {"kind": "impl-vs-oracle", "stmts": stmts, **meta, "engine_cols": r["cols"]})
                keep = True
                continue
            erows = exp[3]
            if bag(r["rows"]) != bag(erows) or (parts == 1 and r["rows"] != erows):
                first = next((k for k, (a, b) in enumerate(zip(r["rows"], erows)) if a != b), None)
                ck.violation("csv_read/rows", f"read_csv returned {len(r['rows'])} rows, the decoded file has {len(erows)} (first differing row {first})",
                             {"kind": "impl-vs-oracle", "stmts": stmts, **meta, "first_diff": first,
                              "engine_row": r["rows"][first] if first is not None and first < len(r["rows"]) else None,
                              "expected_row": erows[first] if first is not None else None})
                keep = True
        if not keep:
            os.remove(path)
    ck.note("csv_files", "files_where_model_expectation_equals_generator_intent", agree_intent)
    ck.sample({"file": "generated CSV: delimiter of , | ; tab, header/no header, LF/CRLF, optional missing final newline, quoted fields with delimiters/quotes/newlines, empty fields, UTF-8; expectation = "
               "reader's inference rules applied to the records decoded by Core/Csv.lean"})


def main():
    tier = sys.argv[1] if len(sys.argv) > 1 else "quick"
    ck = vlib.Check("C17", tier)
    ck.coverage["rule"] = ("csv_decoder: random and structured byte strings over {delimiter, quote, CR, LF, UTF-8 bytes, NUL, other delimiters} for the 8 dialects with random chunk sizes (1..40 bytes) through the real "
                           "CsvDecoder (clear_completed between chunks, empty input at the end) vs Core/Csv.lean; csv_files: generated files (2..5000 rows, one >4 MiB file per 20) read with read_csv under "
                           "batch sizes 1..8192 and 1-8 partitions vs the records that were rendered; distinct = distinct byte string / (file, config)")
    ck.assumptions = ["csv_core (third party) is modelled by Core/Csv.lean and tied by the decoder correspondence", "the generator renders records RFC-4180 style; the rendered records are the oracle for read_csv",
                      "timestamp inference is a TODO in the engine and not generated"]
    proof_ok = ck.proof_step()
    ok, blog, secs = vlib.build_harness()
    if not ok:
        ck.violation("harness/build", "harness does not build against /repo", {"correspondence": "harness build", "log": blog[-1500:]}, found_input=False)
        sys.exit(ck.finish())
    decoder_component(ck, tier)
    runner = vlib.SqlRunner()
    try:
        sql_component(ck, tier, runner)
    finally:
        runner.close()
    if not proof_ok:
        ck.violation("proof/C17", "proof obligation of Props/C17.lean no longer checks", {"theorem": "GlareModel.Props.C17.*", "log": ck.broken_proof}, found_input=bool(ck.violations))
    sys.exit(ck.finish())


if __name__ == "__main__":
    main()
