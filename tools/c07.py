#!/usr/bin/env python3
"""C07 — Grouping, aggregates and duplicate elimination are exact per group."""
import qgen
from semcheck import run_check
from semdiff import SemDiff
from sqlutil import Rng

FNS = ["count_star", "count", "sum", "min", "max", "bool_and", "bool_or"]


def table(rng, n, groups, null_pct):
    types = [qgen.INT, qgen.INT, qgen.STR, qgen.BOOL]
    rows = []
    regime = rng.below(3)           # 0: all values negative, 1: all positive, 2: mixed  (a default 0 must never win min/max)
    vnull = rng.pick([15, 15, 60])
    for _ in range(n):
        g = None if rng.below(100) < null_pct else rng.below(max(1, groups))
        base = rng.below(150) + 1
        v = None if rng.below(100) < vnull else (-base if regime == 0 else base if regime == 1 else base - 75)
        rows.append([g, v, qgen.gen_value(rng, qgen.STR, 15), qgen.gen_value(rng, qgen.BOOL, 15)])
    return types, rows


def agg_list(rng, n, mods):
    out = []
    for _ in range(n):
        fn = rng.pick(FNS)
        dist = mods and fn in ("count", "sum") and rng.chance(1, 3)
        if fn == "count_star":
            arg = ("lit", None)
        elif fn in ("count", "min", "max"):
            arg = ("col", rng.pick([1, 1, 2]))
        elif fn == "sum":
            arg = ("col", 1)
        else:
            arg = ("col", 3)
        out.append((fn, dist, arg, None))
    return out


def probes(ck, runner):
    q = "SELECT count(*) FILTER (WHERE a > 1), min(a) FILTER (WHERE false) FROM generate_series(1,3) g(a)"
    res = runner.run([q], timeout=30)
    bad = isinstance(res, dict) or res[0].get("rows") != [["2", None]]
    ck.probe("agg/filter-clause-ignored", "aggregate FILTER (WHERE ...) is parsed but ignored: count(*) FILTER (WHERE a > 1) over 1..3 returns 3",
             {"kind": "impl-vs-oracle", "sql": q, "engine": res if isinstance(res, dict) else res[0], "expected": [["2", None]]}, bad)


def directory_component(ck, tier):
    """Core/Directory.lean vs the real aggregate hash table Directory (needs_resize, resize with power-of-two rounding, linear probing)
    on random batch histories; oracle on the implementation: after every batch at least one slot is empty and capacity is a power of two."""
    import vlib
    comp = "directory"
    if vlib.HARNESS_DEGRADED:
        ck.violation("directory/harness", "the directory hook is not available (harness built without internals)", {"correspondence": "gvh directory"}, found_input=False)
        return
    res = vlib.run_pair("directory", [ck.seed, 400 if tier == "quick" else 20000])
    if res["rc"] != 0 or not res["cases"]:
        ck.violation("directory/harness", "gvh directory failed: " + res["stderr"][-300:], {"correspondence": "gvh directory", "stderr": res["stderr"]}, found_input=False)
        return
    diffs = 0
    resizes = 0
    for k, line in res["cases"].items():
        ck.count(comp, 1)
        ck.nontrivial(line)
        i, m = res["impl"].get(k), res["model"].get(k)
        if i and i != "-" and not i.startswith("error"):
            prev = 512
            for st in i.split(","):
                cap, occ = (int(x) for x in st.split(":"))
                resizes += 1 if cap != prev else 0
                prev = cap
                if occ >= cap or cap & (cap - 1):
                    ck.violation("directory/full-or-not-power-of-two", f"the aggregate directory has {occ} of {cap} slots occupied after a batch ({line[:120]})", {"kind": "impl-vs-oracle", "case": line, "impl": i})
                    break
        elif i and i.startswith("error"):
            ck.violation("directory/error", f"the aggregate directory fails on a batch history: {i} ({line[:120]})", {"kind": "impl-vs-oracle", "case": line, "impl": i})
        if i != m:
            diffs += 1
            if diffs <= 3:
                ck.violation("directory/model-diff", f"Core/Directory.lean and the real Directory disagree: {line[:160]} impl={str(i)[:120]} model={str(m)[:120]}",
                             {"correspondence": "Directory.batch vs Directory::needs_resize/resize", "case": line, "impl": i, "model": m}, found_input=False)
    ck.note(comp, "model_diffs", diffs)
    ck.note(comp, "resizes_observed", resizes)


def body(ck, tier, runner):
    directory_component(ck, tier)
    probes(ck, runner)
    rng = Rng(ck.seed * 5003 + 7)
    sd = SemDiff(ck, runner, "aggregates")
    ncase = 300 if tier == "quick" else 4000
    for d in range(ncase):
        n = rng.pick([0, 1, 5, 40, 200, 1200, 2500])
        groups = rng.pick([1, 3, 40, 700, 2000])
        t = table(rng, n, groups, rng.pick([0, 10, 100 if d % 9 == 0 else 10]))
        db = {"t0": t}
        queries = []
        for _ in range(3):
            c = rng.below(6)
            if c == 0:
                q = ("agg", [], agg_list(rng, 1 + rng.below(3), True), ("scan", "t0"))
            elif c in (1, 2):
                gs = [("col", 0)] if rng.chance(2, 3) else [("col", 0), ("col", 3)]
                q = ("agg", gs, agg_list(rng, 1 + rng.below(3), True), ("scan", "t0"))
            elif c == 3:
                gs = [("col", 3), ("col", 2)][: 1 + rng.below(2)]
                kind = rng.pick(["rollup", "cube"])
                nset = len(gs)
                sets = [list(range(k)) for k in range(nset, -1, -1)] if kind == "rollup" else [[i for i in range(nset) if (m >> (nset - 1 - i)) & 1] for m in range(2 ** nset - 1, -1, -1)]
                q = ("aggsets", gs, sets, agg_list(rng, 1 + rng.below(2), False), ("scan", "t0"), kind)
            elif c == 4:
                q = ("distinct", ("project", [("col", 0)] if rng.chance(1, 2) else [("col", 0), ("col", 3)], ("scan", "t0")))
            else:
                q = ("union", False, ("project", [("col", 0)], ("scan", "t0")), ("project", [("col", 1)], ("scan", "t0")))
            queries.append(q)
        b = rng.pick([64, 512, 2048])
        cfgs = [("p1", ["SET partitions TO 1", f"SET batch_size TO {b}"])]
        p = rng.pick([2, 4, 16])
        cfgs.append((f"p{p}", [f"SET partitions TO {p}", f"SET batch_size TO {b}"]))
        sd.check(db, queries, cfgs, inserts=rng.pick([1, 4, 9]))
        if d < 2:
            ck.sample({"query": qgen.sexp(queries[0]), "rows": n, "groups": groups})
    # volume stream: more distinct groups than the initial hash-table capacity, every key recurring after the resize
    for v in range(4 if tier == "quick" else 40):
        nkeys = rng.pick([1000, 1500, 2200])
        reps = rng.pick([3, 4, 6])
        keys = [(a * rng.pick([1, 1, 7919])) % nkeys for a in range(1, nkeys * reps + 1)] if v % 2 == 0 else rng.shuffle(list(range(nkeys)) * reps)
        rows = [[k, -(k % 97) - 1, None, k % 3 == 0] for k in keys]
        db = {"t0": ([qgen.INT, qgen.INT, qgen.STR, qgen.BOOL], rows)}
        queries = [("agg", [("col", 0)], [("count_star", False, ("lit", None), None), ("max", False, ("col", 1), None), ("sum", False, ("col", 1), None)], ("scan", "t0")),
                   ("distinct", ("project", [("col", 0)], ("scan", "t0"))),
                   ("agg", [], [("count", True, ("col", 0), None), ("max", False, ("col", 1), None)], ("scan", "t0"))]
        p = rng.pick([2, 4])
        sd.check(db, queries, [("p1", ["SET partitions TO 1", "SET batch_size TO 2048"]), (f"p{p}", [f"SET partitions TO {p}", "SET batch_size TO 2048"])], inserts=rng.pick([1, 2]))
    sd.finish()


if __name__ == "__main__":
    run_check("C07",
              "one table (0-2500 rows; 1-2000 distinct group keys so hash tables cross their initial capacity and resize; 0/10/100% NULL keys; mostly negative values) aggregated with "
              "count(*)/count/sum/min/max/bool_and/bool_or (+DISTINCT), grouped by 0-2 keys, ROLLUP/CUBE, SELECT DISTINCT and UNION, under 1 and 2-16 partitions with rows spread over 1-9 INSERTs; "
              "every run must equal Sem; distinct = distinct (query term, data) pair",
              ["Sem is the reference", "aggregate FILTER is a known finding (ignored by the binder) and not generated", "floating-point aggregates (avg, variance) are not modelled"],
              body)
