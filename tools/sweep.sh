#!/bin/bash
# usage: tools/sweep.sh <seed> [props...]   runs the quick checks with VERIF_SEED=<seed> on the unchanged tree; prints one line per check.
cd "$(dirname "$0")/.." || exit 2
seed="$1"; shift
props="$*"; [ -z "$props" ] && props="C01 C02 C03 C04 C05 C06 C07 C08 C09 C10 C11 C12 C13 C14 C15 C16 C17 C18 C19 C20"
for p in $props; do
  t0=$(date +%s)
  VERIF_SEED=$seed ./check $p quick > /tmp/sweep_${seed}_$p.log 2>&1; rc=$?
  t1=$(date +%s)
  echo "seed=$seed $p rc=$rc secs=$((t1-t0)) $(grep -c '^VIOLATION' /tmp/sweep_${seed}_$p.log) violations; $(grep '^VIOLATION' /tmp/sweep_${seed}_$p.log | head -3 | tr '\n' ' ')"
  if [ $rc -ne 0 ]; then mkdir -p /tmp/sweep_replays/$seed; cp -r replays/$p /tmp/sweep_replays/$seed/ 2>/dev/null; fi
done
