#!/usr/bin/env python3
"""C08 — ORDER BY yields a correctly sorted permutation; LIMIT/OFFSET the exact slice."""
import json
import sys

import vlib
from sqlutil import Rng, cmp_cells, row_cmp, sort_rows, bag, sql_str


def sortkey_component(ck, tier):
    """Correspondence of the real key encoder with Core/SortKey.lean + order oracle on the
    implementation's own key bytes (spec keys come from the Lean model's `Spec.key`)."""
    res = vlib.run_pair("sortkey", [ck.seed, tier])
    if res["rc"] != 0 or not res["cases"]:
        ck.violation("sortkey/harness", "harness sortkey component failed: " + res["stderr"][-300:],
                     {"correspondence": "gvh sortkey", "stderr": res["stderr"]}, found_input=False)
        return
    spec = res["extra"].get("spec", {})
    diffs = []
    groups = {}
    for n, line in res["cases"].items():
        impl, model = res["impl"].get(n), res["model"].get(n)
        if impl != model:
            diffs.append((n, line, impl, model))
        cells = line.split(" ")[3:]
        if len(cells) == 1:
            t, d, nf, _v = cells[0].split(":")
            groups.setdefault((t, d, nf), []).append((impl, spec.get(n), line))
    ck.count("sortkey", len(res["cases"]), model_diffs=len(diffs))
    ck.note("sortkey", "column_configs", len(groups))
    for n, line in list(res["cases"].items())[:3]:
        ck.sample({"case": line, "impl": res["impl"].get(n), "model": res["model"].get(n)})
    for n, line in res["cases"].items():
        ck.nontrivial(line.split(" ", 2)[2])
    # Oracle on the implementation: sorting by the real key bytes must sort by spec key.
    oracle_fail = None
    for (t, d, nf), items in groups.items():
        desc, nfirst = d == "1", nf == "1"

        def sk(s):
            if s == "N":
                return None
            if s[0] == "i":
                return int(s[1:])
            if s[0] == "t":
                return tuple(int(x) for x in s[1:].split(","))
            return bytes(int(x) for x in s[1:].split(".") if x)

        def cmpk(a, b):
            if a is None and b is None:
                return 0
            if a is None:
                return -1 if nfirst else 1
            if b is None:
                return 1 if nfirst else -1
            if a == b:
                return 0
            r = -1 if a < b else 1
            return -r if desc else r
        items = sorted(((bytes.fromhex(i), sk(s), l) for (i, s, l) in items if i is not None and s is not None), key=lambda x: x[0])
        is_str = t in ("Utf8", "Binary")
        for (k1, s1, l1), (k2, s2, l2) in zip(items, items[1:]):
            c = cmpk(s1, s2)
            if is_str:
                # prefix keys: a strict key order must agree with the full byte order; ties are
                # resolved by the heap comparison and say nothing
                bad = k1 != k2 and c > 0
            else:
                bad = (c > 0 or c == 0) if k1 != k2 else (c != 0)
            if bad and oracle_fail is None:
                oracle_fail = (t, d, nf, l1, k1.hex(), l2, k2.hex())
    if oracle_fail:
        t, d, nf, l1, k1, l2, k2 = oracle_fail
        ck.violation(f"sortkey/{t}/order", f"key bytes of {t} (desc={d},nulls_first={nf}) do not embed the declared order",
                     {"kind": "impl-vs-oracle", "case_a": l1, "key_a": k1, "case_b": l2, "key_b": k2,
                      "replay_cmd": f"{vlib.GVH} sortkey {ck.seed} {tier} | grep -A1 -F '{l1.split(' ',3)[3]}'"})
    elif diffs:
        # correspondence broken but the order oracle holds on everything explored
        n, line, impl, model = diffs[0]
        ck.violation("sortkey/correspondence", "Core/SortKey.lean no longer matches SortLayout::write_key_arrays",
                     {"kind": "model-vs-impl", "correspondence": "sortkey (Core/SortKey.lean encodeRow ~ sort_layout.rs write_key_arrays)",
                      "theorem": "GlareModel.Props.C08.key_row_embedding", "first_diff": {"case": line, "impl": impl, "model": model},
                      "n_diffs": len(diffs)}, found_input=False)


TYPES = [("TINYINT", "i8"), ("SMALLINT", "i16"), ("INT", "i32"), ("BIGINT", "i64"), ("DOUBLE", "f64"),
         ("REAL", "f32"), ("TEXT", "s"), ("BOOLEAN", "b"), ("DECIMAL(10,2)", "dec")]


def gen_value(rng, kind, pool):
    if rng.chance(1, 7):
        return "NULL"
    if pool and rng.chance(1, 2):
        return rng.pick(pool)
    if kind in ("i8", "i16", "i32", "i64"):
        bits = {"i8": 8, "i16": 16, "i32": 32, "i64": 64}[kind]
        lo, hi = -(1 << (bits - 1)), (1 << (bits - 1)) - 1
        c = rng.below(6)
        v = [lo, hi, 0, -1, rng.below(10) - 5, lo + rng.below(1 << bits)][c]
        v = max(lo, min(hi, v))
        # the most negative literal cannot be written directly for every width; use arithmetic-free cast of text
        return f"'{v}'"
    if kind in ("f64", "f32"):
        c = rng.below(10)
        if c == 0:
            return "'NaN'"
        if c == 1:
            return "'inf'"
        if c == 2:
            return "'-inf'"
        if c == 3:
            return "'-0.0'"
        if c == 4:
            return "'0.0'"
        if c == 5 and kind == "f64":
            return rng.pick(["'1.0000000002328306'", "'1.0'", "'1.0000000002328304'", "'-1.0000000002328306'", "'-1.0000000002328304'"])
        sign = "-" if rng.chance(1, 2) else ""
        return f"'{sign}{rng.below(1000)}.{rng.below(100000)}'"
    if kind == "s":
        n = rng.pick([0, 1, 3, 11, 12, 13, 20])
        alpha = ["a", "b", "A", "é", "z", " ", "\x01", "\x7f", "😀"]
        s = "".join(rng.pick(alpha) for _ in range(n))
        if rng.chance(1, 2):
            s = "aaaaaaaaaaaa" + s
        return sql_str(s)
    if kind == "b":
        return rng.pick(["true", "false"])
    if kind == "dec":
        return f"'{rng.below(2000) - 1000}.{rng.below(100):02d}'"
    raise ValueError(kind)


def sql_sort_component(ck, tier, runner):
    rng = Rng(ck.seed * 7919 + 13)
    ncases = 120 if tier == "quick" else 2500
    done = 0
    for case in range(ncases):
        ncols = 1 + rng.below(3)
        cols = [rng.pick(TYPES) for _ in range(ncols)]
        if ncols >= 2 and rng.chance(1, 2):
            cols[rng.below(ncols)] = TYPES[6]          # make sure a TEXT key is present often (prefix + heap comparison)
        nrows = rng.pick([0, 1, 2, 7, 40, 40, 300, 300, 2500] if tier == "quick" else [0, 1, 2, 7, 40, 300, 2500, 9000])
        pools = []
        rows = []
        for _ in range(nrows):
            row = []
            for ci, (_, kind) in enumerate(cols):
                while len(pools) <= ci:
                    pools.append([])
                v = gen_value(rng, kind, pools[ci])
                if v != "NULL" and len(pools[ci]) < 6:
                    pools[ci].append(v)
                row.append(v)
            rows.append(row)
        names = [f"c{i}" for i in range(ncols)]
        stmts = ["CREATE TEMP TABLE t (" + ", ".join(f"{n} {t}" for n, (t, _) in zip(names, cols)) + ")"]
        parts = rng.pick([1, 2, 3, 8, 16])
        # one INSERT feeds one partition: use several INSERTs so that several sorted runs exist and are merged
        per_insert = max(1, rng.pick([len(rows) // max(1, parts) + 1, 7, 50, 500]))
        stmts.append(f"SET partitions TO {parts}")
        for i in range(0, len(rows), per_insert):
            chunk = rows[i:i + per_insert]
            stmts.append("INSERT INTO t VALUES " + ", ".join("(" + ", ".join(r) + ")" for r in chunk))
        bsz = rng.pick([1, 2, 7, 64, 2048, 8192]) if nrows <= 400 else rng.pick([64, 500, 2048, 8192])
        stmts.append(f"SET batch_size TO {bsz}")
        stmts.append("SELECT * FROM t")
        # ORDER BY spec
        nkeys = 1 + rng.below(ncols)
        kcols = rng.shuffle(range(ncols))[:nkeys]
        if rng.chance(1, 3):
            kcols = list(range(ncols)) if rng.chance(1, 2) else kcols
        keys, obs = [], []
        for kc in kcols:
            desc = rng.chance(1, 2)
            np_ = rng.pick([None, True, False])
            nf = desc if np_ is None else np_      # default: NULLs largest
            keys.append((kc, desc, nf))
            obs.append(f"c{kc}" + (" DESC" if desc else rng.pick(["", " ASC"])) +
                       ("" if np_ is None else (" NULLS FIRST" if np_ else " NULLS LAST")))
        order_by = " ORDER BY " + ", ".join(obs)
        stmts.append("SELECT * FROM t" + order_by)
        lim = off = None
        if rng.chance(2, 3):
            b = bsz
            cands = [0, 1, 2, b - 1, b, b + 1, nrows - 1, nrows, nrows + 1, rng.below(nrows + 2)]
            lim = max(0, rng.pick(cands))
            off = max(0, rng.pick(cands)) if rng.chance(1, 2) else None
            stmts.append("SELECT * FROM t" + order_by + f" LIMIT {lim}" + (f" OFFSET {off}" if off is not None else ""))
            opt_off = rng.chance(1, 3)
            if opt_off:
                stmts.insert(len(stmts) - 1, "SET enable_optimizer TO false")
        res = runner.run(stmts, threads=rng.pick([1, 2, 4]), timeout=120)
        ck.count("sql_sort", 1)
        desc_case = {"stmts": [s if len(s) < 300 else s[:300] + "..." for s in stmts]}
        full_case = {"stmts": stmts}
        if isinstance(res, dict):
            ck.violation("sql_sort/crash", "engine process died or hung during ORDER BY script: " + json.dumps(res)[:200],
                         {"kind": "crash", **full_case, "result": res})
            continue
        errs = [r for r in res if "err" in r or "panic" in r]
        if errs:
            # setup failure (e.g. literal rejected): not a C08 verdict; count and continue
            ck.count("sql_sort_setup_errors", 1)
            ck.note("sql_sort_setup_errors", "last", str(errs[0])[:200])
            continue
        sel = [r for r, s in zip(res, stmts) if s.startswith("SELECT")]
        base = sel[0]["rows"]
        sorted_out = sel[1]["rows"]
        done += 1
        ck.nontrivial(("sql", case, nrows, tuple(obs), lim, off))
        if case < 2:
            ck.sample(desc_case)
        # oracle 1: permutation
        if bag(base) != bag(sorted_out):
            ck.violation("sql_sort/not_permutation", "ORDER BY output is not a permutation of its input",
                         {"kind": "impl-vs-oracle", **full_case, "input_rows": len(base), "output_rows": len(sorted_out)})
            continue
        # oracle 2: adjacent pairs respect the declaration
        cmpf = row_cmp(keys)
        bad = next((i for i in range(len(sorted_out) - 1) if cmpf(sorted_out[i], sorted_out[i + 1]) > 0), None)
        if bad is not None:
            kinds = "+".join(sorted({cols[k][1] for k, _, _ in keys}))
            ck.violation(f"sql_sort/unsorted/{kinds}", f"ORDER BY {', '.join(obs)}: adjacent rows {bad},{bad+1} violate the declared order",
                         {"kind": "impl-vs-oracle", **full_case, "row_a": sorted_out[bad], "row_b": sorted_out[bad + 1]})
            continue
        # oracle 3: LIMIT/OFFSET slice — key projection equals that of the sorted slice, rows come from the input
        if lim is not None:
            got = sel[2]["rows"]
            exp = sort_rows(base, keys)[(off or 0):(off or 0) + lim]
            proj = lambda rs: [[r[k] for k, _, _ in keys] for r in rs]
            keq = len(got) == len(exp) and all(row_cmp([(i, d, nf) for i, (_, d, nf) in enumerate(keys)])(a, b) == 0 for a, b in zip(proj(got), proj(exp)))
            inb = bag(base)
            sub = all(r in set(inb) for r in bag(got))
            total = len(keys) == ncols
            exact = (not total) or bag(got) == bag(exp)
            if not (keq and sub and exact):
                ck.violation("sql_sort/limit_slice", f"ORDER BY ... LIMIT {lim} OFFSET {off}: not the requested slice of the sorted sequence",
                             {"kind": "impl-vs-oracle", **full_case, "got": got[:20], "expected": exp[:20], "got_len": len(got), "exp_len": len(exp)})
    ck.note("sql_sort", "completed", done)


def main():
    tier = sys.argv[1] if len(sys.argv) > 1 else "quick"
    ck = vlib.Check("C08", tier)
    ck.coverage["rule"] = ("sortkey: exhaustive 8-bit/bool and (quick: 2 of 4 flag combos; thorough: all) 16-bit key domains, boundary-biased "
                           "wide values, strings around the 12-byte prefix, multi-column rows; distinct = distinct case text. "
                           "sql_sort: generated tables/ORDER BY/LIMIT/OFFSET scripts; distinct = (script index, rows, order-by, limit, offset)")
    ck.assumptions = ["Python comparator in tools/sqlutil.py is the SQL-level oracle (ints by value, floats by IEEE total order, strings byte-wise, false<true)",
                      "sort/merge operators (sorted_block.rs, binary_merge.rs, merge_queue.rs) are covered by the SQL-level oracle, not yet by a Lean model"]
    proof_ok = ck.proof_step()
    ok, blog, secs = vlib.build_harness()
    ck.coverage["harness_build_s"] = round(secs, 1)
    if not ok:
        ck.violation("harness/build", "harness does not build against /repo (internal API changed?)",
                     {"correspondence": "harness build", "log": blog[-1500:]}, found_input=False)
        sys.exit(ck.finish())
    sortkey_component(ck, tier)
    runner = vlib.SqlRunner()
    try:
        sql_sort_component(ck, tier, runner)
    finally:
        runner.close()
    if not proof_ok:
        ck.violation("proof/C08", "proof obligation of Props/C08.lean no longer checks", {"theorem": "GlareModel.Props.C08.*", "log": ck.broken_proof},
                     found_input=bool(ck.violations))
    sys.exit(ck.finish())


if __name__ == "__main__":
    main()
