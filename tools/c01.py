#!/usr/bin/env python3
"""C01 — SELECT results equal SQL bag semantics for every query and database."""
import sys

import qgen
import vlib
from semdiff import SemDiff
from sqlutil import Rng, bag

# aggregate DISTINCT/FILTER modifiers belong to C07, subquery predicates to C09
FEATS = {"join", "outer", "semi", "agg", "distinct", "union", "limit", "case", "inlist"}


# Minimized past failures of SELECT semantics (all repaired by fix: commits): they run first, in every tier, under 1 and 4 threads.
# (setup, query, expected rows as the harness prints them; None = ordered comparison not needed)
T_U = ["CREATE TEMP TABLE t (a BIGINT)", "INSERT INTO t VALUES (1), (2), (NULL)", "CREATE TEMP TABLE u (b BIGINT)", "INSERT INTO u VALUES (1), (NULL)"]
SIX = ["CREATE TEMP TABLE s6 (a BIGINT)", "INSERT INTO s6 VALUES (1), (2), (3), (4), (5), (6)"]
CORPUS = [
    ("F37 exists, NULL correlation value", T_U, "SELECT a FROM t WHERE EXISTS (SELECT 1 FROM u WHERE t.a IS NULL OR u.b = t.a)", [["1"], [None]]),
    ("F37 not exists, predicate true for the NULL row", ["CREATE TEMP TABLE r1 (k0 BIGINT, k1 BOOLEAN, k2 BOOLEAN)", "INSERT INTO r1 VALUES (-1, NULL, true)", "CREATE TEMP TABLE r2 (k0 BIGINT, k1 BOOLEAN)", "INSERT INTO r2 VALUES (-1, false)"],
     "SELECT k0 FROM r1 WHERE NOT EXISTS (SELECT 1 FROM r2 WHERE r1.k0 = r2.k0 AND (r1.k2 OR r1.k1))", []),
    ("F66 constant IN subquery", T_U, "SELECT a FROM t WHERE 1 IN (SELECT b FROM u)", [["1"], ["2"], [None]]),
    ("F66 two constant IN subqueries", T_U, "SELECT a FROM t WHERE 1 IN (SELECT b FROM u) AND 7 IN (SELECT b FROM u)", []),
    ("F38 exists over a left join", T_U, "SELECT a FROM t WHERE EXISTS (SELECT 1 FROM t t2 LEFT JOIN u ON t2.a = u.b WHERE t2.a = t.a)", [["1"], ["2"]]),
    ("F64 exists with a correlated scalar aggregate", ["CREATE TEMP TABLE e1 (k0 BIGINT, k1 BIGINT)", "INSERT INTO e1 VALUES (NULL,12345),(-1,NULL),(-22,-42),(-1000,-31),(4,NULL)"],
     "SELECT count(*) FROM e1 q1 WHERE EXISTS (SELECT 1 FROM e1 q4 WHERE q4.k0 <> (SELECT sum(q7.k1) FROM e1 q7 WHERE q7.k0 = q4.k0))", [["5"]]),
    ("F34 three-valued AND under NOT BETWEEN", SIX, "SELECT a FROM s6 WHERE a NOT BETWEEN 5 AND NULL", [["1"], ["2"], ["3"], ["4"]]),
    ("F16 CASE under a selection", SIX, "SELECT a FROM s6 WHERE a > 2 AND (CASE WHEN a > 3 THEN true ELSE false END)", [["4"], ["5"], ["6"]]),
    ("F67 typed NULL from constant folding in a union", [], "SELECT list_extract([1, 2], 4) AS r UNION ALL SELECT 3", [["3"], [None]]),
]


def corpus(ck, runner):
    comp = "regression_corpus"
    for what, setup, sql, exp in CORPUS:
        for threads in (1, 4):
            stmts = [f"SET partitions TO {threads}"] + setup + [sql]
            res = runner.run(stmts, threads=threads, timeout=60)
            ck.count(comp, 1)
            ck.nontrivial((comp, sql, threads))
            if isinstance(res, dict):
                ck.violation("corpus/crash-or-hang", f"{what}: the query hangs or kills the process with {threads} partitions: {sql}", {"kind": "crash", "stmts": stmts, "result": res})
                continue
            last = res[-1]
            if "rows" not in last or bag(last["rows"]) != bag(exp):
                ck.violation("corpus/wrong-rows", f"{what}: {sql} returns {str(last.get('rows', last))[:200]}, SQL semantics prescribe {exp}", {"kind": "impl-vs-oracle", "stmts": stmts, "engine": last.get("rows", last), "expected": exp})


def run(ck, tier, runner):
    corpus(ck, runner)
    rng = Rng(ck.seed * 1009 + 1)
    sd = SemDiff(ck, runner, "sem_default")
    ndb = 100 if tier == "quick" else 3000
    per_db = 8
    for d in range(ndb):
        big = d % 12 == 11
        db = qgen.gen_db(rng, ntables=3, max_rows=rng.pick([8, 30, 60]), big=big)
        g = qgen.Gen(rng, db, FEATS)
        queries, keys = [], []
        for _ in range(per_db if not big else 3):
            q, ty = g.query(rng.pick([1, 2, 3, 3, 4]) if not big else rng.pick([1, 2]))
            if qgen.excluded(q):
                continue
            if rng.chance(1, 3) and ty:
                q, ks = qgen.top_sort(rng, q, ty)
                keys.append([(k, k[0][1]) for k in ks])
            else:
                keys.append(None)
            queries.append(q)
        sd.check(db, queries, [("default", [])], inserts=rng.pick([1, 1, 3]), sort_keys=keys)
        if d < 2:
            ck.sample({"query": qgen.sexp(queries[0])[:400], "sql": qgen.Renderer(g.schema).query(queries[0])[:600]})
    sd.finish()


def main():
    tier = sys.argv[1] if len(sys.argv) > 1 else "quick"
    ck = vlib.Check("C01", tier)
    ck.coverage["rule"] = ("typed random queries (depth <= 4) over the algebra scan/values/filter/project/join(inner,left,right,cross,semi,anti)/agg(+DISTINCT,FILTER)/distinct/"
                           "union/sort/limit/uncorrelated subqueries, rendered as nested derived tables; 3 random tables per database incl. empty, NULL-heavy, duplicate-heavy and "
                           ">512-group tables; engine result compared with Sem (Lean) as a bag and as a key sequence under ORDER BY; distinct = distinct query term")
    ck.assumptions = ["Sem (lean/GlareModel/Core/Sem.lean) is the definition of 'the rows SQL semantics prescribe' for the modelled fragment",
                      "engine errors on valid-but-unsupported SQL are counted (engine_rejects), not violations"]
    proof_ok = ck.proof_step()
    ok, blog, secs = vlib.build_harness()
    if not ok:
        ck.violation("harness/build", "harness does not build against /repo", {"correspondence": "harness build", "log": blog[-1500:]}, found_input=False)
        sys.exit(ck.finish())
    runner = vlib.SqlRunner()
    try:
        run(ck, tier, runner)
    finally:
        runner.close()
    if not proof_ok:
        ck.violation("proof/C01", "proof obligation of Props/C01.lean no longer checks", {"theorem": "GlareModel.Props.C01.*", "log": ck.broken_proof}, found_input=bool(ck.violations))
    sys.exit(ck.finish())


if __name__ == "__main__":
    main()
