#!/usr/bin/env python3
"""C01 — SELECT results equal SQL bag semantics for every query and database."""
import sys

import qgen
import vlib
from semdiff import SemDiff
from sqlutil import Rng

# aggregate DISTINCT/FILTER modifiers belong to C07, subquery predicates to C09
FEATS = {"join", "outer", "semi", "agg", "distinct", "union", "limit", "case", "inlist"}


def run(ck, tier, runner):
    rng = Rng(ck.seed * 1009 + 1)
    sd = SemDiff(ck, runner, "sem_default")
    ndb = 100 if tier == "quick" else 3000
    per_db = 8
    for d in range(ndb):
        big = d % 12 == 11
        db = qgen.gen_db(rng, ntables=3, max_rows=rng.pick([8, 30, 60]), big=big)
        g = qgen.Gen(rng, db, FEATS)
        queries, keys = [], []
        for _ in range(per_db if not big else 3):
            q, ty = g.query(rng.pick([1, 2, 3, 3, 4]) if not big else rng.pick([1, 2]))
            if qgen.excluded(q):
                continue
            if rng.chance(1, 3) and ty:
                q, ks = qgen.top_sort(rng, q, ty)
                keys.append([(k, k[0][1]) for k in ks])
            else:
                keys.append(None)
            queries.append(q)
        sd.check(db, queries, [("default", [])], inserts=rng.pick([1, 1, 3]), sort_keys=keys)
        if d < 2:
            ck.sample({"query": qgen.sexp(queries[0])[:400], "sql": qgen.Renderer(g.schema).query(queries[0])[:600]})
    sd.finish()


def main():
    tier = sys.argv[1] if len(sys.argv) > 1 else "quick"
    ck = vlib.Check("C01", tier)
    ck.coverage["rule"] = ("typed random queries (depth <= 4) over the algebra scan/values/filter/project/join(inner,left,right,cross,semi,anti)/agg(+DISTINCT,FILTER)/distinct/"
                           "union/sort/limit/uncorrelated subqueries, rendered as nested derived tables; 3 random tables per database incl. empty, NULL-heavy, duplicate-heavy and "
                           ">512-group tables; engine result compared with Sem (Lean) as a bag and as a key sequence under ORDER BY; distinct = distinct query term")
    ck.assumptions = ["Sem (lean/GlareModel/Core/Sem.lean) is the definition of 'the rows SQL semantics prescribe' for the modelled fragment",
                      "engine errors on valid-but-unsupported SQL are counted (engine_rejects), not violations"]
    proof_ok = ck.proof_step()
    ok, blog, secs = vlib.build_harness()
    if not ok:
        ck.violation("harness/build", "harness does not build against /repo", {"correspondence": "harness build", "log": blog[-1500:]}, found_input=False)
        sys.exit(ck.finish())
    runner = vlib.SqlRunner()
    try:
        run(ck, tier, runner)
    finally:
        runner.close()
    if not proof_ok:
        ck.violation("proof/C01", "proof obligation of Props/C01.lean no longer checks", {"theorem": "GlareModel.Props.C01.*", "log": ck.broken_proof}, found_input=bool(ck.violations))
    sys.exit(ck.finish())


if __name__ == "__main__":
    main()
