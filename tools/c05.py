#!/usr/bin/env python3
"""C05 — Scalar operators and functions follow their definition on all values, in every evaluation context."""
import itertools

import qgen
from qgen import INT, STR, BOOL
from semcheck import run_check
from semdiff import SemDiff
from sqlutil import Rng

FEATS = {"case", "inlist", "distinct_from"}


def subst(e, row, types):
    """Replace (col i) by the literal of the row: the literal-only (constant-folded) context."""
    if isinstance(e, tuple):
        if e and e[0] == "col":
            return ("lit", row[e[1]], types[e[1]])
        if e and e[0] == "lit":
            return e
        return tuple(subst(x, row, types) if isinstance(x, (tuple, list)) else x for x in e)
    if isinstance(e, list):
        return [subst(x, row, types) for x in e]
    return e


def contexts(rng, g, e, ety, types, rows):
    """The same expression in the evaluation contexts the property names."""
    scan = ("scan", "t0")
    out = [("column", ("project", [("col", 0), e], scan))]
    pred = ("<", ("col", 0), ("lit", rng.pick([1, 2, 3]), INT))
    out.append(("under_selection", ("project", [("col", 0), e], ("filter", pred, scan))))
    cond = g.expr(types, BOOL, 1)
    els = ("lit", None, ety)
    out.append(("case_branch", ("project", [("col", 0), ("case", [(cond, e)], els)], scan)))
    out.append(("second_when", ("project", [("col", 0), ("case", [(("lit", False), els), (cond, e)], e)], scan)))
    out.append(("and_short_circuit", ("project", [("col", 0), e], ("filter", ("and", pred, ("isnotnull", ("col", 0))), scan))))
    dup = [("col", 0), e, e]
    if ety == INT:
        dup.append(("+", e, ("lit", 0, INT)))
    if ety == BOOL:
        dup.append(("not", e))
    out.append(("cse_duplicate", ("project", dup, scan)))
    if ety == BOOL:
        # join condition: e over the left columns, AND an equality so that both join algorithms apply
        w = len(types)
        on = ("and", ("=", ("col", 0), ("col", w)), e)
        out.append(("join_condition", ("join", rng.pick(["inner", "left"]), on, scan, scan)))
        out.append(("where", ("filter", e, scan)))
    # literal-only: one VALUES row per table row (at most 12 rows)
    lits = [[("lit", r[0], INT), subst(e, r, types)] for r in rows[:12]]
    if lits:
        out.append(("constant_folded", ("values", lits)))
    return out


def truth_tables(sd, ck):
    """Exhaustive small domains: booleans x booleans for AND/OR/NOT, {NULL,-1,0,1}^2 for comparisons and arithmetic."""
    bvals = [None, True, False]
    brows = [[i, a, b] for i, (a, b) in enumerate(itertools.product(bvals, bvals))]
    db = {"t0": ([INT, BOOL, BOOL], brows)}
    qs = []
    for op in ("and", "or"):
        qs.append(("project", [("col", 0), (op, ("col", 1), ("col", 2)), (op, ("col", 2), ("col", 1)), ("not", (op, ("col", 1), ("col", 2)))], ("scan", "t0")))
        qs.append(("filter", (op, ("col", 1), ("col", 2)), ("scan", "t0")))
        qs.append(("filter", ("not", (op, ("col", 1), ("col", 2))), ("scan", "t0")))
        qs.append(("values", [[("lit", i, INT), (op, ("lit", a, BOOL), ("lit", b, BOOL))] for i, a, b in brows]))
    qs.append(("project", [("col", 0), ("not", ("col", 1)), ("isnull", ("col", 1)), ("isnotnull", ("col", 2)), ("coalesce", [("col", 1), ("col", 2)])], ("scan", "t0")))
    sd.check(db, qs, [("opt_on", []), ("opt_off", ["SET enable_optimizer TO false"])])
    ivals = [None, -1, 0, 1, 2]
    irows = [[i, a, b] for i, (a, b) in enumerate(itertools.product(ivals, ivals))]
    db = {"t0": ([INT, INT, INT], irows)}
    qs = []
    for op in ("=", "<>", "<", "<=", ">", ">=", "+", "-", "*"):
        qs.append(("project", [("col", 0), (op, ("col", 1), ("col", 2))], ("scan", "t0")))
        qs.append(("values", [[("lit", i, INT), (op, ("lit", a, INT), ("lit", b, INT))] for i, a, b in irows]))
        qs.append(("project", [("col", 0), (op, ("col", 1), ("lit", 1, INT)), (op, ("lit", None, INT), ("col", 2))], ("scan", "t0")))     # constant-array operands
    qs.append(("project", [("col", 0), ("between", ("col", 1), ("col", 2), ("lit", 1, INT)), ("in", ("col", 1), [("lit", 0, INT), ("lit", None, INT), ("col", 2)]), ("neg", ("col", 1))], ("scan", "t0")))
    sd.check(db, qs, [("opt_on", []), ("opt_off", ["SET enable_optimizer TO false"])])
    # IS [NOT] DISTINCT FROM: all type classes, with the left / right / both / neither column free of NULLs in the batch
    # (the kernels have an all-valid fast path that depends on each input's validity separately)
    for lnull, rnull in ((False, True), (True, False), (True, True), (False, False)):
        for ty, vals in ((BOOL, [True, False]), (INT, [0, 1, -1]), (STR, ["", "a", "aaaaaaaaaaaaa"])):
            lv = vals + ([None] if lnull else [])
            rv = vals + ([None] if rnull else [])
            rows = [[i, a, b] for i, (a, b) in enumerate(itertools.product(lv, rv))]
            db = {"t0": ([INT, ty, ty], rows)}
            qs = [("project", [("col", 0), ("isdistinct", ("col", 1), ("col", 2)), ("isnotdistinct", ("col", 1), ("col", 2)), ("isdistinct", ("col", 2), ("col", 1))], ("scan", "t0")),
                  ("filter", ("isnotdistinct", ("col", 1), ("col", 2)), ("scan", "t0")),
                  ("project", [("col", 0), ("isdistinct", ("col", 1), ("lit", None, ty)), ("isnotdistinct", ("lit", None, ty), ("col", 2))], ("scan", "t0")),
                  ("values", [[("lit", i, INT), ("isdistinct", ("lit", a, ty), ("lit", b, ty))] for i, a, b in rows])]
            sd.check(db, qs, [("opt_on", [])])
    svals = [None, "", "a", "ab", "b", "é", "aaaaaaaaaaaaa", "aaaaaaaaaaaab"]
    srows = [[i, a, b] for i, (a, b) in enumerate(itertools.product(svals, svals))]
    db = {"t0": ([INT, STR, STR], srows)}
    qs = [("project", [("col", 0), (op, ("col", 1), ("col", 2))], ("scan", "t0")) for op in ("=", "<>", "<", "<=", ">", ">=")]
    sd.check(db, qs, [("opt_on", [])])


def body(ck, tier, runner):
    rng = Rng(ck.seed * 8009 + 5)
    sd = SemDiff(ck, runner, "contexts")
    truth_tables(sd, ck)
    n = 200 if tier == "quick" else 2500
    ctx_count = {}
    for d in range(n):
        types = [INT, rng.pick([INT, STR]), BOOL, INT]
        rows = [[i % 5 if rng.chance(4, 5) else None] + [qgen.gen_value(rng, t, 20) for t in types[1:]] for i in range(rng.pick([3, 8, 20]))]
        db = {"t0": (types, rows)}
        g = qgen.Gen(rng, db, FEATS)
        queries, names = [], []
        for _ in range(3):
            ety = rng.pick([INT, BOOL, BOOL, STR])
            e = g.expr(types, ety, rng.pick([2, 3]))
            for name, q in contexts(rng, g, e, ety, types, rows):
                if qgen.excluded(q):
                    continue
                queries.append(q)
                names.append(name)
                ctx_count[name] = ctx_count.get(name, 0) + 1
        cfgs = [("default", [f"SET batch_size TO {rng.pick([2048, 4])}"]), ("opt_off", ["SET enable_optimizer TO false"])]
        sd.check(db, queries, cfgs, inserts=rng.pick([1, 2]))
        if d < 2:
            ck.sample({"expr_contexts": [(nm, qgen.sexp(q)[:200]) for nm, q in zip(names[:4], queries[:4])]})
    ck.note("contexts", "per_context", ctx_count)
    sd.finish()


if __name__ == "__main__":
    run_check("C05",
              "exhaustive truth tables ({NULL,TRUE,FALSE}^2 for AND/OR/NOT incl. under NOT and in WHERE; {NULL,-1,0,1,2}^2 for comparisons and + - *; 8x8 strings for comparisons incl. >12-byte values) "
              "in column, constant-operand and literal-only form with the optimizer on and off; random typed expressions (arithmetic, comparison, 3VL, IS NULL, CASE, COALESCE, IN, BETWEEN) each evaluated "
              "in the contexts column / under a selection / inside a CASE branch / second WHEN / after an AND short-circuit / duplicated for CSE / join condition / WHERE / literal-only; all must equal Sem.evalE; "
              "distinct = distinct query term",
              ["Sem.evalE is the definition of each operator", "integer overflow/division (C12), casts (C13), string functions (C20) have their own checks; float functions are not modelled"],
              body)
