#!/usr/bin/env python3
"""C06 — Joins return exactly the defined pairs and unmatched rows."""
import qgen
from semcheck import run_check
from semdiff import SemDiff
from sqlutil import Rng

KINDS = ["inner", "left", "right", "cross", "semi", "anti"]


def key_table(rng, n, distinct, null_pct, extra):
    """(types, rows): k0 join key with controlled duplicates/NULLs, k1 second key, extra payload column."""
    types = [qgen.INT, qgen.INT, extra]
    rows = []
    for i in range(n):
        k = None if rng.below(100) < null_pct else rng.below(max(1, distinct))
        k2 = None if rng.below(100) < null_pct else rng.below(4)
        rows.append([k, k2, qgen.gen_value(rng, extra, 10)])
    return types, rows


def join_cond(rng, wl):
    shapes = rng.below(7)
    eq = ("=", ("col", 0), ("col", wl))
    eq2 = ("=", ("col", 1), ("col", wl + 1))
    ineq = (rng.pick(["<", "<=", ">", ">=", "<>"]), ("col", 1), ("col", wl + 1))
    if shapes == 0:
        return eq
    if shapes == 1:
        return ("and", eq, eq2)
    if shapes == 2:
        return ("and", eq, ineq)
    if shapes == 3:
        return ineq
    if shapes == 4:
        return ("=", ("+", ("col", 0), ("lit", 1, qgen.INT)), ("col", wl))       # expression on key
    if shapes == 5:
        return ("and", eq, ("or", ("isnull", ("col", 1)), ineq))
    return ("and", ("and", eq, eq2), ineq)


def body(ck, tier, runner):
    rng = Rng(ck.seed * 4001 + 6)
    sd = SemDiff(ck, runner, "joins")
    ncase = 500 if tier == "quick" else 5000
    for d in range(ncase):
        nl = rng.pick([0, 1, 3, 8, 20, 60, 150])
        nr = rng.pick([0, 1, 3, 8, 20, 60, 150])
        distinct = rng.pick([1, 2, 5, 20, 200])
        tl = key_table(rng, nl, distinct, rng.pick([0, 10, 40]), rng.pick([qgen.INT, qgen.STR]))
        tr = key_table(rng, nr, distinct, rng.pick([0, 10, 40]), rng.pick([qgen.INT, qgen.STR, qgen.BOOL]))
        db = {"t0": tl, "t1": tr}
        queries = []
        for k in rng.shuffle(KINDS)[:4]:
            on = join_cond(rng, 3) if k != "cross" else ("lit", True)
            # (EXISTS whose predicate is TRUE for a NULL outer value used to be regenerated here: the `=` join-back of the
            # decorrelation lost those rows - F37, repaired; the join back is now a hash join on IS NOT DISTINCT FROM)
            q = ("join", k, on, ("scan", "t0"), ("scan", "t1"))
            if rng.chance(1, 3):
                # join of a join (lateral-free chain), or aggregate on top so that huge cross products stay comparable
                q = ("agg", [], [("count_star", False, ("lit", None), None), ("sum", False, ("col", 0), None)], q)
            queries.append(q)
        b = rng.pick([4, 16, 64, 2048])
        cfgs = []
        for h in (True, False):
            p = rng.pick([1, 2, 4, 16])
            cfgs.append((f"p{p}_b{b}_{'hash' if h else 'nl'}", [f"SET partitions TO {p}", f"SET batch_size TO {b}", f"SET enable_hash_joins TO {'true' if h else 'false'}"]))
        sd.check(db, queries, cfgs, inserts=rng.pick([1, 2, 4]))
        if d < 2:
            ck.sample({"query": qgen.sexp(queries[0]), "sql": qgen.Renderer({'t0': tl[0], 't1': tr[0]}).query(queries[0])[:500], "configs": [c[0] for c in cfgs]})
    sd.finish()


if __name__ == "__main__":
    run_check("C06",
              "two key tables (0-150 rows, 1-200 distinct keys, 0-40% NULL keys, duplicates) joined with every kind inner/left/right/cross/semi(EXISTS)/anti(NOT EXISTS) and condition shapes "
              "(single/multiple equality, equality+inequality, inequality only, expression on key, OR with IS NULL), each under hash join and nested-loop join with batch sizes 4..2048 and "
              "1..16 partitions, rows spread over 1-4 INSERTs; all runs must equal Sem.join; distinct = distinct (query term, data) pair",
              ["Sem is the reference", "FULL JOIN is rejected by the engine (unsupported)"],
              body)
