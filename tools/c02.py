#!/usr/bin/env python3
"""C02 — The optimizer never changes what a query returns."""
import qgen
from semcheck import run_check, gen_queries
from semdiff import SemDiff
from sqlutil import Rng

FEATS = {"join", "outer", "semi", "agg", "distinct", "union", "limit", "case", "inlist", "rollup"}
CONFIGS = [("optimizer_on", ["SET enable_optimizer TO true"]), ("optimizer_off", ["SET enable_optimizer TO false"])]


def wrap(rng, g, q, ty):
    """Bias toward the rewrite passes: filters above joins/aggregates/unions/limits, projections that duplicate or drop columns."""
    for _ in range(1 + rng.below(2)):
        c = rng.below(4)
        if c <= 1:
            q = ("filter", g.expr(ty, qgen.BOOL, 2), q)
        elif c == 2:
            idx = [rng.below(len(ty)) for _ in range(1 + rng.below(3))]
            q, ty = ("project", [("col", i) for i in idx], q), [ty[i] for i in idx]
        else:
            q = ("distinct", q)
    return q, ty


def probes(ck, runner):
    q = "SELECT count(*) FROM (VALUES (1),(2)) v(a) WHERE (a > 0 OR (a > 0 AND a > 5))"
    res = runner.run(["SET enable_optimizer TO true", q, "SET enable_optimizer TO false", q], timeout=30)
    bad = isinstance(res, dict) or res[1].get("rows") != res[3].get("rows")
    ck.probe("optimizer/distributive_or/absorption",
             "x OR (x AND y) is rewritten to x AND y by the distributive-OR pass (should be x): optimizer on/off differ",
             {"kind": "impl-vs-oracle", "sql": q, "optimizer_on": res[1] if not isinstance(res, dict) else res, "optimizer_off": res[3] if not isinstance(res, dict) else None}, bad)


def body(ck, tier, runner):
    probes(ck, runner)
    rng = Rng(ck.seed * 2003 + 2)
    sd = SemDiff(ck, runner, "opt_on_off")
    ndb = 60 if tier == "quick" else 2500
    for d in range(ndb):
        db = qgen.gen_db(rng, ntables=3, max_rows=rng.pick([6, 20, 40]), big=(d % 20 == 19))
        g = qgen.Gen(rng, db, FEATS)
        queries, keys = [], []
        base, bkeys = gen_queries(rng, g, 6, [1, 2, 3, 3], sort_pct=0)
        r = qgen.Renderer(g.schema)
        for q in base:
            ty_n = r.width(q)
            # recover types by regenerating is costly; use wrappers that only need column count: filters over ints are typed by the generator
            queries.append(q)
            keys.append(None)
        # explicitly wrapped variants (typed): generate fresh with types
        for _ in range(4):
            q, ty = g.query(rng.pick([1, 2, 3]))
            q, ty = wrap(rng, g, q, ty)
            if qgen.has_or_absorption(q):
                continue
            if rng.chance(1, 3):
                q, ks = qgen.top_sort(rng, q, ty)
                keys.append([(k, k[0][1]) for k in ks])
            else:
                keys.append(None)
            queries.append(q)
        sd.check(db, queries, CONFIGS, inserts=rng.pick([1, 2]), sort_keys=keys)
        if d < 2:
            ck.sample({"query": qgen.sexp(queries[-1])[:400], "configs": [c[0] for c in CONFIGS]})
    sd.finish()


if __name__ == "__main__":
    run_check("C02",
              "each generated query (joins incl. outer/semi/anti, aggregates, ROLLUP/CUBE, DISTINCT, UNION, LIMIT over total ORDER BY, CASE, IN lists; extra filters/projections/"
              "DISTINCT wrapped above to trigger pushdown, pruning and CSE) is executed with enable_optimizer on and off in fresh sessions; both must equal Sem (Lean) and hence each other; "
              "distinct = distinct query term",
              ["Sem is the reference; an engine error under one setting and rows under the other is reported as a disagreement",
               "predicates of the shape X OR (X AND Y) are not generated (known finding F35, distributive-OR rewrite)"],
              body)
