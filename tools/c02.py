#!/usr/bin/env python3
"""C02 — The optimizer never changes what a query returns."""
import qgen
from semcheck import run_check, gen_queries
from semdiff import SemDiff
from sqlutil import Rng

FEATS = {"join", "outer", "semi", "agg", "distinct", "union", "limit", "case", "inlist", "rollup"}
CONFIGS = [("optimizer_on", ["SET enable_optimizer TO true"]), ("optimizer_off", ["SET enable_optimizer TO false"])]


def wrap(rng, g, q, ty):
    """Bias toward the rewrite passes: filters above joins/aggregates/unions/limits, projections that duplicate or drop columns."""
    for _ in range(1 + rng.below(2)):
        c = rng.below(4)
        if c <= 1:
            q = ("filter", g.expr(ty, qgen.BOOL, 2), q)
        elif c == 2:
            idx = [rng.below(len(ty)) for _ in range(1 + rng.below(3))]
            q, ty = ("project", [("col", i) for i in idx], q), [ty[i] for i in idx]
        else:
            q = ("distinct", q)
    return q, ty


def probes(ck, runner):
    q = "SELECT count(*) FROM (VALUES (1),(2)) v(a) WHERE (a > 0 OR (a > 0 AND a > 5))"
    res = runner.run(["SET enable_optimizer TO true", q, "SET enable_optimizer TO false", q], timeout=30)
    bad = isinstance(res, dict) or res[1].get("rows") != res[3].get("rows")
    ck.probe("optimizer/distributive_or/absorption",
             "x OR (x AND y) is rewritten to x AND y by the distributive-OR pass (should be x): optimizer on/off differ",
             {"kind": "impl-vs-oracle", "sql": q, "optimizer_on": res[1] if not isinstance(res, dict) else res, "optimizer_off": res[3] if not isinstance(res, dict) else None}, bad)


def atom(rng, col, ty):
    if ty == qgen.INT:
        return (rng.pick(["=", "=", "<", ">=", "<>"]), ("col", col), ("lit", rng.below(7) - 2, qgen.INT))
    if ty == qgen.STR:
        return (rng.pick(["=", "<>", "<"]), ("col", col), ("lit", rng.pick(qgen.STR_POOL), qgen.STR))
    return ("col", col) if rng.chance(1, 2) else ("not", ("col", col))


def targeted(rng, g):
    """Shapes aimed at specific rewrite rules: (a) filter on grouping columns above ROLLUP/CUBE (pushdown through
    aggregates is only valid for columns in every grouping set); (b) OR of conjunctions spanning both sides of a join
    (join-filter OR rewrite, distributive OR); (c) filter on the nullable side above an outer join; (d) LIMIT above UNION/join."""
    out = []
    tabs = sorted(g.schema)
    # (a)
    t = rng.pick(tabs)
    ty = g.schema[t]
    n = min(2, len(ty))
    groups = [("col", i) for i in rng.shuffle(range(len(ty)))[:n]]
    kind = rng.pick(["rollup", "cube"])
    sets = [list(range(k)) for k in range(n, -1, -1)] if kind == "rollup" else [[i for i in range(n) if (m >> (n - 1 - i)) & 1] for m in range(2 ** n - 1, -1, -1)]
    aggs = [("count_star", False, ("lit", None), None), (rng.pick(["min", "max"]), False, ("col", rng.below(len(ty))), None)]
    aq = ("aggsets", groups, sets, aggs, ("scan", t), kind)
    gty = [ty[gc[1]] for gc in groups]
    gi = rng.below(n)
    pred = atom(rng, gi, gty[gi])
    if rng.chance(1, 3):
        pred = ("isnotnull", ("col", gi))
    out.append((("filter", pred, aq), gty + [qgen.INT, ty[aggs[1][2][1]]]))
    # (b) and (c)
    t1, t2 = rng.pick(tabs), rng.pick(tabs)
    ty1, ty2 = g.schema[t1], g.schema[t2]
    both = ty1 + ty2
    a1 = atom(rng, rng.below(len(ty1)), None) if False else None
    i1, i2 = rng.below(len(ty1)), len(ty1) + rng.below(len(ty2))
    j2 = len(ty1) + rng.below(len(ty2))
    left_atom, right_atom, right_atom2 = atom(rng, i1, both[i1]), atom(rng, i2, both[i2]), atom(rng, j2, both[j2])
    branches = [right_atom, ("and", left_atom, right_atom2)]
    if rng.chance(1, 2):
        branches.reverse()
    orp = ("or", branches[0], branches[1])
    kind = rng.pick(["cross", "inner"])
    on = ("lit", True) if kind == "cross" else ("=", ("col", 0), ("col", len(ty1)))
    if kind == "inner" and rng.chance(1, 2):
        out.append((("join", "inner", orp, ("scan", t1), ("scan", t2)), both))
    else:
        out.append((("filter", orp, ("join", kind, on, ("scan", t1), ("scan", t2))), both))
    ok = rng.pick(["left", "right"])
    null_side_col = i2 if ok == "left" else i1
    p2 = atom(rng, null_side_col, both[null_side_col])
    if rng.chance(1, 3):
        p2 = ("isnull", ("col", null_side_col))
    out.append((("filter", p2, ("join", ok, ("=", ("col", 0), ("col", len(ty1))), ("scan", t1), ("scan", t2))), both))
    # (d)
    u = ("union", True, ("scan", t1), ("project", [g.expr(ty2, tt, 1) for tt in ty1], ("scan", t2)))
    keys = [(("col", i), rng.chance(1, 2), rng.chance(1, 2)) for i in range(len(ty1))]
    out.append((("limit", rng.pick([1, 2, 3, 5]), rng.pick([0, 1]), ("sort", keys, u)), ty1))
    return out


def body(ck, tier, runner):
    probes(ck, runner)
    rng = Rng(ck.seed * 2003 + 2)
    sd = SemDiff(ck, runner, "opt_on_off")
    ndb = 200 if tier == "quick" else 2500
    for d in range(ndb):
        big = d % (40 if tier == "quick" else 20) == 19        # 300-1500 row tables: the Lean reference evaluator needs seconds per query on them
        db = qgen.gen_db(rng, ntables=3, max_rows=rng.pick([6, 20, 40]), big=big)
        g = qgen.Gen(rng, db, FEATS)
        queries, keys = [], []
        base, bkeys = gen_queries(rng, g, 6, [1, 2, 3, 3] if not big else [1, 1, 2], sort_pct=0)
        r = qgen.Renderer(g.schema)
        for q in base:
            ty_n = r.width(q)
            # recover types by regenerating is costly; use wrappers that only need column count: filters over ints are typed by the generator
            queries.append(q)
            keys.append(None)
        # explicitly wrapped variants (typed): generate fresh with types
        for _ in range(4):
            q, ty = g.query(rng.pick([1, 2, 3]) if not big else 1)
            q, ty = wrap(rng, g, q, ty)
            if qgen.excluded(q):
                continue
            if rng.chance(1, 3):
                q, ks = qgen.top_sort(rng, q, ty)
                keys.append([(k, k[0][1]) for k in ks])
            else:
                keys.append(None)
            queries.append(q)
        for _ in range(2 if not big else 0):
            for q, ty in targeted(rng, g):
                if not qgen.excluded(q):
                    queries.append(q)
                    keys.append(None)
        sd.check(db, queries, CONFIGS, inserts=rng.pick([1, 2]), sort_keys=keys)
        if d < 2:
            ck.sample({"query": qgen.sexp(queries[-1])[:400], "configs": [c[0] for c in CONFIGS]})
    sd.finish()


if __name__ == "__main__":
    run_check("C02",
              "each generated query (joins incl. outer/semi/anti, aggregates, ROLLUP/CUBE, DISTINCT, UNION, LIMIT over total ORDER BY, CASE, IN lists; extra filters/projections/"
              "DISTINCT wrapped above to trigger pushdown, pruning and CSE) is executed with enable_optimizer on and off in fresh sessions; both must equal Sem (Lean) and hence each other; "
              "distinct = distinct query term",
              ["Sem is the reference; an engine error under one setting and rows under the other is reported as a disagreement",
               "predicates of the shape X OR (X AND Y) are not generated (known finding F35, distributive-OR rewrite)"],
              body)
