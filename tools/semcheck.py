"""Shared main() for the Sem-differential checks (C01, C02, C03, C06, C07, C09)."""
import sys

import qgen
import vlib
from semdiff import SemDiff
from sqlutil import Rng


def run_check(prop, rule, assumptions, body):
    tier = sys.argv[1] if len(sys.argv) > 1 else "quick"
    ck = vlib.Check(prop, tier)
    ck.coverage["rule"] = rule
    ck.assumptions = assumptions
    proof_ok = ck.proof_step()
    ok, blog, secs = vlib.build_harness()
    ck.coverage["harness_build_s"] = round(secs, 1)
    if not ok:
        ck.violation("harness/build", "harness does not build against /repo", {"correspondence": "harness build", "log": blog[-1500:]}, found_input=False)
        sys.exit(ck.finish())
    runner = vlib.SqlRunner()
    try:
        body(ck, tier, runner)
    finally:
        runner.close()
    if not proof_ok:
        ck.violation(f"proof/{prop}", f"proof obligation of Props/{prop}.lean no longer checks",
                     {"theorem": f"GlareModel.Props.{prop}.*", "log": ck.broken_proof}, found_input=bool(ck.violations))
    sys.exit(ck.finish())


def gen_queries(rng, g, n, depths, sort_pct=33):
    queries, keys = [], []
    tries = 0
    while len(queries) < n and tries < 10 * n:
        tries += 1
        q, ty = g.query(rng.pick(depths))
        if qgen.excluded(q) or not ty:
            continue
        if rng.below(100) < sort_pct:
            q, ks = qgen.top_sort(rng, q, ty)
            keys.append([(k, k[0][1]) for k in ks])
        else:
            keys.append(None)
        queries.append(q)
    return queries, keys
