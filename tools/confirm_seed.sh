#!/bin/sh
# usage: tools/confirm_seed.sh <scratch worktree> <m1|m2> <crates to unit-test, space separated>
# Confirms a seeded change independently: patch applies to pristine HEAD, builds, unit tests pass with it,
# the demo fails with it and passes without it. Leaves the worktree pristine. Log on stdout.
wt="$1"; m="$2"; crates="${3:-glaredb_core}"
export CARGO_TARGET_DIR="$wt/target" CARGO_NET_OFFLINE=true
cd "$wt" || exit 2
git checkout -- . || exit 2
git apply --check "out/$m/patch.diff" || { echo "CONFIRM $m: patch does not apply"; exit 1; }
git apply "out/$m/patch.diff"
cargo build -p glaredb --offline >/dev/null 2>&1 || { echo "CONFIRM $m: build failed"; git checkout -- .; exit 1; }
ut=ok
for c in $crates; do
  cargo test -p "$c" --offline --lib 2>&1 | grep -E "^test result" | grep -q "0 failed" || ut=FAILED
done
(cd "out/$m" && timeout 900 bash ./demo.sh >/tmp/confirm_${m}_mut.log 2>&1); rc_mut=$?
git checkout -- .
cargo build -p glaredb --offline >/dev/null 2>&1 || { echo "CONFIRM $m: clean build failed"; exit 1; }
(cd "out/$m" && timeout 900 bash ./demo.sh >/tmp/confirm_${m}_clean.log 2>&1); rc_clean=$?
echo "CONFIRM $m: unit_tests=$ut demo_mutated_rc=$rc_mut demo_clean_rc=$rc_clean"
[ "$ut" = ok ] && [ "$rc_mut" != 0 ] && [ "$rc_clean" = 0 ]
