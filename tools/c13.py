#!/usr/bin/env python3
"""C13 — Casts are exact-or-error and text round-trips every value."""
import json
import struct
import sys

import vlib
from sqlutil import Rng, sql_str
from c12 import INT_TYPES, rng_of, boundary, dec_text, parse_cell_num, classify


def hx(s):
    return s.encode().hex() if s else "-"


def unhx(h):
    return "" if h == "-" else bytes.fromhex(h).decode()


def days_from_civil(y, m, d):
    import datetime
    return (datetime.date(y, m, d) - datetime.date(1970, 1, 1)).days


def unit_component(ck, tier):
    """Real parsers/formatters (gvh cast) vs Core/Cast.lean, plus round-trip oracle on the implementation."""
    import datetime
    rng = Rng(ck.seed * 13 + 1)
    lines = []

    def add(*a):
        lines.append(f"case {len(lines)} cast " + " ".join(str(x) for x in a))
    # dates: every day of two seeded years, year boundaries, leap days, random days in 0001..9999
    lo, hi = days_from_civil(1, 1, 1), days_from_civil(9999, 12, 31)
    days = set([lo, hi, 0, -1, 1, days_from_civil(1969, 12, 31), days_from_civil(2000, 2, 29), days_from_civil(1900, 2, 28), days_from_civil(1900, 3, 1)])
    for y in [1 + rng.below(9999), 1 + rng.below(9999), 2024, 1969, 2021]:
        d0 = days_from_civil(y, 1, 1)
        days.update(range(d0 - 3, d0 + 369))
    for y in range(1, 10000, 7 if tier == "quick" else 1):
        days.add(days_from_civil(y, 12, 31))
        days.add(days_from_civil(y, 1, 1))
    for _ in range(3000 if tier == "quick" else 100000):
        days.add(lo + rng.below(hi - lo + 1))
    days = sorted(days)
    date_idx = {}
    for d in days:
        date_idx[len(lines)] = d
        add("fmtdate", d)
    # date texts: valid, invalid calendar days, malformed
    texts = []
    for _ in range(1500 if tier == "quick" else 20000):
        y, m, d = rng.below(10000), rng.below(14), rng.below(33)
        t = f"{y:04d}-{m:02d}-{d:02d}"
        # only the canonical shape and unambiguous garbage: chrono's NaiveDate::from_str is lenient about
        # leading whitespace and digit counts, which is third-party behaviour outside the model
        c = rng.below(8)
        if c == 0:
            t = t.replace("-", "/")
        elif c == 2:
            t = t + "x"
        texts.append(t)
    texts += ["2024-02-29", "2023-02-29", "1900-02-29", "2000-02-29", "0000-01-01", "9999-12-31", "2024-13-01", "2024-00-10", "2024-04-31", ""]
    ptext_idx = {}
    for t in texts:
        ptext_idx[len(lines)] = t
        add("parsedate", hx(t))
    # integers: format + parse
    int_idx = {}
    for name, sql, bits, signed in INT_TYPES:
        lo_, hi_ = rng_of((name, sql, bits, signed))
        for _ in range(300 if tier == "quick" else 5000):
            v = boundary(rng, lo_, hi_)
            c = rng.below(12)
            t = str(v)
            if c == 0:
                t = "+" + t
            elif c == 1:
                t = " " + t
            elif c == 2:
                t = t + " "
            elif c == 3:
                t = "00" + t if v >= 0 else "-00" + t[1:]
            elif c == 4:
                t = str(v + rng.pick([-1, 1]) * (hi_ - lo_ + 1))       # out of range
            elif c == 5:
                t = rng.pick(["", "-", "+", "--1", "1_0", "0x10", "1.0", "1e3", "٣", "-0", "+0"])
            int_idx[len(lines)] = (name, t)
            add("parseint", name, hx(t))
    for _ in range(500):
        v = boundary(rng, -(1 << 127), (1 << 127) - 1)
        add("fmtint", v)
    for t in ["t", "true", "TRUE", "T", "f", "false", "FALSE", "F", "True", "yes", "1", "0", "", " true", "tRUE"]:
        add("parsebool", hx(t))
    add("fmtbool", 1)
    add("fmtbool", 0)
    # decimals: format + parse
    dec_fmt = {}
    for _ in range(1500 if tier == "quick" else 30000):
        p = 1 + rng.below(38)
        bits = 64 if p <= 18 else 128
        s = rng.below(p + 1)
        v = boundary(rng, -(10 ** p - 1), 10 ** p - 1)
        dec_fmt[len(lines)] = (bits, p, s, v)
        add("fmtdec", bits, p, s, v)
        c = rng.below(10)
        t = dec_text(v, s)
        if c == 0:
            t = "+" + t.lstrip("-")
        elif c == 1:
            t = t + "5"                      # one more fraction digit (truncated by the parser)
        elif c == 2:
            t = rng.pick(["", "-", ".", "+", "1.2.3", "1e5", " 1", "1 ", "--1", "1,5", ".5", "5.", "-.5"])
        elif c == 3:
            t = "000" + t if v >= 0 else "-000" + t[1:]
        elif c == 4 and p < 17:
            t = t.replace(".", "") + "9" * rng.below(4)            # too many digits: must be rejected
        add("parsedec", bits, p, s, hx(t))
    res_model = vlib.run_model(lines).get("out", {})
    rc, out, err, secs = vlib.sh([vlib.GVH, "cast"], inp="\n".join(lines) + "\n", timeout=600)
    res_impl = {}
    for l in out.split("\n"):
        parts = l.split(" ", 2)
        if len(parts) == 3 and parts[0] == "out":
            res_impl[parts[1]] = parts[2]
    ck.count("cast_unit", len(lines))
    if rc != 0 or len(res_impl) < len(lines):
        ck.violation("cast_unit/harness", "gvh cast failed: " + err[-300:], {"correspondence": "gvh cast", "stderr": err[-800:]}, found_input=False)
        return
    diffs = []
    for i, line in enumerate(lines):
        ck.nontrivial(line.split(" ", 2)[2])
        a, b = res_impl.get(str(i)), res_model.get(str(i))
        if a != b:
            diffs.append((line, a, b))
    for line in lines[:3]:
        ck.sample({"case": line, "impl": res_impl.get(line.split()[1]), "model": res_model.get(line.split()[1])})
    # Oracle on the implementation: format(d) is the civil date (python datetime), and parse(format(d)) = d.
    for i, d in date_idx.items():
        txt = res_impl.get(str(i), "")
        exp = (datetime.date(1970, 1, 1) + datetime.timedelta(days=d)).isoformat()
        if txt == "fail" or unhx(txt) != exp:
            ck.violation("cast/date/format", f"Date32Formatter({d}) = {unhx(txt) if txt != 'fail' else 'fail'}, civil date is {exp}",
                         {"kind": "impl-vs-oracle", "case": f"cast fmtdate {d}", "impl": txt, "expected": exp})
            break
    for i, t in ptext_idx.items():
        r = res_impl.get(str(i), "")
        try:
            ok = len(t) == 10 and t[4] == "-" and t[7] == "-" and t.replace("-", "").isdigit() and t.isascii()
            if ok and int(t[:4]) == 0:
                continue    # year 0 exists in the proleptic calendar chrono uses; python's datetime cannot express it
            exp = days_from_civil(int(t[:4]), int(t[5:7]), int(t[8:10])) if ok else None
        except ValueError:
            exp = None
        if exp is not None and r != f"ok {exp}":
            ck.violation("cast/date/parse", f"Date32Parser('{t}') = {r}, expected ok {exp}", {"kind": "impl-vs-oracle", "case": f"parsedate {t}", "impl": r})
            break
        if exp is None and r.startswith("ok") and ok:
            ck.violation("cast/date/parse-accepts-invalid", f"Date32Parser('{t}') = {r} for a non-existent calendar date", {"kind": "impl-vs-oracle", "impl": r})
            break
    for i, (bits, p, s, v) in dec_fmt.items():
        txt = unhx(res_impl.get(str(i), "-"))
        if txt != dec_text(v, s):
            ck.violation("cast/decimal/format", f"DecimalFormatter({p},{s}) of unscaled {v} = '{txt}', expected '{dec_text(v, s)}'",
                         {"kind": "impl-vs-oracle", "impl": txt})
            break
    for i, (name, t) in int_idx.items():
        r = res_impl.get(str(i), "")
        ty = [x for x in INT_TYPES if x[0] == name][0]
        lo_, hi_ = rng_of(ty)
        import re
        m = re.fullmatch(r"([+-]?)(\d+)", t) if t.isascii() else None
        exp = None
        if m and not (m.group(1) == "-" and not ty[3]):
            val = int(t)
            exp = val if lo_ <= val <= hi_ else None
        if (exp is None and r != "fail") or (exp is not None and r != f"ok {exp}"):
            ck.violation("cast/int/parse", f"parse '{t}' as {name} = {r}, expected {exp}", {"kind": "impl-vs-oracle", "impl": r})
            break
    if diffs:
        kinds = {}
        for line, a, b in diffs:
            sub = line.split()[3]
            kinds.setdefault((sub, a == "panic"), (line, a, b))
        for (sub, pan), (line, a, b) in kinds.items():
            if pan:
                ck.violation(f"cast/{sub}/panic", f"{line.split(' ', 2)[2]}: the real parser panics (model {b})",
                             {"kind": "crash", "case": line, "impl": a, "model": b, "text": unhx(line.split()[-1])})
            else:
                ck.violation(f"cast/{sub}/correspondence", f"Core/Cast.lean disagrees with the code on {line.split(' ', 2)[2]}: impl {a}, model {b}",
                             {"kind": "model-vs-impl", "correspondence": f"cast {sub}", "case": line, "impl": a, "model": b,
                              "text": unhx(line.split()[-1]) if sub.startswith("parse") else None}, found_input=False)


def sql_component(ck, tier, runner):
    rng = Rng(ck.seed * 17 + 3)
    # 1. int -> int: identity inside the intersection of the ranges (exhaustive for 8/16-bit sources), error outside
    for src in INT_TYPES:
        for dst in INT_TYPES:
            if src == dst:
                continue
            slo, shi = rng_of(src)
            dlo, dhi = rng_of(dst)
            lo, hi = max(slo, dlo), min(shi, dhi)
            stmts, checks = [], []
            if src[2] <= 16:
                stmts.append(f"SELECT count(*), sum(CASE WHEN (a::{src[1]})::{dst[1]}::BIGINT = a THEN 0 ELSE 1 END) FROM generate_series({lo},{hi}) g(a)")
                checks.append(("bulk", hi - lo + 1))
            vals = [lo, hi, (lo + hi) // 2] + [boundary(rng, lo, hi) for _ in range(4)]
            stmts.append("SELECT " + ", ".join(f"CAST('{v}' AS {src[1]})::{dst[1]}" for v in vals))
            checks.append(("vals", vals))
            outside = [v for v in (dlo - 1, dhi + 1, slo, shi) if slo <= v <= shi and not (dlo <= v <= dhi)]
            for v in outside:
                stmts.append(f"SELECT CAST('{v}' AS {src[1]})::{dst[1]}")
                checks.append(("out", v))
            res = runner.run(stmts, timeout=120)
            ck.count("int2int", sum(c[1] if c[0] == "bulk" else 1 for c in checks))
            if isinstance(res, dict):
                ck.violation("cast/int2int/crash", f"{src[0]}->{dst[0]} cast script crashed", {"kind": "crash", "stmts": stmts, "result": res})
                continue
            for (kind, arg), r, s in zip(checks, res, stmts):
                ck.nontrivial(s)
                if kind == "bulk":
                    if "rows" not in r or r["rows"][0] != [str(arg), "0"]:
                        ck.violation(f"cast/int2int/{src[0]}->{dst[0]}/wrong-value", f"{s}: {str(r)[:160]} (expected count {arg}, 0 mismatches)",
                                     {"kind": "impl-vs-oracle", "sql": s, "engine": r})
                elif kind == "vals":
                    if "rows" not in r or [parse_cell_num(c) for c in r["rows"][0]] != arg or any(c[1] != dst[0] for c in r["cols"]):
                        ck.violation(f"cast/int2int/{src[0]}->{dst[0]}/wrong-value", f"{s}: {str(r)[:200]}", {"kind": "impl-vs-oracle", "sql": s, "engine": r, "expected": arg})
                else:
                    if classify(r) != "err":
                        ck.violation(f"cast/int2int/{src[0]}->{dst[0]}/out-of-range-no-error", f"{s}: {str(r)[:160]} (value {arg} is not representable)",
                                     {"kind": "impl-vs-oracle", "sql": s, "engine": r})
    # 2. decimal -> decimal and int -> decimal against the model (+ oracle: half away from zero, precision respected)
    cases = []
    n = 500 if tier == "quick" else 10000
    for _ in range(n):
        # the engine picks Decimal64 for precision <= 18 and Decimal128 above
        sp = 1 + rng.below(38)
        bits = 64 if sp <= 18 else 128
        ss = rng.below(sp + 1)
        dp = 1 + rng.below(38)
        dbits = 64 if dp <= 18 else 128
        ds = rng.below(dp + 1)
        if rng.chance(2, 3):
            ds = max(0, min(dp, ss + rng.pick([-3, -2, -1, -1, 0, 1, 2])))
        lim = 10 ** sp - 1
        c = rng.below(4)
        if c == 0 and ss > ds:
            k = ss - ds
            v = (rng.below(2 * 10 ** (sp - k)) - 10 ** (sp - k)) * 10 ** k + rng.pick([-1, 1]) * (10 ** k // 2)   # exact ties, both signs
            v = max(-lim, min(lim, v))
        else:
            v = boundary(rng, -lim, lim)
        cases.append(("dec2dec", (bits, sp, ss), (dbits, dp, ds), v))
    for _ in range(n // 3):
        src = rng.pick(INT_TYPES)
        dp = 1 + rng.below(38)
        dbits = 64 if dp <= 18 else 128
        ds = rng.below(dp + 1)
        cases.append(("int2dec", src, (dbits, dp, ds), boundary(rng, *rng_of(src))))
    lines = []
    for i, c in enumerate(cases):
        if c[0] == "dec2dec":
            lines.append(f"case {i} cast dec2dec Decimal{c[1][0]}({c[1][1]},{c[1][2]}) Decimal{c[2][0]}({c[2][1]},{c[2][2]}) {c[3]}")
        else:
            lines.append(f"case {i} cast int2dec Decimal{c[2][0]}({c[2][1]},{c[2][2]}) {c[3]}")
    model = vlib.run_model(lines).get("out", {})
    oks = [(i, c) for i, c in enumerate(cases) if model.get(str(i), "").startswith("ok")]
    fails = [(i, c) for i, c in enumerate(cases) if not model.get(str(i), "").startswith("ok")]
    ck.count("dec_casts", len(cases), model_fail=len(fails))

    def sql_of(c):
        if c[0] == "dec2dec":
            return f"CAST('{dec_text(c[3], c[1][2])}' AS DECIMAL({c[1][1]},{c[1][2]}))::DECIMAL({c[2][1]},{c[2][2]})"
        return f"CAST('{c[3]}' AS {c[1][1]})::DECIMAL({c[2][1]},{c[2][2]})"

    def exact_round(c):
        """Oracle: value at the target scale, ties away from zero; None if it does not fit the precision."""
        if c[0] == "dec2dec":
            v, ss, ds, dp = c[3], c[1][2], c[2][2], c[2][1]
        else:
            v, ss, ds, dp = c[3], 0, c[2][2], c[2][1]
        if ds >= ss:
            r = v * 10 ** (ds - ss)
        else:
            k = 10 ** (ss - ds)
            q, rem = divmod(abs(v), k)
            if 2 * rem >= k:
                q += 1
            r = q if v >= 0 else -q
        return r if abs(r) < 10 ** dp else None
    for j in range(0, len(oks), 30):
        chunk = oks[j:j + 30]
        q = "SELECT " + ", ".join(sql_of(c) for _, c in chunk)
        res = runner.run([q], timeout=60)
        if isinstance(res, dict) or "rows" not in res[0]:
            # find the culprit individually
            for i, c in chunk:
                r1 = runner.run(["SELECT " + sql_of(c)], timeout=60)
                if isinstance(r1, dict) or "rows" not in r1[0]:
                    ck.violation(f"cast/{c[0]}/model-ok-engine-fails", f"SELECT {sql_of(c)}: engine {str(r1)[:150]}, model {model.get(str(i))}, oracle {exact_round(c)}",
                                 {"kind": "model-vs-impl" if exact_round(c) is None else "impl-vs-oracle", "sql": "SELECT " + sql_of(c), "engine": r1, "model": model.get(str(i))},
                                 found_input=exact_round(c) is not None)
                    break
            continue
        for k, (i, c) in enumerate(chunk):
            ck.nontrivial(sql_of(c))
            g = parse_cell_num(res[0]["rows"][0][k])
            mv = int(model[str(i)].split()[1])
            ex = exact_round(c)
            if g != ex:
                ck.violation(f"cast/{c[0]}/wrong-value", f"SELECT {sql_of(c)} = unscaled {g}, exact (half away from zero) {ex}",
                             {"kind": "impl-vs-oracle", "sql": "SELECT " + sql_of(c), "engine": g, "exact": ex, "model": mv})
            elif g != mv:
                ck.violation(f"cast/{c[0]}/correspondence", f"SELECT {sql_of(c)}: engine {g}, model {mv}",
                             {"kind": "model-vs-impl", "correspondence": "Arith.rescale / intToDec", "sql": "SELECT " + sql_of(c)}, found_input=False)
    seen = 0
    for i, c in fails:
        if seen >= (40 if tier == "quick" else 400):
            break
        seen += 1
        s = "SELECT " + sql_of(c)
        r = runner.run([s], timeout=60)
        ck.nontrivial(sql_of(c))
        cls = "crash" if isinstance(r, dict) else classify(r[0])
        ex = exact_round(c)
        if cls == "rows" and ex is None:
            ck.violation(f"cast/{c[0]}/unrepresentable-no-error", f"{s}: returned {r[0]['rows'][0][0]} though the value does not fit the target type",
                         {"kind": "impl-vs-oracle", "sql": s, "engine": r[0]})
        elif cls != "err" and cls != "rows":
            ck.violation(f"cast/{c[0]}/{cls}", f"{s}: {cls}", {"kind": "crash", "sql": s, "engine": r})
    # 3. f64 -> int (truncation toward zero, range) against the model
    fcases = []
    for _ in range(300 if tier == "quick" else 5000):
        dst = rng.pick(INT_TYPES)
        c = rng.below(6)
        lo, hi = rng_of(dst)
        if c == 0:
            x = float(boundary(rng, lo, hi)) + rng.pick([0.0, 0.5, -0.5, 0.999, -0.999])
        elif c == 1:
            x = rng.pick([float("nan"), float("inf"), float("-inf"), -0.0, 0.0, 2.0 ** 63, -2.0 ** 63, 2.0 ** 64, 2.0 ** 31, -2.0 ** 31 - 1, 1e300, 4.9e-324])
        else:
            x = struct.unpack(">d", struct.pack(">Q", rng.next()))[0] if rng.chance(1, 3) else (rng.below(2000001) - 1000000) / rng.pick([1, 2, 3, 7, 1000])
        bits = struct.unpack(">Q", struct.pack(">d", x))[0]
        fcases.append((dst, bits, x))
    flines = [f"case {i} cast f64toint {d[0]} {b:016x}" for i, (d, b, x) in enumerate(fcases)]
    fmodel = vlib.run_model(flines).get("out", {})
    ck.count("f64toint", len(fcases))
    stmts = ["CREATE TEMP TABLE f (i INT, x DOUBLE)"]
    # values are inserted through their exact decimal expansion where finite; specials by name
    def flit(x):
        if x != x:
            return "'NaN'"
        if x in (float("inf"), float("-inf")):
            return "'inf'" if x > 0 else "'-inf'"
        return "'" + repr(x) + "'"
    stmts.append("INSERT INTO f VALUES " + ", ".join(f"({i}, {flit(x)})" for i, (d, b, x) in enumerate(fcases)))
    stmts.append("SELECT i, x FROM f")
    res = runner.run(stmts, timeout=60)
    if isinstance(res, dict) or "rows" not in res[-1]:
        ck.note("f64toint", "setup_failed", str(res)[:200])
    else:
        stored = {int(r[0]): r[1] for r in res[-1]["rows"]}
        for i, (dst, bits, x) in enumerate(fcases):
            if stored.get(i) != f"f64:{bits:016x}":
                continue   # text -> double did not reproduce the bit pattern; skip (not a cast-to-int question)
            m = fmodel.get(str(i), "")
            s = f"SELECT x::{dst[1]} FROM f WHERE i = {i}"
            r = runner.run(stmts[:2] + [s], timeout=60)
            ck.nontrivial(s + str(bits))
            if isinstance(r, dict):
                ck.violation("cast/f64toint/crash", f"{x!r}::{dst[1]} crashed", {"kind": "crash", "sql": s, "value_bits": f"{bits:016x}", "result": r})
                continue
            r = r[-1]
            import math
            exact = None
            if math.isfinite(x):
                t = math.trunc(x)
                lo, hi = rng_of(dst)
                exact = t if lo <= t <= hi else None
            got = parse_cell_num(r["rows"][0][0]) if "rows" in r and r["rows"] else None
            cls = classify(r)
            if exact is None:
                if cls == "rows":
                    ck.violation(f"cast/f64toint/{dst[0]}/unrepresentable-no-error", f"{x!r}::{dst[1]} = {got}, but the value is not representable",
                                 {"kind": "impl-vs-oracle", "sql": s, "value_bits": f"{bits:016x}", "engine": r, "model": m})
            elif cls != "rows" or got != exact:
                ck.violation(f"cast/f64toint/{dst[0]}/wrong-value", f"{x!r}::{dst[1]} = {str(r)[:100]}, expected {exact} (truncation)",
                             {"kind": "impl-vs-oracle", "sql": s, "value_bits": f"{bits:016x}", "engine": r, "model": m})
            elif m != f"ok {exact}":
                ck.violation("cast/f64toint/correspondence", f"model {m} vs engine {got} for bits {bits:016x}", {"kind": "model-vs-impl", "correspondence": "Cast.f64ToInt"}, found_input=False)
    # 4. text round trip through SQL: (v::TEXT)::T = v
    for t in INT_TYPES:
        lo, hi = rng_of(t)
        vals = [lo, hi, 0] + [boundary(rng, lo, hi) for _ in range(12)]
        q = "SELECT " + ", ".join(f"(CAST('{v}' AS {t[1]})::TEXT)::{t[1]}" for v in vals) + ", " + ", ".join(f"CAST('{v}' AS {t[1]})::TEXT" for v in vals)
        res = runner.run([q], timeout=60)
        ck.count("text_roundtrip", len(vals))
        if isinstance(res, dict) or "rows" not in res[0]:
            ck.violation(f"cast/text-roundtrip/{t[0]}/failed", f"{q[:120]}...: {str(res)[:200]}", {"kind": "impl-vs-oracle", "sql": q, "engine": res})
            continue
        row = res[0]["rows"][0]
        for k, v in enumerate(vals):
            ck.nontrivial(f"rt{t[0]}{v}")
            if parse_cell_num(row[k]) != v or row[len(vals) + k] != f"s:{v}":
                ck.violation(f"cast/text-roundtrip/{t[0]}/wrong-value", f"({v}::{t[1]}::TEXT)::{t[1]} = {row[k]}, text {row[len(vals)+k]}",
                             {"kind": "impl-vs-oracle", "sql": q, "engine": row})
    for _ in range(40 if tier == "quick" else 600):
        p = 1 + rng.below(38)
        s = rng.below(p + 1)
        v = boundary(rng, -(10 ** p - 1), 10 ** p - 1)
        lit = f"CAST('{dec_text(v, s)}' AS DECIMAL({p},{s}))"
        q = f"SELECT ({lit}::TEXT)::DECIMAL({p},{s}), {lit}::TEXT"
        res = runner.run([q], timeout=60)
        ck.count("text_roundtrip", 1)
        ck.nontrivial(q)
        if isinstance(res, dict) or "rows" not in res[0] or parse_cell_num(res[0]["rows"][0][0]) != v or res[0]["rows"][0][1] != "s:" + dec_text(v, s):
            ck.violation("cast/text-roundtrip/decimal/wrong-value", f"{q}: {str(res)[:200]}", {"kind": "impl-vs-oracle", "sql": q, "engine": res})
    ck.sample({"sql": "SELECT CAST('-1.35' AS DECIMAL(3,2))::DECIMAL(3,1)  -- expects -1.4 (half away from zero)"})


def main():
    tier = sys.argv[1] if len(sys.argv) > 1 else "quick"
    ck = vlib.Check("C13", tier)
    ck.coverage["rule"] = ("cast_unit: real Parser/Formatter impls vs Core/Cast.lean on dates (whole years, year boundaries, leap days, 0001..9999), integer and decimal texts "
                           "incl. malformed ones; int2int: exhaustive for 8/16-bit sources inside the common range + edges; dec_casts: boundary/tie-biased rescales; "
                           "f64toint: specials, boundaries, random bit patterns; text_roundtrip via SQL. distinct = distinct case text")
    ck.assumptions = ["Python datetime / big integers are the oracle for civil dates and exact rounding",
                      "float <-> text and int -> float conversions are checked only for exactness on the engine (not modelled)"]
    proof_ok = ck.proof_step()
    ok, blog, secs = vlib.build_harness()
    ck.coverage["harness_build_s"] = round(secs, 1)
    if not ok:
        ck.violation("harness/build", "harness does not build against /repo", {"correspondence": "harness build", "log": blog[-1500:]}, found_input=False)
        sys.exit(ck.finish())
    unit_component(ck, tier)
    runner = vlib.SqlRunner()
    try:
        sql_component(ck, tier, runner)
    finally:
        runner.close()
    if not proof_ok:
        ck.violation("proof/C13", "proof obligation of Props/C13.lean no longer checks", {"theorem": "GlareModel.Props.C13.*", "log": ck.broken_proof},
                     found_input=bool(ck.violations))
    sys.exit(ck.finish())


if __name__ == "__main__":
    main()
