"""Minimal Parquet writer (pure Python): v1 data pages, PLAIN encoding, uncompressed, flat schemas of
REQUIRED / OPTIONAL BOOLEAN, INT32, INT64, DOUBLE, BYTE_ARRAY(UTF8) columns, several row groups and several pages per
column chunk, with full control over the statistics written to the footer (present / absent / deprecated fields /
exactness flags / deliberately loose or wrong values). It exists because no Parquet writer is installed offline: the
checks need files whose contents and statistics they control (C10: the rows a file encodes; C11: pruning under every
statistics configuration; C19: more valid starting points for the fault sweep).

write_file(path, columns, row_groups) where
  columns    = [(name, type, optional)]            type in {"bool", "int32", "int64", "double", "utf8"}
  row_groups = [ {"rows": [[v, ...], ...], "page_rows": k (optional), "stats": {col_index: spec}} ]
  spec       = "auto" (exact min/max/null_count, the default) | None (no statistics)
               | {"min": v, "max": v, "null_count": n, "exact": True|False|None, "deprecated": bool, "distinct": n}
"""
import struct

BOOL, I32, I64, DOUBLE, BINARY, LIST, STRUCT = 1, 5, 6, 7, 8, 9, 12
PTYPE = {"bool": 0, "int32": 1, "int64": 2, "double": 5, "utf8": 6}


def varint(n):
    out = bytearray()
    while True:
        b = n & 0x7F
        n >>= 7
        if n:
            out.append(b | 0x80)
        else:
            out.append(b)
            return bytes(out)


def zigzag(n, bits=64):
    return (n << 1) ^ (n >> (bits - 1))


class Struct:
    """Thrift compact protocol struct writer."""

    def __init__(self):
        self.buf = bytearray()
        self.last = 0

    def _hdr(self, fid, ty):
        delta = fid - self.last
        if 0 < delta <= 15:
            self.buf.append((delta << 4) | ty)
        else:
            self.buf.append(ty)
            self.buf += varint(zigzag(fid, 16) & 0xFFFF)
        self.last = fid

    def i32(self, fid, v):
        self._hdr(fid, I32)
        self.buf += varint(zigzag(v, 32) & 0xFFFFFFFF)
        return self

    def i64(self, fid, v):
        self._hdr(fid, I64)
        self.buf += varint(zigzag(v, 64) & 0xFFFFFFFFFFFFFFFF)
        return self

    def boolean(self, fid, v):
        self._hdr(fid, 1 if v else 2)
        return self

    def binary(self, fid, b):
        self._hdr(fid, BINARY)
        self.buf += varint(len(b)) + b
        return self

    def string(self, fid, s):
        return self.binary(fid, s.encode("utf-8"))

    def struct(self, fid, st):
        self._hdr(fid, STRUCT)
        self.buf += st.done()
        return self

    def list(self, fid, ety, items):
        """items: already-encoded element bytes (structs: done(); i32: varint zigzag; binary: len+bytes)."""
        self._hdr(fid, LIST)
        n = len(items)
        if n < 15:
            self.buf.append((n << 4) | ety)
        else:
            self.buf.append(0xF0 | ety)
            self.buf += varint(n)
        for it in items:
            self.buf += it
        return self

    def done(self):
        return bytes(self.buf) + b"\x00"


def enc_i32(v):
    return varint(zigzag(v, 32) & 0xFFFFFFFF)


def enc_bin(b):
    return varint(len(b)) + b


def plain(ty, vals):
    if ty == "int32":
        return b"".join(struct.pack("<i", v) for v in vals)
    if ty == "int64":
        return b"".join(struct.pack("<q", v) for v in vals)
    if ty == "double":
        return b"".join(struct.pack("<d", v) for v in vals)
    if ty == "utf8":
        return b"".join(struct.pack("<I", len(v.encode("utf-8"))) + v.encode("utf-8") for v in vals)
    if ty == "bool":
        out = bytearray((len(vals) + 7) // 8)
        for i, v in enumerate(vals):
            if v:
                out[i // 8] |= 1 << (i % 8)
        return bytes(out)
    raise ValueError(ty)


def stat_bytes(ty, v):
    if ty == "utf8":
        return v.encode("utf-8")
    if ty == "bool":
        return b"\x01" if v else b"\x00"
    return plain(ty, [v])


def rle_levels(levels):
    """RLE/bit-packed hybrid with RLE runs only, bit width 1, prefixed by its 4-byte length (v1 pages)."""
    out = bytearray()
    i = 0
    while i < len(levels):
        j = i
        while j < len(levels) and levels[j] == levels[i]:
            j += 1
        out += varint((j - i) << 1)
        out.append(levels[i])
        i = j
    return struct.pack("<I", len(out)) + bytes(out)


PAGES = []          # (type, optional, values, body bytes) of every page written by the last write_file call


def page(ty, optional, vals):
    body = b""
    if optional:
        body += rle_levels([0 if v is None else 1 for v in vals])
    body += plain(ty, [v for v in vals if v is not None])
    dph = Struct().i32(1, len(vals)).i32(2, 0).i32(3, 3).i32(4, 3)
    hdr = Struct().i32(1, 0).i32(2, len(body)).i32(3, len(body)).struct(5, dph).done()
    PAGES.append((ty, optional, list(vals), body))
    return hdr + body


def statistics(ty, vals, spec):
    if spec is None:
        return None
    nn = [v for v in vals if v is not None]
    if spec == "auto":
        spec = {}
    st = Struct()
    mn = spec.get("min", min(nn) if nn else None)
    mx = spec.get("max", max(nn) if nn else None)
    dep = spec.get("deprecated", False)
    if dep:
        if mx is not None:
            st.binary(1, stat_bytes(ty, mx))
        if mn is not None:
            st.binary(2, stat_bytes(ty, mn))
    nc = spec.get("null_count", len(vals) - len(nn))
    if nc is not None:
        st.i64(3, nc)
    if spec.get("distinct") is not None:
        st.i64(4, spec["distinct"])
    if not dep:
        if mx is not None:
            st.binary(5, stat_bytes(ty, mx))
        if mn is not None:
            st.binary(6, stat_bytes(ty, mn))
    ex = spec.get("exact", True)
    if ex is not None:
        st.boolean(7, ex)
        st.boolean(8, ex)
    return st


def write_file(path, columns, row_groups, created_by="verif pqwrite"):
    out = bytearray(b"PAR1")
    del PAGES[:]
    rgs = []
    total_rows = 0
    for rg in row_groups:
        rows = rg["rows"]
        total_rows += len(rows)
        page_rows = rg.get("page_rows") or max(1, len(rows))
        chunks = []
        rg_bytes = 0
        for ci, (name, ty, optional) in enumerate(columns):
            vals = [r[ci] for r in rows]
            start = len(out)
            for i in range(0, max(1, len(vals)), page_rows):
                out += page(ty, optional, vals[i:i + page_rows])
            size = len(out) - start
            rg_bytes += size
            md = Struct().i32(1, PTYPE[ty]).list(2, I32, [enc_i32(0), enc_i32(3)]).list(3, BINARY, [enc_bin(name.encode())]).i32(4, 0) \
                .i64(5, len(vals)).i64(6, size).i64(7, size).i64(9, start)
            st = statistics(ty, vals, rg.get("stats", {}).get(ci, "auto"))
            if st is not None:
                md.struct(12, st)
            chunks.append(Struct().i64(2, start).struct(3, md).done())
        rgs.append(Struct().list(1, STRUCT, chunks).i64(2, rg_bytes).i64(3, len(rows)).done())
    schema = [Struct().string(4, "schema").i32(5, len(columns)).done()]
    for name, ty, optional in columns:
        se = Struct().i32(1, PTYPE[ty]).i32(3, 1 if optional else 0).string(4, name)
        if ty == "utf8":
            se.i32(6, 0)
        schema.append(se.done())
    orders = [Struct().struct(1, Struct()).done() for _ in columns]       # ColumnOrder::TYPE_ORDER for every column
    fmd = Struct().i32(1, 1).list(2, STRUCT, schema).i64(3, total_rows).list(4, STRUCT, rgs).string(6, created_by).list(7, STRUCT, orders).done()
    out += fmd + struct.pack("<I", len(fmd)) + b"PAR1"
    with open(path, "wb") as f:
        f.write(out)
    return len(out)
