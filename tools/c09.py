#!/usr/bin/env python3
"""C09 — Correlated subqueries, CTEs and views mean what nested evaluation means."""
import qgen
from semcheck import run_check
from semdiff import SemDiff
from sqlutil import Rng, bag


def tables(rng):
    def t(n, null_pct, dom):
        return [qgen.INT, qgen.INT], [[None if rng.below(100) < null_pct else rng.below(dom), None if rng.below(100) < null_pct else rng.below(6) - 1] for _ in range(n)]
    return {"t0": t(rng.pick([0, 1, 4, 9, 25]), rng.pick([0, 20]), rng.pick([3, 6])), "t1": t(rng.pick([0, 1, 5, 12, 40]), rng.pick([0, 20]), rng.pick([3, 6]))}


def corr(op="="):
    return (op, ("col", 0), ("ocol", 0, 0))


def template(rng):
    """Correlated subquery shapes whose SQL semantics the engine implements (the 3VL / empty-set variants that are
    known findings are probed separately)."""
    c = rng.below(8)
    inner = ("filter", corr(rng.pick(["=", "=", "<", ">="])), ("scan", "t1"))
    if c == 0:
        return ("filter", ("exists", inner), ("scan", "t0")), "exists"
    if c == 1:
        return ("filter", ("not", ("exists", inner)), ("scan", "t0")), "not_exists"
    if c == 2:   # correlated EXISTS with extra predicate
        return ("filter", ("exists", ("filter", (">", ("col", 1), ("lit", 0, qgen.INT)), inner)), ("scan", "t0")), "exists_filter"
    if c == 3:   # scalar aggregate (min/max/sum are NULL on empty sets in SQL and in the engine)
        fn = rng.pick(["min", "max", "sum"])
        sc = ("scalar", ("agg", [], [(fn, False, ("col", 1), None)], inner))
        return ("project", [("col", 0), ("col", 1), sc], ("scan", "t0")), "scalar_" + fn
    if c == 4:   # scalar in WHERE
        sc = ("scalar", ("agg", [], [("max", False, ("col", 1), None)], inner))
        return ("filter", (rng.pick(["=", "<", ">="]), ("col", 1), sc), ("scan", "t0")), "scalar_cmp"
    if c == 5:   # correlation under a grouped aggregate (HAVING)
        grouped = ("filter", (">", ("col", 1), ("lit", 1, qgen.INT)), ("agg", [("col", 1)], [("count_star", False, ("lit", None), None)], inner))
        return ("filter", ("exists", grouped), ("scan", "t0")), "exists_grouped"
    if c == 6:   # two correlated columns
        two = ("filter", ("and", corr("="), ("=", ("col", 1), ("ocol", 0, 1))), ("scan", "t1"))
        return ("filter", ("exists", two), ("scan", "t0")), "exists_two_cols"
    # nested depth 2
    inner2 = ("filter", ("exists", ("filter", ("=", ("col", 0), ("ocol", 0, 0)), ("scan", "t0"))), inner)
    return ("filter", ("exists", inner2), ("scan", "t0")), "exists_nested"


def probes(ck, runner):
    setup = ["CREATE TEMP TABLE t (a INT)", "INSERT INTO t VALUES (1),(2),(NULL)", "CREATE TEMP TABLE u (b INT)", "INSERT INTO u VALUES (1),(NULL)"]

    def run(q):
        r = runner.run(setup + [q], timeout=30)
        return r if isinstance(r, dict) else r[-1]
    r = run("SELECT a, (SELECT count(*) FROM u WHERE u.b = t.a) FROM t")
    exp = bag([["1", "1"], ["2", "0"], [None, "0"]])
    ck.probe("subquery/scalar_agg/empty_set/count", "correlated scalar count(*) over an empty correlated set returns NULL instead of 0",
             {"kind": "impl-vs-oracle", "setup": setup, "sql": "SELECT a, (SELECT count(*) FROM u WHERE u.b = t.a) FROM t", "engine": r, "expected": exp},
             "rows" not in r or bag(r["rows"]) != exp)
    r = run("SELECT a FROM t WHERE a NOT IN (SELECT b FROM u)")
    ck.probe("subquery/not_in/null_in_rhs", "x NOT IN (subquery containing NULL) returns rows (must return none)",
             {"kind": "impl-vs-oracle", "setup": setup, "sql": "SELECT a FROM t WHERE a NOT IN (SELECT b FROM u)", "engine": r, "expected": []},
             "rows" not in r or r["rows"] != [])
    r = run("SELECT a, a IN (SELECT b FROM u) FROM t")
    exp = bag([["1", "true"], ["2", None], [None, None]])
    ck.probe("subquery/in/3vl-select-list", "x IN (subquery) in the select list returns FALSE where SQL requires NULL",
             {"kind": "impl-vs-oracle", "setup": setup, "sql": "SELECT a, a IN (SELECT b FROM u) FROM t", "engine": r, "expected": exp},
             "rows" not in r or bag(r["rows"]) != exp)
    q = "SELECT a FROM t WHERE EXISTS (SELECT 1 FROM u WHERE t.a IS NULL OR u.b = t.a)"
    r = run(q)
    exp = bag([["1"], [None]])
    ck.probe("subquery/exists/null-correlated-column", "EXISTS whose predicate holds for a NULL outer value loses that outer row (decorrelation joins back with `=`)",
             {"kind": "impl-vs-oracle", "setup": setup, "sql": q, "engine": r, "expected": exp},
             "rows" not in r or bag(r["rows"]) != exp)
    r = run("SELECT a, m FROM t, LATERAL (SELECT max(b) AS m FROM u WHERE u.b <= t.a) l")
    exp = bag([["1", "1"], ["2", "1"], [None, None]])
    ck.probe("subquery/lateral/ungrouped_agg_empty", "LATERAL ungrouped aggregate drops outer rows without matches",
             {"kind": "impl-vs-oracle", "setup": setup, "sql": "SELECT a, m FROM t, LATERAL (SELECT max(b) AS m FROM u WHERE u.b <= t.a) l", "engine": r, "expected": exp},
             "rows" not in r or bag(r["rows"]) != exp)


def cte_view_cases(ck, rng, runner, tier):
    """A CTE / view is interchangeable with its defining query; every reference sees the same rows."""
    n = 80 if tier == "quick" else 600
    for d in range(n):
        db = tables(rng)
        g = qgen.Gen(rng, db, {"join", "agg", "distinct", "union", "case"})
        body_q, ty = g.query(rng.pick([1, 2]))
        if qgen.excluded(body_q) or len(ty) < 1:
            continue
        r = qgen.Renderer(g.schema)
        body_sql = r.query(body_q)
        refs = rng.pick([1, 2, 2, 3])
        mat = rng.pick(["", "", "MATERIALIZED "])
        # count(*) of the cross product of the references + per-reference row multiset
        sels = ", ".join(f"(SELECT count(*) FROM c) AS n{i}" for i in range(refs))
        shape = rng.below(3)
        if shape == 0:
            using = f"SELECT c0, (SELECT count(*) FROM c) AS n FROM c"
            inl = f"SELECT c0, (SELECT count(*) FROM ({body_sql}) AS x) AS n FROM ({body_sql}) AS y"
        elif shape == 1:
            using = "SELECT count(*) FROM c AS a WHERE a.c0 IN (SELECT b.c0 FROM c AS b)"
            inl = f"SELECT count(*) FROM ({body_sql}) AS a WHERE a.c0 IN (SELECT b.c0 FROM ({body_sql}) AS b)"
        else:
            using = "SELECT c0 FROM c WHERE c0 IS NOT NULL UNION ALL SELECT c0 FROM c WHERE c0 IS NULL"
            inl = f"SELECT c0 FROM ({body_sql}) AS a WHERE c0 IS NOT NULL UNION ALL SELECT c0 FROM ({body_sql}) AS b WHERE c0 IS NULL"
        stmts = qgen.setup_sql(db) + [f"WITH c AS {mat}({body_sql}) {using}", inl, f"CREATE TEMP VIEW v AS {body_sql}", using.replace(" c ", " v ").replace(" c)", " v)").replace("FROM c", "FROM v")]
        res = runner.run(stmts, timeout=40)
        ck.count("cte_view", 1)
        ck.nontrivial(("cte", stmts[-4]))
        if isinstance(res, dict):
            ck.violation("cte_view/crash", "CTE/view script crashed", {"kind": "crash", "stmts": stmts, "result": res})
            continue
        cte, inline, view = res[-4], res[-3], res[-1]
        if "rows" in cte and "rows" in inline and bag(cte["rows"]) != bag(inline["rows"]):
            ck.violation(f"cte_view/cte-vs-inlined/{'materialized' if mat else 'plain'}/shape{shape}", f"WITH c AS {mat}(...) differs from the query with c inlined: {str(cte['rows'])[:100]} vs {str(inline['rows'])[:100]}",
                         {"kind": "impl-vs-oracle", "stmts": stmts, "cte": cte["rows"][:30], "inlined": inline["rows"][:30]})
        if "rows" in view and "rows" in inline and bag(view["rows"]) != bag(inline["rows"]):
            ck.violation(f"cte_view/view-vs-inlined/shape{shape}", f"query over a view differs from the query with the view inlined",
                         {"kind": "impl-vs-oracle", "stmts": stmts, "view": view["rows"][:30], "inlined": inline["rows"][:30]})
        for nm, rr in (("cte", cte), ("view", view)):
            if "err" in rr and "rows" in inline:
                ck.note("cte_view", "rejected_" + nm, rr["err"][:120])


def body(ck, tier, runner):
    probes(ck, runner)
    rng = Rng(ck.seed * 6007 + 9)
    sd = SemDiff(ck, runner, "correlated")
    ncase = 400 if tier == "quick" else 4000
    kinds = {}
    for d in range(ncase):
        db = tables(rng)
        queries = []
        for _ in range(5):
            q, kind = template(rng)
            kinds[kind] = kinds.get(kind, 0) + 1
            queries.append(q)
        p = rng.pick([1, 4])
        sd.check(db, queries, [(f"p{p}", [f"SET partitions TO {p}", f"SET batch_size TO {rng.pick([8, 2048])}"])], inserts=rng.pick([1, 2]))
        if d < 2:
            ck.sample({"query": qgen.sexp(queries[0]), "sql": qgen.Renderer({k: v[0] for k, v in db.items()}).query(queries[0])[:500]})
    ck.note("correlated", "kinds", kinds)
    sd.finish()
    cte_view_cases(ck, rng, runner, tier)


if __name__ == "__main__":
    run_check("C09",
              "correlated EXISTS / NOT EXISTS / scalar min,max,sum / scalar comparison / EXISTS over a grouped aggregate (HAVING) / two correlated columns / nested depth 2, over outer tables with "
              "NULL and duplicate correlation values and inner tables that are empty for some outer rows, compared with Sem (which evaluates the subquery once per outer row); CTE (plain and "
              "MATERIALIZED, referenced 1-3 times) and views vs. the query with the body inlined; distinct = distinct (query term, data) pair",
              ["Sem is the reference: nested evaluation per outer row", "known findings are probed on their specific inputs: count over an empty correlated set, NOT IN with NULLs, IN in the select list, LATERAL ungrouped aggregate"],
              body)
