#!/usr/bin/env python3
"""C03 — Results are independent of partitions, batch size and join algorithm."""
import qgen
from semcheck import run_check, gen_queries
from semdiff import SemDiff
from sqlutil import Rng

FEATS = {"join", "outer", "semi", "agg", "distinct", "union", "limit", "case", "inlist", "rollup"}


def configs(rng, nrows, tier, big=False):
    grid_p = [1, 2, 3, 7, 16, 64]
    grid_b = [1, 2, 3, 7, 16, 2048, 8192] + ([nrows, max(1, nrows // 2)] if nrows else [])
    out = [("p1_b2048_hash", ["SET partitions TO 1", "SET batch_size TO 2048", "SET enable_hash_joins TO true"])]
    for _ in range(3 if tier == "quick" else 8):
        p, b, h = rng.pick(grid_p), rng.pick(grid_b), rng.chance(1, 2)
        if big:
            b = max(b, 64)        # one INSERT per <= batch_size rows: keep the statement count reasonable for large tables
        out.append((f"p{p}_b{b}_{'hash' if h else 'nl'}", [f"SET partitions TO {p}", f"SET batch_size TO {max(1, b)}", f"SET enable_hash_joins TO {'true' if h else 'false'}"]))
    return out


def probes(ck, runner):
    stmts = ["SET batch_size TO 2", "CREATE TEMP TABLE t (a BIGINT, b BIGINT)", "INSERT INTO t VALUES (4,NULL),(4,2),(4,3),(4,3),(5,1)", "SELECT * FROM t WHERE a = 4"]
    res = runner.run(stmts, timeout=30)
    bad = isinstance(res, dict) or "rows" not in res[-1] or len(res[-1]["rows"]) != 4
    ck.probe("config/batch_size-smaller-than-stored-chunk/panic",
             "a table chunk written by one INSERT with more rows than the session's batch_size makes later scans+filters panic (index out of bounds, process aborts)",
             {"kind": "crash", "stmts": stmts, "result": res if isinstance(res, dict) else res[-1]}, bad)


def body(ck, tier, runner):
    probes(ck, runner)
    rng = Rng(ck.seed * 3001 + 3)
    sd = SemDiff(ck, runner, "config_grid")
    ndb = 70 if tier == "quick" else 1500
    for d in range(ndb):
        maxr = rng.pick([4, 8, 16, 32])
        db = qgen.gen_db(rng, ntables=3, max_rows=maxr, big=(d % 10 == 9))
        g = qgen.Gen(rng, db, FEATS)
        queries, keys = gen_queries(rng, g, 6, [1, 2, 2, 3])
        sd.check(db, queries, configs(rng, maxr, tier, big=(d % 10 == 9)), inserts=rng.pick([1, 3, 5]), sort_keys=keys)
        if d < 2:
            ck.sample({"query": qgen.sexp(queries[0])[:400]})
    # DML row counts: INSERT ... SELECT / CTAS under different settings
    for d in range(15 if tier == "quick" else 200):
        db = qgen.gen_db(rng, ntables=2, max_rows=rng.pick([5, 40]), big=(d % 5 == 4))
        g = qgen.Gen(rng, db, {"join", "agg", "union", "distinct"})
        q, ty = g.query(rng.pick([1, 2]))
        if qgen.excluded(q):
            continue
        model = sd.model_rows(db, [q])[0]
        if model[0] != "ok":
            continue
        sql = qgen.Renderer(g.schema).query(q)
        counts = []
        for name, cfg in configs(rng, 40, tier, big=(d % 5 == 4))[:3]:
            stmts = cfg + qgen.setup_sql(db, inserts=2, cap=sd.cap_of(cfg)) + [f"CREATE TEMP TABLE out1 AS {sql}", "SELECT * FROM out1"]
            res = runner.run(stmts, timeout=40)
            ck.count("ctas", 1)
            if isinstance(res, dict):
                ck.violation("ctas/crash", f"CTAS crashed under {name}", {"kind": "crash", "stmts": stmts, "result": res})
                continue
            ctas, sel = res[-2], res[-1]
            if "rows" not in ctas or "rows" not in sel:
                continue
            from sqlutil import bag
            n = ctas["rows"][0][0] if ctas["rows"] and ctas["rows"][0] else None
            if bag(sel["rows"]) != bag(model[1]) or (n is not None and int(n) != len(model[1])):
                ck.violation("ctas/wrong-contents", f"CREATE TABLE AS under {name}: reported {n} rows, table has {len(sel['rows'])}, Sem has {len(model[1])}",
                             {"kind": "impl-vs-oracle", "stmts": stmts, "engine_count": n, "model_rows": model[1][:20]})
        ck.nontrivial(("ctas", sql))
    sd.finish()


if __name__ == "__main__":
    run_check("C03",
              "each generated query is executed under a base configuration and 3 (quick) / 8 (thorough) random points of the grid partitions{1,2,3,7,16,64} x batch_size{1,2,3,7,16,rows/2,rows,2048,8192} "
              "x enable_hash_joins{on,off}, with rows spread over 1-5 INSERT statements; every run must equal Sem; CREATE TABLE AS row counts and contents likewise; distinct = distinct query term",
              ["Sem is the reference", "thread interleavings below poll granularity are C04/C16"],
              body)
