#!/usr/bin/env python3
"""C04 — Every schedule terminates with the same result; no wake-up is lost.

Components
  sched    the harness' own PipelineRuntime owns the partition pipelines of a query and polls them one at a time in an order
           drawn from a PRNG (policies: random, fifo, lifo, starve-client, client-first), wake-only (a task is polled only after
           a wake since its last poll) with spurious wakes injected: the query must terminate (no runnable task while the query
           is unfinished = lost wake-up = hang witness) with the result of the ordinary multi-threaded run
  cancel   real thread pool: QueryHandle::cancel while every task is running / while tasks are parked: the stream must end
           with an error promptly; a run-time error in one partition must reach the client for every partition count
  probes   known finding: EXISTS over an outer join never finishes
"""
import json
import select
import subprocess
import sys
import time

import vlib
from sqlutil import Rng, bag

GS = "generate_series"

SHAPES = [
    ("hash_join_inner", [], f"SELECT a.x, b.y FROM {GS}(1, 40) a(x) JOIN {GS}(1, 60) b(y) ON a.x = b.y % 25"),
    ("hash_join_left", [], f"SELECT a.x, b.y FROM {GS}(1, 40) a(x) LEFT JOIN {GS}(30, 60) b(y) ON a.x = b.y"),
    ("hash_join_right", [], f"SELECT a.x, b.y FROM {GS}(1, 40) a(x) RIGHT JOIN {GS}(30, 60) b(y) ON a.x = b.y"),
    ("left_join_probe_never_matches", [], f"SELECT count(*), count(s.y) FROM {GS}(1, 300) g(x) LEFT JOIN (SELECT b.y FROM {GS}(1, 5) b(y) JOIN {GS}(1, 5) c(z) ON b.y = c.z + 100) s ON g.x = s.y"),
    ("left_join_build_never_matches", [], f"SELECT count(*), count(g.x) FROM (SELECT b.y FROM {GS}(1, 5) b(y) JOIN {GS}(1, 5) c(z) ON b.y = c.z + 100) s LEFT JOIN {GS}(1, 300) g(x) ON g.x = s.y"),
    ("right_join_empty_probe", [], f"SELECT count(*) FROM (SELECT y FROM {GS}(1, 5) b(y) WHERE y > 100) s RIGHT JOIN {GS}(1, 200) g(x) ON g.x = s.y"),
    ("semi_join", [], f"SELECT x FROM {GS}(1, 50) a(x) WHERE EXISTS (SELECT 1 FROM {GS}(1, 100) b(y) WHERE b.y = a.x * 3)"),
    ("anti_join", [], f"SELECT x FROM {GS}(1, 50) a(x) WHERE NOT EXISTS (SELECT 1 FROM {GS}(1, 100) b(y) WHERE b.y = a.x * 3)"),
    ("anti_join_empty_inner", [], f"SELECT count(*) FROM {GS}(1, 200) a(x) WHERE NOT EXISTS (SELECT 1 FROM (SELECT b.y FROM {GS}(1, 5) b(y) JOIN {GS}(1, 5) c(z) ON b.y = c.z + 100) s WHERE s.y = a.x)"),
    ("in_subquery", [], f"SELECT x FROM {GS}(1, 50) a(x) WHERE x IN (SELECT y % 7 FROM {GS}(1, 100) b(y))"),
    ("not_in_empty", [], f"SELECT count(*) FROM {GS}(1, 100) a(x) WHERE x NOT IN (SELECT y FROM {GS}(1, 5) b(y) WHERE y > 100)"),
    ("nl_join", ["SET enable_hash_joins TO false"], f"SELECT a.x, b.y FROM {GS}(1, 30) a(x) JOIN {GS}(1, 40) b(y) ON a.x = b.y % 13"),
    ("nl_left_join", ["SET enable_hash_joins TO false"], f"SELECT a.x, b.y FROM {GS}(1, 30) a(x) LEFT JOIN {GS}(20, 40) b(y) ON a.x = b.y"),
    ("nl_inequality", [], f"SELECT count(*) FROM {GS}(1, 30) a(x) JOIN {GS}(1, 40) b(y) ON a.x < b.y"),
    ("cross_join", [], f"SELECT count(*), sum(x * y) FROM {GS}(1, 30) a(x), {GS}(1, 40) b(y)"),
    ("three_way_join", [], f"SELECT count(*) FROM {GS}(1, 30) a(x) JOIN {GS}(1, 40) b(y) ON a.x = b.y JOIN {GS}(1, 50) c(z) ON b.y = c.z LEFT JOIN {GS}(25, 35) d(w) ON d.w = a.x"),
    ("grouped_agg", [], f"SELECT x % 7, count(*), sum(x), min(x), max(x) FROM {GS}(1, 500) a(x) GROUP BY x % 7"),
    ("grouped_agg_many_groups", [], f"SELECT x % 700, count(*) FROM {GS}(1, 3000) a(x) GROUP BY x % 700"),
    ("ungrouped_agg", [], f"SELECT count(*), sum(x), avg(x) FROM {GS}(1, 500) a(x)"),
    ("ungrouped_agg_empty", [], f"SELECT count(*), sum(x) FROM {GS}(1, 500) a(x) WHERE x < 0"),
    ("distinct_agg", [], f"SELECT x % 5, count(DISTINCT x % 11), sum(DISTINCT x % 3) FROM {GS}(1, 500) a(x) GROUP BY x % 5"),
    ("distinct_agg_ungrouped", [], f"SELECT count(DISTINCT x % 11) FROM {GS}(1, 500) a(x)"),
    ("select_distinct", [], f"SELECT DISTINCT x % 13 FROM {GS}(1, 400) a(x)"),
    ("rollup", [], f"SELECT x % 3, x % 2, count(*) FROM {GS}(1, 200) a(x) GROUP BY ROLLUP (x % 3, x % 2)"),
    ("sort", [], f"SELECT x FROM {GS}(1, 700) a(x) ORDER BY x % 17, x DESC"),
    ("sort_limit", [], f"SELECT x FROM {GS}(1, 700) a(x) ORDER BY x % 17, x DESC LIMIT 20 OFFSET 5"),
    ("limit", [], f"SELECT count(*) FROM (SELECT x FROM {GS}(1, 5000) a(x) LIMIT 100) s"),
    ("union_all", [], f"SELECT x FROM {GS}(1, 100) a(x) UNION ALL SELECT y FROM {GS}(50, 160) b(y)"),
    ("union_distinct", [], f"SELECT x % 10 FROM {GS}(1, 100) a(x) UNION SELECT y % 15 FROM {GS}(50, 160) b(y)"),
    # (a MATERIALIZED CTE joined with itself trips a join-reorder assertion at plan time: C15 known finding; the CTE is scanned twice through a UNION instead)
    ("cte_materialized_twice", [], f"WITH c AS MATERIALIZED (SELECT x, x % 5 AS k FROM {GS}(1, 200) a(x)) SELECT count(*), sum(u.x) FROM (SELECT x FROM c UNION ALL SELECT x + k FROM c WHERE k > 1) u"),
    ("cte_materialized_join_other", [], f"WITH c AS MATERIALIZED (SELECT x, x % 5 AS k FROM {GS}(1, 200) a(x)) SELECT count(*) FROM c JOIN {GS}(1, 50) g(y) ON c.x = g.y WHERE c.k IN (SELECT k FROM c WHERE x < 4)"),
    ("cte_materialized_thrice", [], f"WITH c AS MATERIALIZED (SELECT x FROM {GS}(1, 100) a(x)) SELECT (SELECT count(*) FROM c), (SELECT sum(x) FROM c), (SELECT max(x) FROM c)"),
    ("scalar_subquery_corr", [], f"SELECT x, (SELECT count(*) FROM {GS}(1, 50) b(y) WHERE b.y < a.x) FROM {GS}(1, 30) a(x)"),
    ("big_result_backpressure", ["SET batch_size TO 16"], f"SELECT x, x * 2 FROM {GS}(1, 3000) a(x)"),
    ("agg_over_join_over_agg", [], f"SELECT k, sum(c) FROM (SELECT x % 6 AS k, count(*) AS c FROM {GS}(1, 300) a(x) GROUP BY x % 6) s JOIN {GS}(0, 5) g(y) ON g.y = s.k GROUP BY k ORDER BY k"),
    ("ctas_then_scan", ["CREATE TEMP TABLE ct AS SELECT x, x % 9 AS k FROM generate_series(1, 500) a(x)"], "SELECT k, count(*), sum(x) FROM ct GROUP BY k"),
    ("insert_then_scan", ["CREATE TEMP TABLE it (x BIGINT)", "INSERT INTO it SELECT x FROM generate_series(1, 400) a(x)", "INSERT INTO it SELECT x + 1000 FROM it"], "SELECT count(*), sum(x) FROM it"),
    ("values_join", [], "SELECT v.a, w.b FROM (VALUES (1), (2), (3), (NULL)) v(a) LEFT JOIN (VALUES (2), (3), (3), (NULL)) w(b) ON v.a = w.b"),
    # LIMIT (explicit or the LIMIT 1 of EXISTS) downstream of a join with a drain barrier: the partition that reaches the limit stops probing (F38 / F64)
    ("exists_over_left_join", ["CREATE TEMP TABLE ea (x BIGINT)", "INSERT INTO ea VALUES (1), (2)", "CREATE TEMP TABLE eb (y BIGINT)", "INSERT INTO eb VALUES (1)"],
     "SELECT x FROM ea WHERE EXISTS (SELECT 1 FROM ea a2 LEFT JOIN eb ON a2.x = eb.y WHERE a2.x = ea.x)"),
    ("not_exists_over_right_join", [], f"SELECT count(*) FROM {GS}(1, 40) a(x) WHERE NOT EXISTS (SELECT 1 FROM {GS}(1, 30) b(y) RIGHT JOIN {GS}(10, 60) c(z) ON b.y = c.z WHERE c.z = a.x)"),
    ("exists_corr_scalar_agg", ["CREATE TEMP TABLE et (k0 BIGINT, k1 BIGINT)", "INSERT INTO et VALUES (NULL,12345),(-1,NULL),(-22,-42),(-1000,-31),(4,NULL)"],
     "SELECT * FROM et q1 WHERE EXISTS (SELECT 1 FROM et q4 WHERE q4.k0 <> (SELECT sum(q7.k1) FROM et q7 WHERE q7.k0 = q4.k0))"),
    ("limit_over_left_join", [], f"SELECT count(*) FROM (SELECT a.x FROM {GS}(1, 300) a(x) LEFT JOIN {GS}(1, 100) b(y) ON a.x = b.y LIMIT 7) s"),
    ("limit_over_right_join", [], f"SELECT count(*) FROM (SELECT a.x FROM {GS}(1, 100) a(x) RIGHT JOIN {GS}(1, 300) b(y) ON a.x = b.y LIMIT 7) s"),
    ("limit_over_nl_left_join", ["SET enable_hash_joins TO false"], f"SELECT count(*) FROM (SELECT a.x FROM {GS}(1, 300) a(x) LEFT JOIN {GS}(1, 100) b(y) ON a.x = b.y LIMIT 7) s"),
    ("limit_over_union", [], f"SELECT count(*) FROM (SELECT x FROM (SELECT x FROM {GS}(1, 300) a(x) UNION ALL SELECT y FROM {GS}(1, 300) b(y)) u LIMIT 5) s"),
    ("limit_over_join_over_cte", [], f"WITH c AS MATERIALIZED (SELECT x FROM {GS}(1, 200) a(x)) SELECT count(*) FROM (SELECT c.x FROM c LEFT JOIN {GS}(1, 50) g(y) ON c.x = g.y LIMIT 3) s"),
    ("const_in_subquery", [], f"SELECT count(*) FROM {GS}(1, 20) a(x) WHERE 1 IN (SELECT y FROM {GS}(1, 5) b(y)) AND 9 NOT IN (SELECT y FROM {GS}(1, 5) b(y))"),
    ("runtime_error", [], f"SELECT sum(c) FROM (SELECT CASE WHEN x = 777 THEN 9223372036854775807 ELSE x END AS c FROM {GS}(1, 1000) a(x) UNION ALL SELECT 9223372036854775807) s"),
    ("cast_error_one_row", [], f"SELECT CAST(CASE WHEN x = 333 THEN 'zz' ELSE '1' END AS INT) FROM {GS}(1, 1000) a(x)"),
]


class Proc:
    def __init__(self, component):
        self.component = component
        self.p = None
        self.n = 0

    def call(self, req, timeout=120):
        if self.p is None or self.p.poll() is not None:
            self.p = subprocess.Popen([vlib.GVH, self.component], stdin=subprocess.PIPE, stdout=subprocess.PIPE, stderr=subprocess.PIPE, text=True, env=vlib.ENV, bufsize=1)
        self.n += 1
        req = dict(req, id=self.n)
        try:
            self.p.stdin.write(json.dumps(req) + "\n")
            self.p.stdin.flush()
        except BrokenPipeError:
            self.kill()
            return {"crash": "broken pipe"}
        deadline = time.time() + timeout
        while True:
            rem = deadline - time.time()
            if rem <= 0:
                self.kill()
                return {"timeout": True}
            r, _, _ = select.select([self.p.stdout], [], [], min(rem, 1.0))
            if not r:
                if self.p.poll() is not None:
                    err = self.p.stderr.read()[-500:]
                    self.kill()
                    return {"crash": err}
                continue
            line = self.p.stdout.readline()
            if not line:
                err = self.p.stderr.read()[-500:] if self.p.poll() is not None else ""
                self.kill()
                return {"crash": err}
            try:
                msg = json.loads(line)
            except json.JSONDecodeError:
                continue
            if msg.get("id") == self.n and "start" not in msg:
                return msg

    def kill(self):
        if self.p is not None:
            try:
                self.p.kill()
                self.p.wait(timeout=5)
            except Exception:
                pass
        self.p = None


def sched_component(ck, runner, rng, tier):
    comp = "sched"
    proc = Proc("sched")
    parts = [1, 2, 3, 4, 8] if tier == "quick" else [1, 2, 3, 4, 5, 8, 16]
    k_random = 20 if tier == "quick" else 300
    stats = {"runs": 0, "rows": 0, "err": 0, "max_steps": 0, "wakes": 0, "spurious": 0, "wakes_after_done": 0, "tasks_max": 0}
    for name, setup, query in SHAPES:
        ref = runner.run(list(setup) + [query], timeout=60)
        if isinstance(ref, dict):
            ck.violation(f"sched/{name}/reference-crash", f"the ordinary multi-threaded run of shape {name} crashes or hangs", {"kind": "crash", "stmts": setup + [query], "result": ref})
            continue
        ref = ref[-1]
        ref_kind = "rows" if "rows" in ref else "err"
        for P in parts:
            for policy, spur, k in [("random", 0, k_random), ("random", 25, k_random), ("fifo", 0, 1), ("lifo", 0, 1), ("starve-client", 10, 2), ("client-first", 10, 2)]:
                seed = rng.next() % (2 ** 31)
                req = {"partitions": P, "seed": seed, "schedules": k, "spurious": spur, "policy": policy, "setup": [f"SET partitions TO {P}"] + list(setup), "query": query}
                res = proc.call(req, timeout=180)
                if "runs" not in res:
                    ck.violation(f"sched/{name}/harness-crash", f"controlled run of {name} (P={P}, {policy}) died: {str(res)[:200]}", {"kind": "crash", "request": req, "result": res})
                    continue
                for i, run in enumerate(res["runs"]):
                    stats["runs"] += 1
                    ck.count(comp, 1)
                    ck.nontrivial((name, P, policy, seed, i))
                    out = run.get("outcome")
                    stats["max_steps"] = max(stats["max_steps"], run.get("steps", 0))
                    stats["tasks_max"] = max(stats["tasks_max"], run.get("tasks", 0))
                    for f in ("wakes", "spurious", "wakes_after_done"):
                        stats[f] += run.get(f, 0)
                    replay = {"kind": "schedule", "shape": name, "partitions": P, "policy": policy, "spurious_pct": spur, "seed": seed, "schedule_index": i, "setup": req["setup"], "query": query,
                              "trace_task_ids": run.get("trace"), "replay_cmd": f"echo '{json.dumps(dict(req, id=1))}' | {vlib.GVH} sched"}
                    if out in ("hang", "livelock"):
                        ck.violation(f"sched/{name}/{out}", f"lost wake-up: shape {name} with {P} partitions stops with work remaining under a {policy} schedule ({run.get('unfinished_pipelines')} pipelines unfinished, no task runnable)"
                                     if out == "hang" else f"shape {name} with {P} partitions does not terminate within 400000 polls under a {policy} schedule", dict(replay, run={k: v for k, v in run.items() if k != 'rows'}))
                    elif out == "panic" or out == "setup-failed":
                        ck.violation(f"sched/{name}/{out}", f"shape {name} (P={P}, {policy}): {str(run)[:200]}", dict(replay, run=run))
                    elif out == "rows":
                        stats["rows"] += 1
                        if ref_kind != "rows" or bag(run["rows"]) != bag(ref["rows"]):
                            ck.violation(f"sched/{name}/result-depends-on-schedule", f"shape {name} with {P} partitions under a {policy} schedule returns {len(run['rows'])} rows; the ordinary run "
                                         + (f"returns {len(ref['rows'])} rows" if ref_kind == 'rows' else f"fails: {ref.get('err', '')[:80]}"), dict(replay, got=run["rows"][:10], reference=(ref.get("rows") or [])[:10]))
                    elif out == "err":
                        stats["err"] += 1
                        if ref_kind == "rows":
                            ck.violation(f"sched/{name}/error-depends-on-schedule", f"shape {name} with {P} partitions under a {policy} schedule fails ({run.get('err', '')[:100]}); the ordinary run returns rows", dict(replay, err=run.get("err")))
    proc.kill()
    for k, v in stats.items():
        ck.note(comp, k, v)


def sched_generated(ck, rng, tier):
    """Random typed queries (the generator of C01-C03: joins of every kind, EXISTS / IN / scalar subqueries, aggregates, DISTINCT,
    UNION, LIMIT, CASE) under the controlled scheduler: no schedule may stop with work remaining, run forever or panic, and a
    schedule may not turn rows into an error or an error into rows. (Which rows come out is C01/C03's business: a LIMIT without
    ORDER BY may legitimately return different rows under different schedules.)"""
    import qgen
    comp = "sched_generated"
    proc = Proc("sched")
    feats = {"join", "outer", "semi", "agg", "distinct", "union", "limit", "case", "inlist", "rollup"}
    ndb = 150 if tier == "quick" else 2500
    stats = {"queries": 0, "runs": 0, "rows": 0, "err": 0, "exists_over_outer_join": 0, "with_limit": 0}
    for d in range(ndb):
        db = qgen.gen_db(rng, ntables=3, max_rows=rng.pick([4, 12, 30]))
        g = qgen.Gen(rng, db, feats)
        setup = qgen.setup_sql(db, inserts=rng.pick([1, 2, 3]))
        for _ in range(4):
            q, ty = g.query(rng.pick([2, 3, 3, 4]))
            if qgen.excluded(q) or not ty:
                continue
            sql = qgen.Renderer(g.schema).query(q)
            stats["queries"] += 1
            stats["exists_over_outer_join"] += 1 if qgen.has_exists_over_outer_join(q) else 0
            stats["with_limit"] += 1 if " LIMIT " in sql else 0
            kinds = set()
            for P in ([2, 4] if tier == "quick" else [2, 3, 4, 8]):
                seed = rng.next() % (2 ** 31)
                req = {"partitions": P, "seed": seed, "schedules": 3 if tier == "quick" else 8, "spurious": rng.pick([0, 20]), "policy": rng.pick(["random", "random", "lifo", "starve-client"]),
                       "setup": [f"SET partitions TO {P}"] + setup, "query": sql}
                res = proc.call(req, timeout=180)
                if "runs" not in res:
                    ck.violation("sched_generated/harness-crash", f"controlled run of a generated query (P={P}) died: {str(res)[:200]}", {"kind": "crash", "request": req, "result": res})
                    continue
                for i, run in enumerate(res["runs"]):
                    stats["runs"] += 1
                    ck.count(comp, 1)
                    ck.nontrivial((sql, P, seed, i))
                    out = run.get("outcome")
                    replay = {"kind": "schedule", "partitions": P, "policy": req["policy"], "spurious_pct": req["spurious"], "seed": seed, "schedule_index": i, "setup": req["setup"], "query": sql,
                              "trace_task_ids": run.get("trace"), "replay_cmd": f"echo '{json.dumps(dict(req, id=1))}' | {vlib.GVH} sched"}
                    if out in ("hang", "livelock"):
                        ck.violation(f"sched_generated/{out}", f"lost wake-up: a generated query with {P} partitions stops with work remaining ({run.get('unfinished_pipelines')} pipelines unfinished, no task runnable): {sql[:200]}"
                                     if out == "hang" else f"a generated query with {P} partitions does not terminate within 400000 polls: {sql[:200]}", dict(replay, run={k: v for k, v in run.items() if k != 'rows'}))
                    elif out in ("panic", "setup-failed"):
                        ck.violation(f"sched_generated/{out}", f"generated query (P={P}): {str(run)[:200]}", dict(replay, run=run))
                    elif out in ("rows", "err"):
                        stats[out] += 1
                        kinds.add(out)
            if len(kinds) > 1:
                ck.violation("sched_generated/error-depends-on-schedule", f"a generated query returns rows under some schedules and fails under others: {sql[:200]}", {"kind": "schedule", "setup": setup, "query": sql})
    proc.kill()
    for k, v in stats.items():
        ck.note(comp, k, v)


def execstack_oracle(nops, calls, end):
    """The property on the real call log alone (no model): when the stack reports Finished, every operator but the source has
    been finalized (answered Finalized/NeedsDrain to a finalize call) or has answered Exhausted, no operator is finalized twice,
    and an operator is not executed after its successful finalize unless it is draining (answered NeedsDrain). Applies when the
    operators respect the protocol: the operator acting as the start of the pipeline (operator 0, or an operator that answered
    NeedsDrain) never answers NeedsMore."""
    finalized, drained, exhausted = [], set(), set()
    for kind, idx, ans in calls:
        if kind == "e":
            if ans == 2 and (idx == 0 or idx in drained):
                return "skip"                   # protocol hypothesis does not hold for this script
            if idx in finalized and idx not in drained:
                return f"operator {idx} executed after it was finalized"
            if ans == 4:
                exhausted.add(idx)
        else:
            if ans in (0, 1):
                if idx in finalized:
                    return f"operator {idx} finalized twice"
                finalized.append(idx)
                if ans == 1:
                    drained.add(idx)
    if end == 1:
        missing = [j for j in range(1, nops) if j not in finalized and j not in exhausted]
        if missing:
            return f"the pipeline finished but operator(s) {missing} were never finalized (partitions waiting on them in other pipelines wait forever)"
    return "ok"


def execstack_component(ck, tier):
    comp = "execstack"
    res = vlib.run_pair("execstack", [ck.seed, 4000 if tier == "quick" else 150000])
    if res["rc"] != 0 or not res["cases"]:
        ck.violation("execstack/harness", "gvh execstack failed: " + res["stderr"][-300:], {"correspondence": "gvh execstack", "stderr": res["stderr"]}, found_input=False)
        return
    diffs = 0
    ends = {"0": 0, "1": 0, "2": 0}
    oracle = {"ok": 0, "skip": 0, "bad": 0}
    upstream_finalizes = 0
    for k, line in res["cases"].items():
        ck.count(comp, 1)
        ck.nontrivial(line)
        i, m = res["impl"].get(k), res["model"].get(k)
        toks = (i or "").split()
        end = int(toks[-1].split("=")[1]) if toks and toks[-1].startswith("end=") else -1
        ends[str(end)] = ends.get(str(end), 0) + 1
        calls = [(t[0], int(t[1:].split(":")[0]), int(t.split(":")[1])) for t in toks[:-1]]
        nops = int(line.split()[3])
        v = execstack_oracle(nops, calls, end)
        # a finalize of an operator below an exhausted one (the repaired path) was exercised
        ex = [c[1] for c in calls if c[0] == "e" and c[2] == 4]
        if any(c[0] == "f" and any(c[1] < x for x in ex) for c in calls):
            upstream_finalizes += 1
        if v == "ok" or v == "skip":
            oracle[v] += 1
        else:
            oracle["bad"] += 1
            ck.violation("execstack/finished-without-finalize", f"ExecutionStack::pop_next: {v} ({line[:160]})", {"kind": "impl-vs-oracle", "case": line, "impl": i, "replay_cmd": f"{vlib.GVH} execstack {ck.seed} (case {k})"})
        if i != m:
            diffs += 1
            if diffs <= 3:
                ck.violation("execstack/model-diff", f"Core/ExecStack.lean and ExecutionStack::pop_next disagree: {line[:160]} impl={i} model={m}", {"correspondence": "ExecStack.step vs ExecutionStack::pop_next", "case": line, "impl": i, "model": m}, found_input=False)
    ck.note(comp, "model_diffs", diffs)
    ck.note(comp, "ends(script-used-up/finished/error)", ends)
    ck.note(comp, "oracle", oracle)
    ck.note(comp, "cases_with_upstream_finalize", upstream_finalizes)


def cancel_component(ck, rng, tier):
    comp = "cancel"
    proc = Proc("cancel")
    # (name, query, baseline must exceed ms)
    long_q = "SELECT count(*), sum(x) FROM generate_series(1, 700000000) g(x)"
    join_q = "SELECT count(*) FROM generate_series(1, 40000) a(x), generate_series(1, 20000) b(y) WHERE a.x + b.y = 7"
    sort_q = "SELECT x FROM generate_series(1, 30000000) g(x) ORDER BY x % 1000, x DESC LIMIT 5"
    for name, q in [("scan_agg", long_q), ("cross_join", join_q), ("sort", sort_q)]:
        for threads, P in ([(4, 4), (1, 1), (2, 8)] if tier == "quick" else [(4, 4), (1, 1), (2, 8), (8, 8), (1, 4), (4, 1)]):
            base = proc.call({"threads": threads, "partitions": P, "delay_ms": -1, "query": q}, timeout=300)
            ck.count(comp, 1)
            if base.get("outcome") != "rows":
                ck.violation(f"cancel/{name}/baseline", f"baseline run failed: {str(base)[:200]}", {"kind": "crash", "query": q, "result": base})
                continue
            T = base["elapsed_ms"]
            for delay in [0, 20, 150]:
                if T < delay * 3 + 600:
                    continue          # too fast to tell a lost cancel from a finished query
                r = proc.call({"threads": threads, "partitions": P, "delay_ms": delay, "query": q}, timeout=300)
                ck.count(comp, 1)
                ck.nontrivial((name, threads, P, delay))
                replay = {"kind": "cancel", "query": q, "threads": threads, "partitions": P, "cancel_after_ms": delay, "baseline_ms": T, "result": r,
                          "replay_cmd": f"echo '{json.dumps({'id': 1, 'threads': threads, 'partitions': P, 'delay_ms': delay, 'query': q})}' | {vlib.GVH} cancel"}
                if "outcome" not in r:
                    ck.violation(f"cancel/{name}/hang-or-crash", f"cancelling {name} after {delay} ms: no answer ({str(r)[:120]})", replay)
                elif r["outcome"] == "rows":
                    ck.violation(f"cancel/{name}/cancel-lost", f"QueryHandle::cancel {delay} ms into a {T} ms query ({threads} threads, {P} partitions): the stream ended normally with rows after {r['elapsed_ms']} ms instead of an error", replay)
                elif r["elapsed_ms"] > delay + max(1500, T // 2):
                    ck.violation(f"cancel/{name}/cancel-late", f"cancel after {delay} ms took effect only after {r['elapsed_ms']} ms (baseline {T} ms)", replay)
    # cancel while the client is draining a result and producers queue behind the single-slot buffer: the client's poll_next
    # wakes producers under the stream's lock while the canceller reports the error from inside schedule() - the lock-order
    # inversion of finding F58 deadlocked here (measured on the unrepaired tree: about one deadlock per 100 iterations with the
    # first two queries, none with a plain scan)
    drain_qs = ["SELECT CAST(CASE WHEN x = 77777 THEN 'zz' ELSE '1' END AS INT) FROM generate_series(1, 100000) a(x)", "SELECT CAST('1' AS INT) + x FROM generate_series(1, 300000) a(x)",
                "SELECT x, x * 2, x % 7 FROM generate_series(1, 1500000) g(x)"]
    n = 450 if tier == "quick" else 5000
    for i in range(n):
        drain_q = drain_qs[2 if i % 9 == 8 else i % 2]
        threads, P = rng.pick([(4, 8), (2, 4), (8, 8), (1, 2), (4, 3)])
        delay = rng.pick([0, 1, 2, 3, 5, 8, 13, 20, 30])
        r = proc.call({"threads": threads, "partitions": P, "delay_ms": delay, "query": drain_q}, timeout=25)
        ck.count(comp, 1)
        ck.nontrivial(("drain", threads, P, delay, i))
        if "outcome" not in r:
            ck.violation("cancel/drain/hang-or-crash", f"cancelling a query {delay} ms in, while the client is reading its result ({threads} threads, {P} partitions): the stream never ends ({str(r)[:100]})",
                         {"kind": "cancel", "query": drain_q, "threads": threads, "partitions": P, "cancel_after_ms": delay, "iteration": i, "result": r,
                          "replay_cmd": f"for i in $(seq 300); do echo '{json.dumps({'id': 1, 'threads': threads, 'partitions': P, 'delay_ms': delay, 'query': drain_q})}' | timeout 60 {vlib.GVH} cancel || echo HANG; done"})
            break
    proc.kill()


def tasktrace_component(ck, rng, tier):
    """Real executions on the thread pool (with and without cancellation, with run-time errors) log every ScheduleState
    transition of every task (cfg hook in glaredb_rt_native); each task's trace must be a run of the Lean Task model."""
    comp = "tasktrace"
    queries = ["SELECT count(*) FROM generate_series(1, 200000) a(x) JOIN generate_series(1, 1000) b(y) ON a.x = b.y",
               "SELECT x % 10, count(*), sum(x) FROM generate_series(1, 3000000) a(x) GROUP BY x % 10",
               "SELECT x FROM generate_series(1, 2000000) a(x) ORDER BY x % 1000, x DESC LIMIT 5",
               "SELECT CAST(CASE WHEN x = 77777 THEN 'zz' ELSE '1' END AS INT) FROM generate_series(1, 100000) a(x)",
               "WITH c AS MATERIALIZED (SELECT x FROM generate_series(1, 100000) a(x)) SELECT count(*) FROM (SELECT x FROM c UNION ALL SELECT x + 1 FROM c) u",
               "SELECT count(*), sum(x) FROM generate_series(1, 200000000) g(x)"]
    reqs = []
    n = 24 if tier == "quick" else 300
    for i in range(n):
        q = rng.pick(queries)
        delay = rng.pick([-1, -1, 0, 1, 5, 20, 60])
        reqs.append({"id": i, "threads": rng.pick([1, 2, 4, 8]), "partitions": rng.pick([1, 2, 3, 8]), "delay_ms": delay, "query": q})
    inp = "\n".join(json.dumps(r) for r in reqs) + "\n"
    try:
        p = subprocess.run([vlib.GVH, "tasktrace"], input=inp, capture_output=True, text=True, timeout=900, env=vlib.ENV)
    except subprocess.TimeoutExpired:
        ck.violation("tasktrace/hang", "gvh tasktrace did not finish in 900 s", {"kind": "crash", "requests": reqs[:5]})
        return
    if p.returncode != 0:
        ck.violation("tasktrace/harness", "gvh tasktrace failed: " + p.stderr[-300:], {"correspondence": "gvh tasktrace", "stderr": p.stderr[-800:]}, found_input=False)
        return
    cases = [l for l in p.stdout.split("\n") if l.startswith("case ")]
    outs = vlib.run_model(cases, timeout=300).get("out", {})
    rejected = 0
    nev = 0
    for l in cases:
        k = l.split(" ")[1]
        ck.count(comp, 1)
        nev += len(l.split(" ")) - 3
        ck.nontrivial(l.split(" ", 3)[3] if len(l.split(" ", 3)) > 3 else k)
        o = outs.get(k, "missing")
        if o != "accept":
            rejected += 1
            if rejected <= 3:
                ck.violation("tasktrace/model-diff", f"a task's logged ScheduleState transitions are not a run of the Lean Task model ({o}): {l[:300]}",
                             {"correspondence": "Proto.accept vs TaskState::schedule / worker loop (event log)", "trace": l, "model": o}, found_input=False)
    ck.note(comp, "tasks", len(cases))
    ck.note(comp, "events", nev)
    ck.note(comp, "rejected", rejected)
    ck.note(comp, "queries", len(reqs))


def error_component(ck, runner, tier):
    comp = "errors"
    q = "SELECT CAST(CASE WHEN x = {k} THEN 'zz' ELSE '1' END AS INT) FROM generate_series(1, {n}) a(x)"
    for P in [1, 2, 3, 8, 16]:
        for n, k in [(1000, 1), (1000, 1000), (100000, 77777), (5, 3)]:
            for threads in ([4] if tier == "quick" else [1, 4, 8]):
                stmts = [f"SET partitions TO {P}", q.format(k=k, n=n), "SELECT 1"]
                res = runner.run(stmts, threads=threads, timeout=60)
                ck.count(comp, 1)
                ck.nontrivial((P, n, k, threads))
                if isinstance(res, dict):
                    ck.violation("errors/hang-or-crash", f"a run-time error in one partition (P={P}) hangs or kills the process", {"kind": "crash", "stmts": stmts, "result": res})
                elif "err" not in res[1]:
                    ck.violation("errors/error-not-delivered", f"a failing cast on row {k} of {n} under partitions={P} did not reach the client: {str(res[1])[:120]}", {"kind": "impl-vs-oracle", "stmts": stmts, "result": res[1]})
                elif "rows" not in res[2]:
                    ck.violation("errors/session-dead-after-error", "the session does not answer after a failed query", {"kind": "impl-vs-oracle", "stmts": stmts, "result": res[2]})


def main():
    tier = sys.argv[1] if len(sys.argv) > 1 else "quick"
    ck = vlib.Check("C04", tier)
    ck.coverage["rule"] = (f"{len(SHAPES)} query shapes covering every cross-partition barrier (hash / nested-loop joins of every kind incl. probe sides that never produce a row, grouped / ungrouped / DISTINCT aggregates, sorts, "
                           "limits, unions, materialized CTEs scanned 2-3 times, CTAS, INSERT..SELECT, result back-pressure, run-time errors) x partitions x schedules (random with and without spurious wakes, fifo, lifo, "
                           "client-starving, client-first) under a wake-only controlled scheduler; randomly generated typed queries (joins of every kind, EXISTS/IN/scalar subqueries, aggregates, LIMIT) under the same scheduler; cancellation at 0/20/150 ms of long scans, joins and sorts on the real thread pool; errors in one partition; distinct = (shape, P, policy, seed)")
    ck.assumptions = ["one critical section of the Rust code = one atomic model action", "interleavings below poll granularity (inside one poll_execute) and rayon's own fairness are not controlled",
                      "cancellation is tested on the real thread pool (timing dependent): a lost cancel is only reported when the query would otherwise run at least 3x longer than the cancel delay + 0.6 s"]
    proof_ok = ck.proof_step()
    ok, blog, secs = vlib.build_harness()
    ck.coverage["harness_build_s"] = round(secs, 1)
    if not ok:
        ck.violation("harness/build", "harness does not build against /repo", {"correspondence": "harness build", "log": blog[-1500:]}, found_input=False)
        sys.exit(ck.finish())
    runner = vlib.SqlRunner(mem_gb=8)
    rng = Rng(ck.seed * 6007 + 4)
    try:
        t0 = time.time()
        sched_component(ck, runner, rng, tier)
        ck.note("sched", "wall_s", round(time.time() - t0, 1))
        t0 = time.time()
        sched_generated(ck, rng, tier)
        ck.note("sched_generated", "wall_s", round(time.time() - t0, 1))
        t0 = time.time()
        error_component(ck, runner, tier)
        if not vlib.HARNESS_DEGRADED:
            execstack_component(ck, tier)
            tasktrace_component(ck, rng, tier)
        cancel_component(ck, rng, tier)
        ck.note("cancel", "wall_s", round(time.time() - t0, 1))
    finally:
        runner.close()
    if not proof_ok:
        ck.violation("proof/C04", "proof obligation of Props/C04.lean no longer checks", {"theorem": "GlareModel.Props.C04.*", "log": ck.broken_proof}, found_input=bool(ck.violations))
    sys.exit(ck.finish())


if __name__ == "__main__":
    main()
