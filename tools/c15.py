#!/usr/bin/env python3
"""C15 — Every statement text yields a result or an error; the session survives.

Components
  tokenizer   real Tokenizer vs Core/Tokens.lean on random / SQL-shaped / Unicode strings (token stream, error
              character, parenthesis depth); the real tokenizer must never panic
  statements  valid statements, token-level mutations of them, random Unicode text, trailing garbage with multi-byte
              characters, ill-typed and unsupported statements, run-time failures - each followed in the same session
              by a dump of settings and catalog: outcome must be rows or error; after an error the dump is unchanged
  nesting     nesting bombs (parentheses, operator chains, NOT/unary towers, CASE towers, nested subqueries, CTE chains,
              long IN lists, many-way joins) at small depths must work; large depths are known findings
"""
import re
import sys

import qgen
import vlib
from sqlutil import Rng

SETTINGS = ["partitions", "batch_size", "enable_optimizer", "enable_hash_joins", "verify_optimized_plan", "enable_function_chaining", "per_partition_counts"]
DUMP = [f"SHOW {s}" for s in SETTINGS] + [
    "SELECT schema_name FROM list_schemas() WHERE database_name = 'temp' ORDER BY 1",
    "SELECT schema_name, table_name FROM list_tables() WHERE database_name = 'temp' ORDER BY 1, 2",
    "SELECT schema_name, view_name FROM list_views() WHERE database_name = 'temp' ORDER BY 1, 2",
    "SELECT count(*), sum(a) FROM base1"]

SETUP = ["CREATE TEMP TABLE base1 (a BIGINT, b TEXT, c BOOLEAN, d DECIMAL(10,2), e DOUBLE, f DATE)",
         "INSERT INTO base1 VALUES (1, 'x', true, 1.50, 2.5, DATE '2020-01-02'), (2, NULL, false, -3.25, NULL, NULL), (NULL, 'é', NULL, 0.00, 0.0, DATE '1999-12-31')",
         "CREATE TEMP TABLE base2 (a BIGINT, g INT)", "INSERT INTO base2 VALUES (1, 10), (1, 11), (3, 30)",
         "CREATE TEMP VIEW v1 AS SELECT a, b FROM base1 WHERE a > 0", "CREATE SCHEMA s1"]

VALID = [
    "SELECT 1", "SELECT a, b FROM base1 WHERE a > 1 ORDER BY a DESC NULLS LAST LIMIT 2 OFFSET 1", "SELECT count(*), sum(a), min(b), max(f) FROM base1 GROUP BY c HAVING count(*) > 0",
    "SELECT * FROM base1 t JOIN base2 u ON t.a = u.a LEFT JOIN base2 w ON w.g = u.g + 1", "SELECT a FROM base1 UNION ALL SELECT g FROM base2 UNION SELECT 3",
    "SELECT CASE WHEN a IS NULL THEN 'n' WHEN a > 1 THEN 'big' ELSE b END FROM base1", "SELECT a, (SELECT max(g) FROM base2 WHERE base2.a = base1.a) FROM base1",
    "SELECT * FROM base1 WHERE a IN (SELECT a FROM base2) AND EXISTS (SELECT 1 FROM base2 WHERE g > 10)", "WITH c AS (SELECT a FROM base1) SELECT * FROM c, c AS c2 WHERE c.a = c2.a",
    "SELECT a::TEXT, b::INT, CAST(d AS DOUBLE), e::DECIMAL(5,1), f::TEXT, '2020-02-30'::DATE FROM base1", "SELECT upper(b), length(b), substring(b, 1, 2), b || 'z', lpad(b, 4, '*'), b LIKE 'x%' FROM base1",
    "SELECT abs(a), a % 2, a * 2 + 1, -a, round(d, 1), floor(e), a BETWEEN 1 AND 2, coalesce(a, 0), nullif(a, 1) FROM base1", "SELECT DISTINCT c, count(DISTINCT a) FROM base1 GROUP BY ROLLUP (c)",
    "SELECT * FROM generate_series(1, 5) g(x) WHERE x % 2 = 0", "SELECT * FROM v1", "DESCRIBE base1", "DESCRIBE SELECT a + 1 AS x FROM base1", "EXPLAIN SELECT * FROM base1 WHERE a = 1",
    "EXPLAIN VERBOSE SELECT count(*) FROM base1 GROUP BY b", "SHOW partitions", "SHOW TABLES", "SHOW SCHEMAS", "SET partitions TO 3", "SET batch_size TO 512", "RESET partitions", "SET enable_optimizer TO false",
    "SET enable_hash_joins TO false", "SET verify_optimized_plan TO true", "RESET verify_optimized_plan", "CREATE TEMP TABLE n1 (x INT, y TEXT)", "CREATE TEMP TABLE IF NOT EXISTS n1 (x INT)",
    "INSERT INTO base2 VALUES (7, 70)", "INSERT INTO base2 SELECT a, a::INT FROM base1 WHERE a IS NOT NULL", "CREATE TEMP TABLE n2 AS SELECT a, b FROM base1", "CREATE TEMP VIEW v2 AS SELECT g FROM base2",
    "DROP TABLE IF EXISTS n1", "DROP TABLE n2", "CREATE SCHEMA IF NOT EXISTS s2", "DROP SCHEMA IF EXISTS s2", "CREATE TEMP TABLE s1.q (z BIGINT)", "SELECT * FROM s1.q",
    "SELECT * FROM (VALUES (1, 'a'), (2, 'b')) v(x, y)", "SELECT x FROM unnest([1, 2, 3]) u(x)", "SELECT [1, 2][1], {'a': 1}", "SELECT * FROM (SELECT unnest([1,2,3]) AS u) s WHERE false",
    "SELECT a FROM base1 ORDER BY 1", "SELECT b, count(*) FROM base1 GROUP BY 1 ORDER BY 2 DESC", "SELECT * FROM base1 t, LATERAL (SELECT g FROM base2 WHERE base2.a = t.a) l",
    "SELECT sum(a) FILTER (WHERE a > 1) FROM base1", "SELECT a, row_number() OVER (ORDER BY a) FROM base1", "SELECT date_part('year', f), date_trunc('month', f) FROM base1",
    "SELECT e / 0, e * 1e0, sqrt(e), ln(e) FROM base1", "SELECT * FROM read_csv('/nonexistent/file.csv')", "SELECT * FROM read_parquet('/nonexistent/file.parquet')", "SELECT * FROM 'nope.csv'",
    "SELECT interval '1 day', TIMESTAMP '2020-01-01 00:00:00', DATE '2020-01-01' + 1", "SELECT a.b.c.d FROM base1", "SELECT \"a\" FROM \"base1\"", "SELECT * FROM list_functions() LIMIT 3",
    # minimized past failures (F66 constant IN subquery, F38/F64 EXISTS over an outer join / correlated scalar aggregate)
    "SELECT * FROM base1 WHERE 1 IN (SELECT a FROM base2)", "SELECT * FROM base1 WHERE 1 IN (SELECT a FROM base2) AND EXISTS (SELECT a FROM base2 WHERE g > 10)",
    "SELECT * FROM base1 WHERE 1 IN (SELECT a FROM base2) AND 10 IN (SELECT g FROM base2)", "SELECT a FROM base1 WHERE EXISTS (SELECT 1 FROM base1 x LEFT JOIN base2 ON x.a = base2.a WHERE x.a = base1.a)",
    "SELECT * FROM base2 q1 WHERE EXISTS (SELECT 1 FROM base2 q4 WHERE q4.a <> (SELECT sum(q7.g) FROM base2 q7 WHERE q7.a = q4.a))",
    "ATTACH 'x' AS y", "DETACH y", "COPY base1 TO 'x.csv'", "BEGIN", "COMMIT", "PREPARE p AS SELECT 1", "SELECT $1", "SELECT ?",
]

# statements whose evaluation fails on some row at run time (worker thread), or at plan time (constant folding)
RUNTIME_FAIL = [
    "SELECT b::INT FROM base1", "SELECT CAST(b AS DATE) FROM base1", "SELECT sum(x) FROM (VALUES (CAST(9223372036854775807 AS BIGINT)), (CAST(9223372036854775807 AS BIGINT))) v(x)",
    "SELECT 'abc'::INT", "SELECT '99999999999999999999'::DECIMAL(10,2)", "SELECT regexp_replace(b, '(', 'x') FROM base1", "SELECT b LIKE '\\' FROM base1", "SELECT length(repeat(b, 1000000)) FROM base1", "SELECT length(repeat(b, 10000001000000)) FROM base1",
    "SELECT substring(b, -5, 2), substring(b, 0), lpad(b, -1, 'x'), rpad(b, 5, ''), left(b, -9), right(b, -9) FROM base1", "SELECT a::TINYINT * 100 FROM base1 WHERE a = 0",
    "SELECT (d * 1000000000000)::DECIMAL(4,2) FROM base1", "SELECT e::INT, (e * 1e300 * 1e300)::BIGINT FROM base1", "SELECT generate_series(1, 3, 0)", "SELECT * FROM generate_series(1, 10, 0)",
    "SELECT date_part('nope', f) FROM base1", "SELECT f + 100000000 FROM base1", "INSERT INTO base2 SELECT a, b::INT FROM base1", "CREATE TEMP TABLE bad AS SELECT b::INT AS x FROM base1",
    "SELECT [1,2][a] FROM base1", "SELECT chr(a::INT * 100000000) FROM base1", "SELECT to_timestamp(e * 1e300) FROM base1",
]

INT_ARITH_PANICS = ("attempt to add with overflow", "attempt to subtract with overflow", "attempt to multiply with overflow", "attempt to divide by zero", "attempt to negate with overflow",
                    "attempt to calculate the remainder with a divisor of zero", "attempt to divide with overflow", "attempt to calculate the remainder with overflow")

TOKEN_RE = re.compile(r"\s+|[A-Za-z_][A-Za-z_0-9]*|[0-9]+(?:\.[0-9]+)?|'[^']*'|\"[^\"]*\"|<>|<=|>=|!=|\|\||::|.", re.S)
POOL = ["SELECT", "FROM", "WHERE", "GROUP", "BY", "ORDER", "LIMIT", "JOIN", "ON", "AS", "(", ")", ",", "*", "+", "-", "/", "%", "=", "<", ">", "AND", "OR", "NOT", "NULL", "CASE", "WHEN", "THEN", "ELSE",
        "END", "IN", "EXISTS", "BETWEEN", "LIKE", "IS", "DISTINCT", "UNION", "ALL", "CREATE", "TEMP", "TABLE", "VIEW", "INSERT", "INTO", "VALUES", "DROP", "SET", "TO", "1", "0", "-1", "'x'", "''", "base1",
        "base2", "a", "b", ";", "::", "INT", "TEXT", "[", "]", "{", "}", ".", "\"", "'", "--", "é", "Ω", "💥", "\t", "\n", "9223372036854775807", "1e400", "0.0000000000000000000000000000000000000001",
        "count", "sum", "OVER", "LATERAL", "WITH", "DESCRIBE", "EXPLAIN", "SHOW", "TRUE", "FALSE", "INTERVAL", "DATE", "CAST", "$1", "?", "@", "\\", "`", "^@", "=>", "**", "//", " ", "​", "\u0000"]


def mutate(rng, sql):
    toks = TOKEN_RE.findall(sql)
    if not toks:
        return sql
    k = rng.below(9)
    i = rng.below(len(toks))
    if k == 0:
        del toks[i]
    elif k == 1:
        toks.insert(i, toks[i])
    elif k == 2 and len(toks) > 1:
        j = rng.below(len(toks))
        toks[i], toks[j] = toks[j], toks[i]
    elif k == 3:
        toks[i] = rng.pick(POOL)
    elif k == 4:
        toks.insert(i, rng.pick(POOL))
    elif k == 5:
        toks = toks[:i]
    elif k == 6:
        j = rng.below(len(toks))
        toks = toks[:min(i, j)] + toks[max(i, j):]
    elif k == 7:
        toks.insert(i, rng.pick(["(", ")", "'", "\"", "((", "))"]))
    else:
        other = TOKEN_RE.findall(rng.pick(VALID))
        j = rng.below(len(other))
        toks = toks[:i] + other[j:]
    return "".join(toks)


def random_text(rng):
    alpha = "abcXYZ019 \t\n'\"();,.*+-/%=<>!|&~:^#@$?\\[]{}_éΩß中٣²💥 ​\u0000﻿"
    return "".join(rng.pick(alpha) for _ in range(rng.below(60)))


def trailing_garbage(rng):
    """A complete statement followed, without a semicolon, by 40-160 bytes of text with multi-byte characters at every
    alignment (error messages that quote or truncate the remainder must respect character boundaries)."""
    tail = "".join(rng.pick(["é", "Ω", "中", "💥", "x", "y ", "'q' ", "1 "]) for _ in range(15 + rng.below(50)))
    lead = "x" * rng.below(4)
    return rng.pick(["SELECT 1 ", "SELECT a FROM base1 ", "SHOW partitions ", "DROP TABLE IF EXISTS zz "]) + rng.pick(["SELECT '", "", "garbage ", "FROM "]) + lead + tail + rng.pick(["'", "", ")"])


def tokenizer_component(ck, rng, tier):
    comp = "tokenizer"
    n = 4000 if tier == "quick" else 60000
    alpha = list("abzAZ_09 \t\n\r'\"();,.*+-/%=<>!|&~:^#@[]") + ["é", "Ω", "ß", "ж", "中", "٣", "²", "{", "}", "?", "$", "\\", "`", "€", "💥"]
    lines = []
    for i in range(n):
        c = rng.below(10)
        if c < 4:
            s = "".join(rng.pick(alpha) for _ in range(rng.below(40)))
        elif c < 7:
            s = mutate(rng, rng.pick(VALID + RUNTIME_FAIL))
            s = "".join(ch for ch in s if ord(ch) < 128 or ch in "éΩß中٣²€💥")
        elif c < 8:
            d = rng.pick([1, 2, 10, 100, 1000])
            s = "(" * d + rng.pick(["1", "a", "'", ""]) + ")" * rng.pick([d, d - 1, 0])
        else:
            s = "".join(rng.pick(["--", "-", "'", "''", "\"", ".", "..", "1.", ".5", "1.2.3", "<", ">", "=", "!", "|", ":", "*", "/", "^", "@", "\n", "x"]) for _ in range(rng.below(16)))
        lines.append(f"case {i} tok {s.encode('utf-8').hex().upper() if s else '-'}")
    model = vlib.run_model(lines, timeout=600).get("out", {})
    rc, out, err, secs = vlib.sh([vlib.GVH, "tok"], inp="\n".join(lines) + "\n", timeout=600)
    impl = {}
    for l in out.split("\n"):
        p = l.split(" ", 2)
        if len(p) == 3 and p[0] == "out":
            impl[p[1]] = p[2]
    ck.count(comp, len(lines))
    if rc != 0 or len(impl) < len(lines):
        ck.violation("tokenizer/harness", "gvh tok failed: " + err[-300:], {"correspondence": "gvh tok", "stderr": err[-800:]}, found_input=False)
        return
    kinds = {"ok": 0, "err": 0}
    diffs = 0
    for i, line in enumerate(lines):
        a, b = impl.get(str(i)), model.get(str(i))
        ck.nontrivial(line.split(" ", 3)[3])
        if a == "panic":
            ck.violation("tokenizer/panic", f"Tokenizer panics on {line}", {"kind": "crash", "case": line, "text": bytes.fromhex(line.split(' ')[3]).decode('utf-8', 'replace') if line.split(' ')[3] != '-' else ''})
            continue
        kinds["ok" if a.startswith("ok") else "err"] += 1
        if a != b:
            diffs += 1
            if diffs <= 3:
                ck.violation("tokenizer/model-diff", f"Core/Tokens.lean and the real tokenizer disagree: {line} impl={a[:120]} model={str(b)[:120]}",
                             {"correspondence": "Tokens.tokenize vs Tokenizer::tokenize", "case": line, "impl": a, "model": b}, found_input=False)
    ck.note(comp, "outcomes", kinds)
    ck.note(comp, "model_diffs", diffs)


def classify_panic(msg):
    if any(p in msg for p in INT_ARITH_PANICS):
        return "runtime/integer-arith-panic"
    return None


KILLERS = set()          # statements already isolated as killing / hanging the process in this run: reported once, not run again


def run_block(ck, runner, stmts, comp, stats, threads=4):
    """stmts: list of (kind, sql). Runs SETUP + for each: sql + DUMP. Checks outcome class and state preservation."""
    if KILLERS:
        n0 = len(stmts)
        stmts = [(k, q) for k, q in stmts if q not in KILLERS]
        stats["skipped_known_killers"] = stats.get("skipped_known_killers", 0) + n0 - len(stmts)
    flat = list(SETUP) + list(DUMP)
    for _, sql in stmts:
        flat.append(sql)
        flat.extend(DUMP)
    res = runner.run(flat, threads=threads, timeout=90, retry_factor=1)
    if isinstance(res, dict):
        # isolate the killer: run each statement alone (after the setup)
        stats["blocks_with_crash"] = stats.get("blocks_with_crash", 0) + 1
        for kind, sql in stmts:
            r1 = runner.run(list(SETUP) + [sql, "SELECT 1"], threads=threads, timeout=60, retry_factor=1)      # three-row tables: 60 s is ample under any load
            ck.count(comp, 1)
            if isinstance(r1, dict):
                KILLERS.add(sql)
                msg = str(r1.get("crash", "")) + ("timeout" if r1.get("timeout") else "")
                key = classify_panic(msg)
                if key is None and "overflowed its stack" in msg:
                    key = "nesting/stack-overflow"
                what = "timeout (statement did not finish in 60 s)" if r1.get("timeout") else "process died: " + msg[-200:].replace("\n", " ")
                ck.violation(key or f"statements/{kind}/{'timeout' if r1.get('timeout') else 'crash'}", f"statement kills or hangs the process ({what}): {sql[:300]}",
                             {"kind": "crash", "setup": SETUP, "stmt": sql, "result": r1})
            else:
                check_one(ck, kind, sql, r1[len(SETUP)], None, None, comp, stats)
        return
    nd = len(DUMP)
    pos = len(SETUP)
    prev = res[pos:pos + nd]
    pos += nd
    for kind, sql in stmts:
        r = res[pos]
        dump = res[pos + 1:pos + 1 + nd]
        pos += 1 + nd
        ck.count(comp, 1)
        check_one(ck, kind, sql, r, prev, dump, comp, stats)
        prev = dump


def canon_dump(d):
    return [x.get("rows") if "rows" in x else ("ERR", x.get("err", x.get("panic", ""))[:80]) for x in d]


def check_one(ck, kind, sql, r, prev, dump, comp, stats):
    ck.nontrivial(sql)
    if "panic" in r:
        stats["panic"] = stats.get("panic", 0) + 1
        key = classify_panic(r["panic"]) or f"statements/{kind}/panic"
        ck.violation(key, f"statement panics ({r['panic'][:120]}): {sql[:300]}", {"kind": "crash", "setup": SETUP, "stmt": sql, "panic": r["panic"]})
    elif "err" in r:
        stats["err"] = stats.get("err", 0) + 1
        ek = re.sub(r"[^A-Za-z ]", "", r["err"])[:28]
        stats.setdefault("error_kinds", {})
        if len(stats["error_kinds"]) < 40 or ek in stats["error_kinds"]:
            stats["error_kinds"][ek] = stats["error_kinds"].get(ek, 0) + 1
        if prev is not None and canon_dump(prev) != canon_dump(dump):
            diff = [(s, a, b) for s, a, b in zip(DUMP, canon_dump(prev), canon_dump(dump)) if a != b]
            key = f"statements/{kind}/error-changed-session-state"
            if re.match(r"\s*CREATE\s+TEMP\s+TABLE\s+.*\sAS\s", sql, re.I | re.S) and len(diff) == 1 and "list_tables" in diff[0][0] and len(diff[0][2]) == len(diff[0][1]) + 1:
                key = "ctas/runtime-error-leaves-empty-table"      # same defect as the C14 known finding F42
            ck.violation(key, f"a failed statement changed the session: {sql[:200]} -> {r['err'][:80]}; differs: {str(diff)[:300]}",
                         {"kind": "impl-vs-oracle", "setup": SETUP, "stmt": sql, "error": r["err"], "state_before": canon_dump(prev), "state_after": canon_dump(dump), "dump_statements": DUMP})
    else:
        stats["rows"] = stats.get("rows", 0) + 1
    if dump is not None:
        broken = [x for x in dump[:len(SETTINGS)] if "rows" not in x]
        if broken:
            ck.violation(f"statements/{kind}/session-dead-after-statement", f"the session no longer answers SHOW after: {sql[:200]}", {"kind": "impl-vs-oracle", "setup": SETUP, "stmt": sql, "dump": dump})


def statements_component(ck, runner, rng, tier):
    comp = "statements"
    stats = {}
    nblocks = 150 if tier == "quick" else 3000
    per = 30
    # generated valid queries over the setup tables
    db = {"base2": ([qgen.INT, qgen.INT], [])}
    for b in range(nblocks):
        block = []
        if b == 0:
            block = [("valid", s) for s in VALID]
        elif b == 1:
            block = [("runtime", s) for s in RUNTIME_FAIL]
        elif b == 2:
            # verify mode: every plan is bound twice; failures of the second bind must not leak settings
            block = [("verify", "SET verify_optimized_plan TO true")] + [("verify", s) for s in VALID if not s.startswith(("SET verify", "RESET verify"))][:60]
        else:
            if rng.chance(1, 4):
                block.append(("verify", "SET verify_optimized_plan TO true"))
            for _ in range(per):
                c = rng.below(20)
                if c < 9:
                    block.append(("mutated", mutate(rng, rng.pick(VALID + RUNTIME_FAIL))))
                elif c < 11:
                    block.append(("mutated2", mutate(rng, mutate(rng, rng.pick(VALID)))))
                elif c < 13:
                    block.append(("random", random_text(rng)))
                elif c < 15:
                    block.append(("trailing", trailing_garbage(rng)))
                elif c < 17:
                    block.append(("runtime", rng.pick(RUNTIME_FAIL)))
                else:
                    block.append(("valid", rng.pick(VALID)))
        # statements containing integer / and % on columns can divide by zero (known C12 finding kills the process): keep them, they are classified
        run_block(ck, runner, block, comp, stats, threads=rng.pick([1, 4]))
        unlisted = [v for v in ck.violations if v[0].startswith("statements/") and v[0].endswith(("/timeout", "/crash"))]
        if unlisted and len(KILLERS) >= 4:
            # the tree hangs or dies on several unrelated statements: the verdict is settled, every further block costs minutes of timeouts
            ck.note(comp, "stopped_early_after_blocks", b + 1)
            break
    for k, v in stats.items():
        ck.note(comp, k, v)


def shapes(d):
    return {
        "parens": "SELECT " + "(" * d + "1" + ")" * d,
        "binary": "SELECT " + "+".join(["1"] * d),
        "not": "SELECT " + "NOT " * d + "true",
        "neg": "SELECT " + "- " * d + "1",
        "case": "SELECT " + "CASE WHEN true THEN " * d + "1" + " ELSE 0 END" * d,
        "subq": "SELECT * FROM " + "(SELECT * FROM " * d + "(SELECT 1) s0" + "".join(f") s{i + 1}" for i in range(d)),
        "and": "SELECT " + " AND ".join(["true"] * d),
        "func": "SELECT " + "abs(" * d + "1" + ")" * d,
        "cast": "SELECT 1" + "::int" * d,
        "union": " UNION ALL ".join(["SELECT 1"] * d),
        "in": "SELECT 1 IN (" + ",".join(["1"] * d) + ")",
        "cte": "WITH " + ", ".join(f"c{i} AS (SELECT * FROM {'c' + str(i - 1) if i else '(SELECT 1) z'})" for i in range(d)) + f" SELECT * FROM c{d - 1}",
        "values": "SELECT count(*) FROM (VALUES " + ",".join(["(1)"] * d) + ") v(x)",
    }


def nesting_component(ck, runner, tier):
    comp = "nesting"
    ok_depths = [10, 100, 300] if tier == "quick" else [1, 10, 50, 100, 200, 300, 400]
    for d in ok_depths:
        for name, sql in shapes(d).items():
            res = runner.run([sql, "SELECT 1"], timeout=60)
            ck.count(comp, 1)
            ck.nontrivial((name, d))
            if isinstance(res, dict) and "overflowed its stack" in str(res.get("crash", "")):
                # the same defect as the probe below (no depth limit), reached at a smaller depth by a shape with larger frames
                ck.violation("nesting/stack-overflow", f"{name} nested {d} deep overflows the native stack and aborts the process", {"kind": "crash", "shape": name, "depth": d, "stmt": sql[:400], "result": res})
            elif isinstance(res, dict):
                ck.violation(f"nesting/{name}/depth-{d}/crash", f"{name} nested {d} deep kills or hangs the process: {str(res)[:160]}", {"kind": "crash", "shape": name, "depth": d, "stmt": sql[:400], "result": res})
            elif "panic" in res[0]:
                ck.violation(f"nesting/{name}/depth-{d}/panic", f"{name} nested {d} deep panics: {res[0]['panic'][:100]}", {"kind": "crash", "shape": name, "depth": d, "stmt": sql[:400]})
    # known finding: unbounded recursion in parser/binder/planner overflows the stack at larger depths
    deep = {"parens": 5000, "binary": 3000, "not": 5000, "and": 5000}
    for name, d in deep.items():
        sql = shapes(d)[name]
        res = runner.run([sql, "SELECT 1"], timeout=60)
        ck.count(comp, 1)
        died = isinstance(res, dict)
        ck.probe("nesting/stack-overflow", f"deeply nested statements overflow the native stack and abort the process (no depth limit in parser/binder/planner; e.g. {name} at depth {d})",
                 {"kind": "crash", "shape": name, "depth": d, "stmt_head": sql[:80], "result": res if died else "ok"}, died)
    # many-way joins: the join-order search is exponential
    def star(n):
        return "SELECT count(*) FROM (SELECT 1 a) t0" + "".join(f" JOIN (SELECT 1 a) t{i + 1} ON t0.a = t{i + 1}.a" for i in range(n))
    for n in [4, 8, 10]:
        res = runner.run([star(n)], timeout=30)
        ck.count(comp, 1)
        if isinstance(res, dict) or "rows" not in res[0]:
            ck.violation(f"planner/join-order/{n}-way-join-slow", f"a {n}-way join of one-row tables does not finish in 30 s", {"kind": "crash", "stmt": star(n), "result": str(res)[:200]})
    res = runner.run([star(22)], timeout=25)
    ck.count(comp, 1)
    ck.probe("planner/join-order/exponential-time", "planning a 22-way join of one-row tables does not finish in 25 s (join-order search is exponential in the number of relations; 16-way takes ~6 s, 20-way > 80 s)",
             {"kind": "crash", "stmt": star(22)[:200], "result": str(res)[:200]}, isinstance(res, dict))


def planner_probe(ck, runner):
    stmts = ["WITH c AS MATERIALIZED (SELECT x FROM generate_series(1, 3) g(x)) SELECT count(*) FROM c c1 JOIN c c2 ON c1.x = c2.x", "SELECT 1"]
    res = runner.run(stmts, timeout=30)
    bad = isinstance(res, dict) or "panic" in res[0]
    ck.probe("planner/join-reorder/materialized-cte-self-join-assertion", "a MATERIALIZED CTE joined with itself panics at plan time (join reordering: assertion failed: self.hyper_edges.all_non_empty_edges_removed())",
             {"kind": "crash", "stmts": stmts, "result": str(res)[:300]}, bad)


def arith_probe(ck, runner):
    stmts = SETUP + ["SELECT a / (a - a) FROM base1"]
    res = runner.run(stmts, timeout=30)
    died = isinstance(res, dict) or "panic" in res[-1]
    ck.probe("runtime/integer-arith-panic", "integer division by zero / overflow panics in a worker thread and aborts the process instead of returning an error (same defect as the C12 known findings F3)",
             {"kind": "crash", "stmts": stmts, "result": str(res)[-300:]}, died)


def main():
    tier = sys.argv[1] if len(sys.argv) > 1 else "quick"
    ck = vlib.Check("C15", tier)
    ck.coverage["rule"] = ("tokenizer correspondence on random/SQL-shaped/Unicode strings; statements (valid, run-time failing, token-level mutations, random Unicode, trailing multi-byte garbage, verify_optimized_plan mode) "
                           "each followed by a dump of 7 settings + catalog listing + a table digest in the same session: outcome in {rows, error}, state unchanged after an error; nesting bombs of 13 shapes; "
                           "distinct = distinct statement text")
    ck.assumptions = ["statement text reaches the engine as &str: invalid UTF-8 cannot be submitted through the API", "native stack consumption per frame is a runtime fact: the theorem bounds nothing there, the harness measures the crash",
                      "each request runs in a child process with a 90 s wall clock and an 8 GiB resident-memory watchdog"]
    proof_ok = ck.proof_step()
    ok, blog, secs = vlib.build_harness()
    ck.coverage["harness_build_s"] = round(secs, 1)
    if not ok:
        ck.violation("harness/build", "harness does not build against /repo", {"correspondence": "harness build", "log": blog[-1500:]}, found_input=False)
        sys.exit(ck.finish())
    runner = vlib.SqlRunner(mem_gb=8)
    rng = Rng(ck.seed * 104729 + 15)
    try:
        import time
        for name, fn in [("tokenizer", lambda: tokenizer_component(ck, rng, tier)), ("arith_probe", lambda: (arith_probe(ck, runner), planner_probe(ck, runner))),
                         ("nesting", lambda: nesting_component(ck, runner, tier)), ("statements", lambda: statements_component(ck, runner, rng, tier))]:
            t0 = time.time()
            fn()
            ck.note(name if name != "arith_probe" else "nesting", "wall_s_" + name, round(time.time() - t0, 1))
            vlib.log(f"C15 {name} done in {time.time() - t0:.1f}s")
    finally:
        runner.close()
    if not proof_ok:
        ck.violation("proof/C15", "proof obligation of Props/C15.lean no longer checks", {"theorem": "GlareModel.Props.C15.*", "log": ck.broken_proof}, found_input=bool(ck.violations))
    sys.exit(ck.finish())


if __name__ == "__main__":
    main()
