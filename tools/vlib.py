"""Common machinery of the /verif checks (see DESIGN.md section 2).

- builds the Lean project (proof obligations re-checked by the kernel) and audits axioms
- builds the Rust harness against /repo's working tree with --cfg glaredb_verif
- runs harness components and the `gmodel` driver on the same case lines and diffs them
- drives the in-process SQL runner in a child process (crash isolation)
- collects evidence, applies the known-findings file, prints VIOLATION / KNOWN-FINDING lines
"""
import hashlib
import json
import os
import re
import subprocess
import sys
import time

ROOT = os.path.dirname(os.path.dirname(os.path.abspath(__file__)))
LEAN = os.path.join(ROOT, "lean")
HARNESS = os.path.join(ROOT, "harness")
GVH = os.path.join(HARNESS, "target", "debug", "gvh")
GMODEL = os.path.join(LEAN, ".lake", "build", "bin", "gmodel")
REPO = "/repo"
RETRIED_TIMEOUTS = []
HARNESS_DEGRADED = None     # set to the compiler output when only the public-API harness could be built
ALLOWED_AXIOMS = {"propext", "Classical.choice", "Quot.sound"}
ENV = dict(os.environ, CARGO_NET_OFFLINE="true", RUST_BACKTRACE="0")


def log(*a):
    print(*a, file=sys.stderr, flush=True)


def sh(cmd, cwd=None, timeout=3600, inp=None):
    t0 = time.time()
    p = subprocess.run(cmd, cwd=cwd, shell=isinstance(cmd, str), input=inp, capture_output=True,
                       text=True, timeout=timeout, env=ENV)
    return p.returncode, p.stdout, p.stderr, time.time() - t0


# ----------------------------------------------------------------------------- Lean

def build_lean(targets):
    """lake build of the given module targets (+ gmodel). Returns (ok, log, secs)."""
    rc, out, err, secs = sh(["lake", "build"] + list(targets), cwd=LEAN, timeout=3000)
    return rc == 0, out + err, secs


FORBIDDEN = re.compile(r"\b(sorry|admit|native_decide|implemented_by|unsafe)\b|^\s*axiom\s|maxHeartbeats\s+0")


def strip_comments(src):
    # remove /- ... -/ (nested not handled beyond depth 1 pairs) and -- comments
    out, i, depth = [], 0, 0
    while i < len(src):
        if src.startswith("/-", i):
            depth += 1
            i += 2
        elif src.startswith("-/", i) and depth > 0:
            depth -= 1
            i += 2
        elif depth > 0:
            if src[i] == "\n":
                out.append("\n")
            i += 1
        elif src.startswith("--", i):
            while i < len(src) and src[i] != "\n":
                i += 1
        else:
            out.append(src[i])
            i += 1
    return "".join(out)


def lean_sources_for(prop):
    """Props file of the property plus every GlareModel file it (transitively) imports."""
    seen, todo = [], ["GlareModel.Props." + prop]
    while todo:
        m = todo.pop()
        path = os.path.join(LEAN, m.replace(".", "/") + ".lean")
        if m in seen or not os.path.exists(path):
            continue
        seen.append(m)
        for line in open(path):
            mm = re.match(r"\s*import\s+(GlareModel\.\S+)", line)
            if mm:
                todo.append(mm.group(1))
    return seen


def audit(prop, bv_allow=()):
    """Returns dict: theorems (name -> axioms), problems (list of str)."""
    problems = []
    mods = lean_sources_for(prop)
    for m in mods:
        path = os.path.join(LEAN, m.replace(".", "/") + ".lean")
        code = strip_comments(open(path).read())
        for ln, line in enumerate(code.split("\n"), 1):
            if FORBIDDEN.search(line):
                problems.append(f"forbidden construct in {m}:{ln}: {line.strip()[:80]}")
    props_path = os.path.join(LEAN, "GlareModel", "Props", prop + ".lean")
    code = strip_comments(open(props_path).read())
    names = re.findall(r"^theorem\s+([A-Za-z0-9_'.]+)", code, flags=re.M)
    ns = re.search(r"^namespace\s+(\S+)", code, flags=re.M)
    prefix = (ns.group(1) + ".") if ns else ""
    audit_dir = os.path.join(LEAN, ".lake", "audit")
    os.makedirs(audit_dir, exist_ok=True)
    apath = os.path.join(audit_dir, f"Audit_{prop}.lean")
    with open(apath, "w") as f:
        f.write(f"import GlareModel.Props.{prop}\n")
        for n in names:
            f.write(f"#print axioms {prefix}{n}\n")
    rc, out, err, secs = sh(["lake", "env", "lean", apath], cwd=LEAN, timeout=1200)
    theorems = {}
    text = out + err
    # output: 'Name' depends on axioms: [a, b]   |   'Name' does not depend on any axioms
    for m in re.finditer(r"'([^']+)' (does not depend on any axioms|depends on axioms: \[([^\]]*)\])", text, flags=re.S):
        name = m.group(1)
        axs = [a.strip() for a in (m.group(3) or "").replace("\n", " ").split(",") if a.strip()]
        theorems[name] = axs
    for n in names:
        full = prefix + n
        if full not in theorems:
            problems.append(f"theorem {full}: no axiom report (does it compile?)")
            continue
        for a in theorems[full]:
            if a in ALLOWED_AXIOMS:
                continue
            if "._native.bv_decide.ax" in a and any(a.startswith(p) for p in bv_allow):
                continue
            problems.append(f"theorem {full} depends on disallowed axiom {a}")
    if rc != 0:
        problems.append("audit file failed to elaborate: " + text[-400:])
    return {"theorems": theorems, "names": [prefix + n for n in names], "problems": problems, "secs": secs}


# ----------------------------------------------------------------------------- harness

def build_harness():
    lock_src = os.path.join(REPO, "Cargo.lock")
    lock_dst = os.path.join(HARNESS, "Cargo.lock")
    if not os.path.exists(lock_dst):
        with open(lock_src) as s, open(lock_dst, "w") as d:
            d.write(s.read())
    global HARNESS_DEGRADED
    rc, out, err, secs = sh(["cargo", "build", "--offline"], cwd=HARNESS, timeout=3000)
    if rc != 0:
        # A change to /repo may have broken a crate-internal API that only the component-level ties use. Rebuild with the
        # public engine API only, so that the SQL-level checks still run and can search for a failing input.
        rc2, out2, err2, secs2 = sh(["cargo", "build", "--offline", "--no-default-features"], cwd=HARNESS, timeout=3000)
        if rc2 == 0:
            HARNESS_DEGRADED = (out + err)[-3000:]
            return True, "degraded build (internals feature off): " + (out + err)[-3000:], secs + secs2
    return rc == 0, (out + err)[-4000:], secs


def run_pair(component, args, timeout=1800):
    """Run `gvh <component> args`, feed its case lines to gmodel; returns dict with
    cases (n -> line), impl (n -> out), model (n -> out), extra (tag -> n -> text)."""
    rc, out, err, secs = sh([GVH, component] + [str(a) for a in args], timeout=timeout)
    res = {"rc": rc, "stderr": err[-2000:], "cases": {}, "impl": {}, "model": {}, "extra": {}, "secs": secs}
    case_lines = []
    for line in out.split("\n"):
        if line.startswith("case "):
            parts = line.split(" ", 2)
            res["cases"][parts[1]] = line
            case_lines.append(line)
        elif line.startswith("out "):
            parts = line.split(" ", 2)
            res["impl"][parts[1]] = parts[2] if len(parts) > 2 else ""
        elif line.strip():
            parts = line.split(" ", 2)
            if len(parts) >= 2:
                res["extra"].setdefault("impl_" + parts[0], {})[parts[1]] = parts[2] if len(parts) > 2 else ""
    rc2, out2, err2, secs2 = sh([GMODEL], inp="\n".join(case_lines) + "\n", timeout=timeout)
    res["model_rc"] = rc2
    res["model_stderr"] = err2[-2000:]
    res["model_secs"] = secs2
    for line in out2.split("\n"):
        if line.startswith("out "):
            parts = line.split(" ", 2)
            res["model"][parts[1]] = parts[2] if len(parts) > 2 else ""
        elif line.strip():
            parts = line.split(" ", 2)
            if len(parts) >= 2:
                res["extra"].setdefault(parts[0], {})[parts[1]] = parts[2] if len(parts) > 2 else ""
    return res


def run_model(lines, timeout=150):
    try:
        rc, out, err, secs = sh([GMODEL], inp="\n".join(lines) + "\n", timeout=timeout)
    except subprocess.TimeoutExpired:
        return {"out": {}, "timeout": True}
    res = {}
    for line in out.split("\n"):
        parts = line.split(" ", 2)
        if len(parts) >= 2:
            res.setdefault(parts[0], {})[parts[1]] = parts[2] if len(parts) > 2 else ""
    return res


class SqlRunner:
    """Child `gvh sql` process; one request = fresh engine + list of statements.
    A dead or hung child is reported as outcome 'crash'/'timeout' for that request."""

    def __init__(self, timeout=60, mem_gb=8):
        self.timeout = timeout
        self.mem_gb = mem_gb
        self.p = None
        self.n = 0
        self.crashes = 0

    def _start(self):
        self.p = subprocess.Popen([GVH, "sql"], stdin=subprocess.PIPE, stdout=subprocess.PIPE,
                                  stderr=subprocess.PIPE, text=True, env=ENV, bufsize=1)
        self.rss_killed = False

        def watchdog(p, limit_bytes):
            # resident-set watchdog: a runaway statement (e.g. a scan that keeps reading its own appends) must kill the
            # child, not the sandbox. (RLIMIT_AS is not usable: thread stacks and malloc arenas of the engine's thread
            # pools reserve many GiB of address space that is never touched.)
            path = f"/proc/{p.pid}/statm"
            while p.poll() is None:
                try:
                    with open(path) as f:
                        rss = int(f.read().split()[1]) * 4096
                except Exception:
                    return
                if rss > limit_bytes:
                    self.rss_killed = True
                    try:
                        p.kill()
                    except Exception:
                        pass
                    return
                time.sleep(0.05)
        import threading
        self.errbuf = []

        def drain(p, buf):
            for line in p.stderr:
                buf.append(line)
                if len(buf) > 200:
                    del buf[:100]
        self.drainer = threading.Thread(target=drain, args=(self.p, self.errbuf), daemon=True)
        self.drainer.start()
        threading.Thread(target=watchdog, args=(self.p, self.mem_gb << 30), daemon=True).start()

    def run(self, stmts, threads=4, timeout=None, retry_factor=4):
        """Returns list of per-statement results, or {'crash': stderr tail} / {'timeout': True}.
        A timeout is retried once on a fresh child: the engine's thread pool occasionally fails to make progress under
        heavy machine load (seen once in ~10^5 requests; not reproducible, recorded in the evidence as a retried timeout);
        a request that times out twice is reported."""
        res = self._run_once(stmts, threads, timeout)
        if isinstance(res, dict) and res.get("timeout"):
            # second attempt with four times the budget: under heavy machine load (other checks running on all cores) a
            # nested-loop join over a large generated table can exceed a budget that is ample otherwise; a real hang still
            # times out, only later
            RETRIED_TIMEOUTS.append(stmts[-1][:200] if stmts else "")
            res = self._run_once(stmts, threads, min(retry_factor * (timeout or self.timeout), 900))
        return res

    def _run_once(self, stmts, threads=4, timeout=None):
        import select
        if self.p is None or self.p.poll() is not None:
            self._start()
        self.n += 1
        del self.errbuf[:]            # panics caught while serving earlier requests are not this request's crash message
        req = json.dumps({"id": self.n, "threads": threads, "stmts": stmts})
        try:
            self.p.stdin.write(req + "\n")
            self.p.stdin.flush()
        except BrokenPipeError:
            self._kill()
            return {"crash": "broken pipe"}
        deadline = time.time() + (timeout or self.timeout)
        while True:
            remaining = deadline - time.time()
            if remaining <= 0:
                self._kill()
                return {"timeout": True}
            r, _, _ = select.select([self.p.stdout], [], [], min(remaining, 1.0))
            if not r:
                if self.p.poll() is not None:
                    self._settle()
                    tail = "".join(self.errbuf[-8:])
                    killed = self.rss_killed
                    self._kill()
                    self.crashes += 1
                    return {"crash": (f"resident memory exceeded {self.mem_gb} GiB (killed by the watchdog) " if killed else "") + tail[-600:]}
                continue
            line = self.p.stdout.readline()
            if not line:
                self._settle()
                tail = "".join(self.errbuf[-8:])
                rc = self.p.poll()
                killed = self.rss_killed
                self._kill()
                self.crashes += 1
                return {"crash": (f"resident memory exceeded {self.mem_gb} GiB (killed by the watchdog) " if killed else "") + tail[-600:], "rc": rc}
            try:
                msg = json.loads(line)
            except json.JSONDecodeError:
                continue
            if "start" in msg:
                continue
            if msg.get("id") == self.n:
                return msg["results"]

    def _settle(self):
        """The child closed stdout: wait for it to exit and for its stderr to be read to the end, so that the panic
        message (the key of a crash finding) is complete."""
        try:
            self.p.wait(timeout=5)
        except Exception:
            pass
        try:
            self.drainer.join(timeout=3)
        except Exception:
            pass

    def _kill(self):
        if self.p is not None:
            try:
                self.p.kill()
                self.p.wait(timeout=5)
            except Exception:
                pass
        self.p = None

    def close(self):
        self._kill()


# ----------------------------------------------------------------------------- known findings

def load_known():
    path = os.path.join(ROOT, "known_findings.txt")
    known = {}
    if os.path.exists(path):
        for line in open(path):
            m = re.match(r"known:\s+property=(\S+)\s+key=(\S+)\s+(.*)", line.strip())
            if m:
                known[(m.group(1), m.group(2))] = m.group(3)
    return known


# ----------------------------------------------------------------------------- check object

class Check:
    def __init__(self, prop, tier, level="proof"):
        self.prop = prop
        self.tier = tier
        self.seed = int(os.environ.get("VERIF_SEED", "1") or "1")
        self.level = level
        self.t0 = time.time()
        self.coverage = {"samples": [], "components": {}}
        self.assumptions = []
        self.violations = []   # (key, what, replay_obj, found_input)
        self.known_hits = {}
        self.known = load_known()
        self.evaluations = 0
        self.distinct = set()

    def count(self, component, n=1, **kw):
        c = self.coverage["components"].setdefault(component, {"cases": 0})
        c["cases"] += n
        for k, v in kw.items():
            c[k] = c.get(k, 0) + v
        self.evaluations += n

    def note(self, component, key, value):
        self.coverage["components"].setdefault(component, {"cases": 0})[key] = value

    def sample(self, s):
        if len(self.coverage["samples"]) < 12:
            self.coverage["samples"].append(s)

    def nontrivial(self, h):
        self.distinct.add(h if isinstance(h, (str, int)) else hashlib.sha1(repr(h).encode()).hexdigest()[:16])

    def violation(self, key, what, replay, found_input=True):
        if (self.prop, key) in self.known:
            self.known_hits.setdefault(key, what)
            return
        if any(v[0] == key for v in self.violations):
            return
        self.violations.append((key, what, replay, found_input))

    def probe(self, key, what, replay, still_fails):
        """Re-observe a listed known finding on its specific input; `still_fails` is the observed verdict."""
        self.coverage.setdefault("known_finding_probes", {})[key] = bool(still_fails)
        if still_fails:
            self.violation(key, what, replay)

    def proof_step(self, bv_allow=()):
        """Build Props/<prop> + gmodel, audit axioms. Broken obligations become violations
        (the caller then searches for a failing input)."""
        ok, blog, secs = build_lean([f"GlareModel.Props.{self.prop}", "gmodel"])
        self.coverage["lake_build_s"] = round(secs, 1)
        self.coverage["checker_cmd"] = f"cd /verif/lean && lake build GlareModel.Props.{self.prop} gmodel && lake env lean .lake/audit/Audit_{self.prop}.lean  (#print axioms of every theorem in Props/{self.prop}.lean)"
        if not ok:
            self.coverage["obligations"] = max(1, len(re.findall(r"^theorem\s", open(os.path.join(LEAN, "GlareModel", "Props", self.prop + ".lean")).read(), flags=re.M)))
            self.coverage["discharged"] = 0
            self.broken_proof = blog[-1500:]
            return False
        a = audit(self.prop, bv_allow)
        self.coverage["obligations"] = len(a["names"])
        bad = set()
        for pr in a["problems"]:
            m = re.search(r"theorem (\S+)", pr)
            if m:
                bad.add(m.group(1).rstrip(":"))
        self.coverage["discharged"] = len([n for n in a["names"] if n not in bad]) if not [p for p in a["problems"] if "forbidden" in p or "audit file" in p] else 0
        self.coverage["theorems"] = {n: a["theorems"].get(n, ["?"]) for n in a["names"]}
        axs = sorted({x for v in a["theorems"].values() for x in v})
        self.coverage["trusted_base"] = [
            "Lean 4.33.0 kernel (lake build; #print axioms audit)",
            "axioms used: " + (", ".join(axs) if axs else "none"),
            "hand-written model tied to /repo by the correspondence check (harness gvh + gmodel + this driver)",
        ]
        if a["problems"]:
            self.broken_proof = "\n".join(a["problems"])
            return False
        self.broken_proof = None
        return True

    def finish(self):
        os.makedirs(os.path.join(ROOT, "evidence"), exist_ok=True)
        os.makedirs(os.path.join(ROOT, "replays", self.prop), exist_ok=True)
        lines = []
        if HARNESS_DEGRADED:
            self.coverage["harness_degraded"] = "component-level ties could not be built against /repo; SQL-level checks only: " + HARNESS_DEGRADED[-600:]
            if not self.violations:
                self.violations.append(("harness/internal-api", "the component-level correspondence harness no longer builds against /repo (a crate-internal API it calls changed); "
                                        "the SQL-level checks found no failing input", {"correspondence": "harness build with feature `internals`", "log": HARNESS_DEGRADED[-1500:]}, False))
        for key, what in self.known_hits.items():
            lines.append(f"KNOWN-FINDING: property={self.prop} key={key} {what}")
        for key, what, replay, found in self.violations:
            h = hashlib.sha1((key + json.dumps(replay, sort_keys=True, default=str)).encode()).hexdigest()[:12]
            path = os.path.join(ROOT, "replays", self.prop, f"{h}.json")
            with open(path, "w") as f:
                json.dump({"property": self.prop, "key": key, "what": what, "seed": self.seed,
                           "tier": self.tier, "failing_input_found": found, "replay": replay}, f, indent=1, default=str)
            lines.append(f"VIOLATION property={self.prop} replay={path}" + ("" if found else " no-failing-input-found"))
        cov = self.coverage
        cov["evaluations"] = self.evaluations
        cov["distinct_nontrivial"] = len(self.distinct)
        cov.setdefault("rule", "see components")
        ev = {
            "property_id": self.prop, "tier": self.tier, "seed": self.seed, "level": self.level,
            "coverage": cov, "assumptions": self.assumptions, "wall_s": round(time.time() - self.t0, 1),
            "violations": len(self.violations),
            "known_findings_observed": sorted(self.known_hits.keys()),
            "sql_requests_retried_after_timeout": RETRIED_TIMEOUTS[:5],
        }
        with open(os.path.join(ROOT, "evidence", self.prop + ".json"), "w") as f:
            json.dump(ev, f, indent=1, default=str)
        for l in lines:
            print(l, flush=True)
        print(f"{self.prop} {self.tier}: evaluations={self.evaluations} distinct={len(self.distinct)} "
              f"obligations={cov.get('obligations')} discharged={cov.get('discharged')} "
              f"violations={len(self.violations)} known={len(self.known_hits)} wall={ev['wall_s']}s", flush=True)
        return 1 if self.violations else 0
