#!/usr/bin/env python3
"""C16 — No query makes the engine's unsafe code touch memory it does not own (partial).

Components
  layout     real RowLayout::try_new (cfg hook) on random column lists vs Core/Layout.lean + bounds oracle on the real offsets
  agg_align  every ordered pair / sampled triples of aggregate functions with differently aligned states, grouped and ungrouped,
             1-8 partitions: the engine's own alignment / bounds debug assertions are compiled in (dev profile) and abort the
             process when violated; results are cross-checked between partition counts
  strings    variable-length values around the 12-byte inline threshold, very long values, zero-row / single-row batches and
             many-block collections through sort, join, GROUP BY, DISTINCT, min/max: results checked against closed forms
  phases     hash-join shapes of C04 under the controlled scheduler (drain before build finished, probe before directory
             init would show as wrong rows or a lost wake-up)
"""
import sys

import c04
import vlib
from sqlutil import Rng, bag

AGGS = ["count(*)", "count(a)", "sum(a)", "avg(a)", "min(a)", "max(a)", "sum(d)", "avg(d)", "min(s)", "max(s)", "bool_and(b)", "bool_or(b)", "sum(f)", "avg(f)", "min(d)", "max(f)", "count(DISTINCT a)", "sum(DISTINCT a)",
        "first(s)", "string_agg(s, ',')", "stddev_pop(f)", "var_samp(f)", "min(t)", "max(i8)", "sum(i8)", "avg(i8)", "sum(big)", "avg(big)"]
SETUP = ["CREATE TEMP TABLE g (k INT, a BIGINT, d DECIMAL(20,4), s TEXT, b BOOLEAN, f DOUBLE, t DATE, i8 TINYINT, big DECIMAL(38,2))",
         "INSERT INTO g SELECT x % 7, x, x * 1.5, repeat('s', (x % 30)::INT), x % 2 = 0, x * 0.25, DATE '2020-01-01' + (x % 400)::INT, (x % 100)::TINYINT, x * 1000000.25 FROM generate_series(1, 3000) t(x)",
         "INSERT INTO g VALUES (NULL, NULL, NULL, NULL, NULL, NULL, NULL, NULL, NULL), (3, NULL, NULL, NULL, NULL, NULL, NULL, NULL, NULL)"]


def layout_component(ck, tier):
    comp = "layout"
    res = vlib.run_pair("layout", [ck.seed, 600 if tier == "quick" else 20000])
    if res["rc"] != 0 or not res["cases"]:
        ck.violation("layout/harness", "gvh layout failed: " + res["stderr"][-300:], {"correspondence": "gvh layout", "stderr": res["stderr"]}, found_input=False)
        return
    diffs = 0
    for k, line in res["cases"].items():
        ck.count(comp, 1)
        ck.nontrivial(line)
        i, m = res["impl"].get(k), res["model"].get(k)
        o = res["extra"].get("impl_oracle", {}).get(k, "ok")
        if o != "ok":
            ck.violation("layout/offset-out-of-row", f"RowLayout::try_new computes an offset outside the row: {o} ({line})", {"kind": "impl-vs-oracle", "case": line, "impl": i})
        elif i != m:
            diffs += 1
            if diffs <= 3:
                ck.violation("layout/model-diff", f"Core/Layout.lean and RowLayout::try_new disagree: {line} impl={i} model={m}", {"correspondence": "Layout.rowLayout vs RowLayout::try_new", "case": line, "impl": i, "model": m}, found_input=False)
    ck.note(comp, "model_diffs", diffs)


def run_checked(ck, runner, comp, key, what, stmts, threads=4, timeout=120):
    res = runner.run(stmts, threads=threads, timeout=timeout)
    ck.count(comp, 1)
    ck.nontrivial((comp, tuple(stmts[-2:])))
    if isinstance(res, dict):
        msg = str(res.get("crash", res))[:300]
        ck.violation(key + "/abort", f"{what}: the process aborts ({msg})", {"kind": "crash", "stmts": stmts, "result": res})
        return None
    for r in res:
        if "panic" in r and not any(p in r["panic"] for p in ("with overflow", "divide by zero")):
            ck.violation(key + "/panic", f"{what}: {r['panic'][:200]}", {"kind": "crash", "stmts": stmts, "panic": r["panic"]})
            return None
    return res


def agg_component(ck, runner, rng, tier):
    comp = "agg_align"
    pairs = [(x, y) for x in AGGS for y in AGGS if x != y]
    if tier == "quick":
        pairs = [p for i, p in enumerate(pairs) if i % 3 == ck.seed % 3]
    batch = []
    for x, y in pairs:
        z = rng.pick(AGGS)
        batch.append((f"SELECT {x}, {y} FROM g", f"SELECT k, {x}, {y}, {z} FROM g GROUP BY k"))
    for i in range(0, len(batch), 25):
        chunk = batch[i:i + 25]
        outs = {}
        for P in ([1, 4] if tier == "quick" else [1, 2, 4, 8]):
            stmts = [f"SET partitions TO {P}"] + SETUP + [q for pair in chunk for q in pair]
            res = run_checked(ck, runner, comp, "agg_align", f"aggregates with differently aligned states (partitions={P})", stmts)
            if res is None:
                # isolate the pair
                for pair in chunk:
                    run_checked(ck, runner, comp, "agg_align", f"aggregates {pair[0][7:60]} (partitions={P})", [f"SET partitions TO {P}"] + SETUP + list(pair))
                continue
            outs[P] = res[1 + len(SETUP):]
        ps = sorted(outs)
        for P in ps[1:]:
            for j, (a, b) in enumerate(zip(outs[ps[0]], outs[P])):
                q = [q for pair in chunk for q in pair][j]
                if "rows" in a and "rows" in b and bag(a["rows"]) != bag(b["rows"]) and not any(f in q for f in ("avg(f)", "sum(f)", "stddev", "var_samp", "first(", "string_agg")):
                    ck.violation("agg_align/result-depends-on-partitions", f"{q[:160]} differs between partitions={ps[0]} and {P}", {"kind": "impl-vs-oracle", "setup": SETUP, "query": q, "a": a["rows"][:5], "b": b["rows"][:5]})


def strings_component(ck, runner, rng, tier):
    comp = "strings"
    lens = [0, 1, 11, 12, 13, 24, 100, 5000] + ([200000] if tier != "quick" else [])
    for n in ([1, 2, 2048, 2049, 30000] if tier != "quick" else [1, 2049, 30000]):
        for b in [1, 7, 2048] if n <= 2049 else [2048]:
            for P in [1, 3]:
                L = rng.pick(lens)
                pre = [f"SET partitions TO {P}", f"SET batch_size TO {b}"]
                mk = f"(SELECT x, repeat('é', (x % 14)::INT) || repeat('y', {L}) AS s, x % 5 AS k FROM generate_series(1, {n}) t(x))"
                exp_len = sum((x % 14) + L for x in range(1, n + 1))
                stmts = pre + [f"SELECT sum(length(s)), count(DISTINCT s), min(length(s)), max(length(s)) FROM {mk} q",
                               f"SELECT count(*), sum(length(s1)) FROM (SELECT a.s AS s1 FROM {mk} a JOIN {mk} b ON a.s = b.s AND a.x = b.x) j",
                               f"SELECT sum(length(s)) FROM (SELECT s FROM {mk} q ORDER BY s DESC, x LIMIT {n}) o",
                               f"SELECT sum(c), sum(l) FROM (SELECT s, count(*) AS c, sum(length(s)) AS l FROM {mk} q GROUP BY s) g",
                               f"SELECT sum(length(m)) FROM (SELECT k, min(s) AS m FROM {mk} q GROUP BY k) g",
                               f"SELECT count(*) FROM (SELECT DISTINCT s, k FROM {mk} q) d"]
                res = run_checked(ck, runner, comp, "strings", f"{n} strings of ~{L} bytes, batch_size={b}, partitions={P}", stmts, timeout=180)
                if res is None:
                    continue
                r = res[len(pre):]
                distinct = len({(x % 14) for x in range(1, n + 1)})
                checks = [(r[0], [str(exp_len), str(distinct), str(L + (0 if n >= 14 else min((x % 14) for x in range(1, n + 1)))), str(L + max((x % 14) for x in range(1, n + 1)))]),
                          (r[1], [str(n), str(exp_len)]), (r[2], [str(exp_len)]), (r[3], [str(n), str(exp_len)])]
                for got, want in checks:
                    if "rows" in got and [str(c) for c in got["rows"][0]] != want:
                        ck.violation("strings/wrong-result", f"variable-length values ({n} rows, ~{L} bytes, batch_size={b}, partitions={P}): got {got['rows'][0]}, expected {want}",
                                     {"kind": "impl-vs-oracle", "stmts": stmts, "got": got["rows"][0], "want": want})


def main():
    tier = sys.argv[1] if len(sys.argv) > 1 else "quick"
    ck = vlib.Check("C16", tier)
    ck.coverage["rule"] = ("real RowLayout offsets vs the layout model on random column lists (0-65 columns, 20 types); every ordered pair of 28 aggregate calls (+ a third) with states of different size/alignment, grouped and ungrouped, "
                           "under 1-8 partitions with the engine's debug assertions compiled in; strings around the 12-byte inline threshold / very long / multi-byte through sort, join, GROUP BY, DISTINCT, min with batch sizes 1-2048 "
                           "and up to 30000 rows; hash-join shapes under the controlled scheduler; distinct = distinct statement list")
    ck.assumptions = ["aliasing, initialisation and data races below the phase granularity are properties of Rust/LLVM semantics that no model here expresses (why this property is claimed partial)",
                      "the harness is built with debug assertions, so the engine's own bounds / alignment / consistency assertions are evaluated on every statement; AddressSanitizer / Miri runs are not part of the quick tier"]
    proof_ok = ck.proof_step()
    ok, blog, secs = vlib.build_harness()
    ck.coverage["harness_build_s"] = round(secs, 1)
    if not ok:
        ck.violation("harness/build", "harness does not build against /repo", {"correspondence": "harness build", "log": blog[-1500:]}, found_input=False)
        sys.exit(ck.finish())
    runner = vlib.SqlRunner(mem_gb=10)
    rng = Rng(ck.seed * 7919 + 16)
    try:
        layout_component(ck, tier)
        agg_component(ck, runner, rng, tier)
        strings_component(ck, runner, rng, tier)
        # phase exclusion: the join shapes of C04 under the controlled scheduler
        keep = c04.SHAPES
        c04.SHAPES = [s for s in keep if "join" in s[0] or s[0].startswith(("semi", "anti", "in_", "not_in"))]
        c04.sched_component(ck, runner, rng, "quick")
        c04.SHAPES = keep
    finally:
        runner.close()
    if not proof_ok:
        ck.violation("proof/C16", "proof obligation of Props/C16.lean no longer checks", {"theorem": "GlareModel.Props.C16.*", "log": ck.broken_proof}, found_input=bool(ck.violations))
    sys.exit(ck.finish())


if __name__ == "__main__":
    main()
