"""Differential runner: engine (under a list of configurations) vs Sem (gmodel), with shrinking."""
import json

import qgen
import vlib
from sqlutil import bag, row_cmp


def tags(q, acc=None):
    """Set of construct tags used in a query/expression term (the failure signature)."""
    acc = set() if acc is None else acc
    if isinstance(q, tuple) and q:
        t = q[0]
        if isinstance(t, str):
            if t == "join":
                acc.add("join." + q[1])
            elif t == "aggsets":
                acc.add("aggsets." + (q[5] if len(q) > 5 else "sets"))
                for fn, d, arg, f in q[3]:
                    acc.add("agg." + fn)
                    tags(arg, acc)
                tags(q[4], acc)
                return acc
            elif t == "agg":
                acc.add("agg")
                for fn, d, arg, f in q[2]:
                    acc.add("agg." + fn + (".distinct" if d else "") + (".filter" if f is not None else ""))
                    tags(arg, acc)
                    if f is not None:
                        tags(f, acc)
                for g in q[1]:
                    tags(g, acc)
                tags(q[3], acc)
                return acc
            elif t in ("lit", "col", "ocol"):
                if t == "ocol":
                    acc.add("corr")
                return acc
            else:
                acc.add(t)
        for x in q[1:] if isinstance(t, str) else q:
            if isinstance(x, (tuple, list)):
                tags(x, acc)
    elif isinstance(q, list):
        for x in q:
            tags(x, acc)
    return acc


def children(q):
    """Sub-queries of the same arity usable as replacements when shrinking."""
    t = q[0]
    if t in ("filter", "distinct", "sort"):
        return [q[-1]]
    if t == "limit":
        return [q[3]]
    if t == "union":
        return [q[2]]
    if t == "join" and q[1] in ("semi", "anti"):
        return [q[3]]
    return []


def rebuild(q, path, new):
    if not path:
        return new
    i = path[0]
    return q[:i] + (rebuild(q[i], path[1:], new),) + q[i + 1:]


def subqueries(q, path=()):
    """(path, subterm) for every query-valued position."""
    out = [(path, q)]
    t = q[0]
    pos = {"filter": [2], "project": [2], "join": [3, 4], "agg": [3], "aggsets": [4], "distinct": [1], "union": [2, 3], "sort": [2], "limit": [3]}.get(t, [])
    for i in pos:
        out += subqueries(q[i], path + (i,))
    return out


class SemDiff:
    def __init__(self, ck, runner, component, prop_kind="sem"):
        self.ck = ck
        self.runner = runner
        self.component = component
        self.stats = {"cases": 0, "agree": 0, "model_err": 0, "engine_rejects": 0, "mismatch": 0}
        self.reject_samples = {}

    @staticmethod
    def cap_of(config):
        """Rows per INSERT statement. (Until the repair of F36 a stored chunk with more rows than the session's batch_size made scans
        panic and this returned the batch size; now chunks larger than the batch size are part of what is explored.)"""
        return 400

    def model_rows(self, db, queries):
        lines = [f"case {i} sem {qgen.db_sexp(db)} ;; {qgen.sexp(q)}" for i, q in enumerate(queries)]
        out = vlib.run_model(lines).get("out", {})
        res = []
        for i in range(len(queries)):
            o = out.get(str(i), "bad")
            if o.startswith("ok "):
                res.append(("ok", json.loads(o[3:])))
            else:
                res.append(("err", o))
        return res

    def engine_rows(self, db, queries, config, inserts, threads=4):
        """Returns list (per query) of ('rows', rows, cols) | ('err', msg) | ('crash', info)."""
        # session settings first; one INSERT may hold more rows than the batch size (scans then slice the stored chunk: F36)
        stmts = list(config) + qgen.setup_sql(db, inserts=inserts, cap=self.cap_of(config))
        nsetup = len(stmts)
        sqls = [qgen.Renderer({k: v[0] for k, v in db.items()}).query(q) for q in queries]
        res = self.runner.run(stmts + sqls, threads=threads, timeout=40)
        if isinstance(res, dict):
            if len(queries) == 1:
                return [("crash", res)], sqls
            # isolate: run each query on its own
            out = []
            for q in queries:
                r, _ = self.engine_rows(db, [q], config, inserts, threads)
                out.append(r[0])
            return out, sqls
        out = []
        for r in res[nsetup:]:
            if "rows" in r:
                out.append(("rows", r["rows"], r["cols"], r.get("batch_types_ok", True)))
            elif "panic" in r:
                out.append(("crash", r))
            else:
                out.append(("err", r.get("err", "")))
        return out, sqls

    @staticmethod
    def same(model_rows, eng_rows, keys):
        if bag(model_rows) != bag(eng_rows):
            return False
        if keys:
            # sequence must respect the ORDER BY keys: compare key projections
            cmpf = row_cmp([(i, d, nf) for (e, d, nf), i in keys])
            return all(cmpf(a, b) <= 0 for a, b in zip(eng_rows, eng_rows[1:]))
        return True

    def check(self, db, queries, configs, inserts=1, sort_keys=None, known_key=None):
        """queries: list of terms; configs: list of (name, [SET stmts]); sort_keys: per query None or [((expr,d,nf), col index)]."""
        ck = self.ck
        # queries whose joins can materialise millions of rows (a triple cross join of the 300-1500 row tables) are dropped: the
        # Lean reference evaluator and the JSON transport need minutes for them and they add nothing a 10^5-row product does not
        keep = [i for i, q in enumerate(queries) if qgen.max_intermediate(q, db) <= 400000]
        if len(keep) != len(queries):
            self.stats["skipped_too_large"] = self.stats.get("skipped_too_large", 0) + len(queries) - len(keep)
            queries = [queries[i] for i in keep]
            if sort_keys:
                sort_keys = [sort_keys[i] for i in keep]
        if not queries:
            return
        models = self.model_rows(db, queries)
        per_cfg = []
        for name, cfg in configs:
            eng, sqls = self.engine_rows(db, queries, cfg, inserts)
            per_cfg.append((name, cfg, eng, sqls))
        for qi, q in enumerate(queries):
            self.stats["cases"] += 1
            ck.count(self.component, 1)
            ck.nontrivial(qgen.sexp(q))
            m = models[qi]
            keys = sort_keys[qi] if sort_keys else None
            if m[0] != "ok":
                self.stats["model_err"] += 1
                k = "model_err_" + str(m[1]).replace(" ", "_")[:30]
                self.stats[k] = self.stats.get(k, 0) + 1
                continue
            bad = None
            rejected = False
            for name, cfg, eng, sqls in per_cfg:
                e = eng[qi]
                if e[0] == "crash":
                    bad = (name, cfg, "crash", e[1], sqls[qi])
                    break
                if e[0] == "err":
                    rejected = True
                    self.reject_samples.setdefault(e[1][:60], sqls[qi][:300])
                    continue
                if not self.same(m[1], e[1], keys):
                    bad = (name, cfg, "rows", e[1], sqls[qi])
                    break
                if not e[3]:
                    bad = (name, cfg, "batch-types", e[1], sqls[qi])
                    break
            if bad is None:
                # an error under one configuration but rows under another is also a disagreement
                kinds = {eng[qi][0] for _, _, eng, _ in per_cfg}
                if rejected and "rows" in kinds:
                    name = next(n for n, _, eng, _ in per_cfg if eng[qi][0] == "err")
                    cfg = next(c for n, c, eng, _ in per_cfg if eng[qi][0] == "err")
                    e = next(eng[qi] for n, c, eng, _ in per_cfg if eng[qi][0] == "err")
                    bad = (name, cfg, "err-vs-rows", e[1], per_cfg[0][3][qi])
                elif rejected:
                    self.stats["engine_rejects"] += 1
                    continue
                else:
                    self.stats["agree"] += 1
                    continue
            self.stats["mismatch"] += 1
            self.report(db, q, keys, configs, bad, inserts, known_key)

    def report(self, db, q, keys, configs, bad, inserts, known_key):
        name, cfg, kind, got, sql = bad
        # shrink: hoist sub-queries, then drop rows, while model != engine under this configuration
        def fails(db2, q2):
            try:
                m = self.model_rows(db2, [q2])[0]
                if m[0] != "ok":
                    return False
                e, _ = self.engine_rows(db2, [q2], cfg, inserts)
                e = e[0]
                if kind == "crash":
                    return e[0] == "crash"
                if kind == "err-vs-rows":
                    return e[0] == "err"
                return e[0] == "rows" and not self.same(m[1], e[1], None)
            except Exception:
                return False
        cur_db, cur_q = db, q
        self.shrunk = getattr(self, 'shrunk', 0) + 1
        if kind == "rows" and self.shrunk <= 6:
            budget = 24
            changed = True
            while changed and budget > 0:
                changed = False
                for path, sub in subqueries(cur_q):
                    for ch in children(sub):
                        budget -= 1
                        cand = rebuild(cur_q, path, ch)
                        if budget > 0 and fails(cur_db, cand):
                            cur_q = cand
                            changed = True
                            break
                    if changed:
                        break
                if not changed and cur_q[0] in ("filter", "project", "sort", "limit", "distinct") and budget > 0:
                    pass
            for tname in list(cur_db):
                types, rows = cur_db[tname]
                while len(rows) > 1 and budget > 0:
                    budget -= 1
                    half = rows[:len(rows) // 2]
                    cand = dict(cur_db)
                    cand[tname] = (types, half)
                    if fails(cand, cur_q):
                        cur_db = cand
                        rows = half
                    else:
                        half2 = rows[len(rows) // 2:]
                        cand[tname] = (types, half2)
                        budget -= 1
                        if fails(cand, cur_q):
                            cur_db = cand
                            rows = half2
                        else:
                            break
        sig = "+".join(sorted(tags(cur_q)))
        model = self.model_rows(cur_db, [cur_q])[0]
        eng, sqls = self.engine_rows(cur_db, [cur_q], cfg, inserts)
        key = known_key(cur_q, cur_db, kind) if known_key else None
        key = key or f"{self.component}/{kind}/{sig}"
        self.ck.violation(key, f"engine ({name}) disagrees with Sem on a query using {sig}: engine {str(eng[0][1])[:160]} model {str(model[1])[:160]}",
                          {"kind": "impl-vs-oracle", "config": cfg, "setup": list(cfg) + qgen.setup_sql(cur_db, inserts=inserts, cap=self.cap_of(cfg)), "sql": sqls[0],
                           "query_sexp": qgen.sexp(cur_q), "db_sexp": qgen.db_sexp(cur_db), "engine": eng[0][1] if eng[0][0] != "crash" else eng[0][1],
                           "model": model[1], "original_sql": sql})

    def finish(self):
        for k, v in self.stats.items():
            self.ck.note(self.component, k, v)
        self.ck.note(self.component, "engine_reject_samples", dict(list(self.reject_samples.items())[:8]))
