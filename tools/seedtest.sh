#!/bin/sh
# usage: tools/seedtest.sh <seed dir name under /verif/seeded> <Cxx> [tier]
# Applies the seeded patch to /repo, runs the check, reverts the patch. Prints the verdict.
seed="/verif/seeded/$1"; prop="$2"; tier="${3:-quick}"
cd /repo || exit 2
if ! git diff --quiet; then echo "repo not clean"; exit 2; fi
git apply "$seed/patch.diff" || git apply -3 "$seed/patch.diff" || { echo "patch does not apply"; exit 2; }
cd /verif && ./check "$prop" "$tier" > "/tmp/seedtest_$1_$prop.log" 2>&1
rc=$?
git -C /repo checkout -- . 
echo "seed=$1 prop=$prop rc=$rc"; grep -E "^VIOLATION|^$prop " "/tmp/seedtest_$1_$prop.log" | head -5
