//! SQL runner: reads one JSON request per line on stdin, runs the statements
//! on a fresh engine (or a persistent one), prints one JSON response per line.
//!
//! request : {"id":N, "threads":K?, "stmts":[sql,...]}
//! response: {"id":N, "results":[ {"cols":[[name,type],...], "rows":[[cell,...],...], "batch_types_ok":bool}
//!                               | {"err":msg} | {"panic":msg} ]}
//! Cells are canonical strings (see `cell`); NULL is JSON null.
use std::io::{BufRead, Write};
use std::panic::{AssertUnwindSafe, catch_unwind};

use glaredb_core::arrays::batch::Batch;
use glaredb_core::arrays::scalar::BorrowedScalarValue;
use glaredb_core::engine::single_user::SingleUserEngine;
use glaredb_ext_csv::extension::CsvExtension;
use glaredb_ext_parquet::extension::ParquetExtension;
use glaredb_rt_native::runtime::{
    NativeSystemRuntime,
    ThreadedNativeExecutor,
    new_tokio_runtime_for_io,
};
use serde_json::{Value, json};

pub type Engine = SingleUserEngine<ThreadedNativeExecutor, NativeSystemRuntime>;

pub fn new_engine(tokio_rt: &tokio::runtime::Runtime, threads: usize) -> Engine {
    let executor = ThreadedNativeExecutor::try_new_with_num_threads(threads).unwrap();
    let runtime = NativeSystemRuntime::new(tokio_rt.handle().clone());
    let engine = SingleUserEngine::try_new(executor, runtime).unwrap();
    engine.engine.register_extension(CsvExtension).unwrap();
    engine.engine.register_extension(ParquetExtension).unwrap();
    engine
}

pub fn cell(v: &BorrowedScalarValue) -> Value {
    use BorrowedScalarValue as S;
    match v {
        S::Null => Value::Null,
        S::Boolean(b) => json!(if *b { "true" } else { "false" }),
        S::Float16(f) => json!(format!("f16:{:04x}", f.to_bits())),
        S::Float32(f) => json!(format!("f32:{:08x}", f.to_bits())),
        S::Float64(f) => json!(format!("f64:{:016x}", f.to_bits())),
        S::Int8(x) => json!(x.to_string()),
        S::Int16(x) => json!(x.to_string()),
        S::Int32(x) => json!(x.to_string()),
        S::Int64(x) => json!(x.to_string()),
        S::Int128(x) => json!(x.to_string()),
        S::UInt8(x) => json!(x.to_string()),
        S::UInt16(x) => json!(x.to_string()),
        S::UInt32(x) => json!(x.to_string()),
        S::UInt64(x) => json!(x.to_string()),
        S::UInt128(x) => json!(x.to_string()),
        S::Decimal64(d) => json!(format!("d:{}:{}:{}", d.precision, d.scale, d.value)),
        S::Decimal128(d) => json!(format!("d:{}:{}:{}", d.precision, d.scale, d.value)),
        S::Date32(d) => json!(format!("date:{d}")),
        S::Date64(d) => json!(format!("date64:{d}")),
        S::Timestamp(t) => json!(format!("ts:{:?}:{}", t.unit, t.value)),
        S::Interval(i) => json!(format!("iv:{}:{}:{}", i.months, i.days, i.nanos)),
        S::Utf8(s) => json!(format!("s:{s}")),
        S::Binary(b) => {
            let hex: String = b.iter().map(|x| format!("{x:02x}")).collect();
            json!(format!("b:{hex}"))
        }
        S::Struct(vs) => Value::Array(vs.iter().map(cell).collect()),
        S::List(vs) => Value::Array(vs.iter().map(cell).collect()),
    }
}

pub fn batches_to_rows(batches: &[Batch]) -> Vec<Value> {
    let mut rows = Vec::new();
    for b in batches {
        for r in 0..b.num_rows() {
            let mut row = Vec::with_capacity(b.arrays().len());
            for a in b.arrays() {
                match a.get_value(r) {
                    Ok(v) => row.push(cell(&v)),
                    Err(e) => row.push(json!(format!("GETERR:{e}"))),
                }
            }
            rows.push(Value::Array(row));
        }
    }
    rows
}

pub type ExtraSession = glaredb_core::engine::session::Session<ThreadedNativeExecutor, NativeSystemRuntime>;

/// Runs one statement on session `sid`: 0 is the engine's own single-user session, k >= 1 is the
/// k-th additional session created with `Engine::new_session` (same engine, own temp catalog).
pub fn run_stmt_on(
    tokio_rt: &tokio::runtime::Runtime,
    engine: &Engine,
    extra: &mut Vec<ExtraSession>,
    sid: usize,
    sql: &str,
) -> Value {
    if sid == 0 {
        return run_stmt(tokio_rt, engine, sql);
    }
    while extra.len() < sid {
        match engine.engine.new_session() {
            Ok(s) => extra.push(s),
            Err(e) => return json!({ "err": format!("new_session: {e}") }),
        }
    }
    let sess = &mut extra[sid - 1];
    let res = catch_unwind(AssertUnwindSafe(|| {
        tokio_rt.block_on(async {
            let mut rs = sess.simple(sql).await?;
            if rs.len() != 1 {
                return Err(glaredb_error::DbError::new(format!("Expected 1 statement, got {}", rs.len())));
            }
            let mut q = rs.pop().unwrap();
            let batches = q.output.collect().await?;
            Ok::<_, glaredb_error::DbError>((batches, q.output_schema))
        })
    }));
    finish_result(res)
}

pub fn run_stmt(tokio_rt: &tokio::runtime::Runtime, engine: &Engine, sql: &str) -> Value {
    let res = catch_unwind(AssertUnwindSafe(|| {
        tokio_rt.block_on(async {
            let mut q = engine.session().query(sql).await?;
            let batches = q.output.collect().await?;
            Ok::<_, glaredb_error::DbError>((batches, q.output_schema))
        })
    }));
    finish_result(res)
}

type StmtOutcome = std::thread::Result<Result<(Vec<Batch>, glaredb_core::arrays::field::ColumnSchema), glaredb_error::DbError>>;

fn finish_result(res: StmtOutcome) -> Value {
    match res {
        Err(p) => {
            let msg = if let Some(s) = p.downcast_ref::<String>() {
                s.clone()
            } else if let Some(s) = p.downcast_ref::<&str>() {
                s.to_string()
            } else {
                "panic".to_string()
            };
            json!({ "panic": msg })
        }
        Ok(Err(e)) => {
            let full = e.to_string();
            let first = full.lines().next().unwrap_or("").to_string();
            json!({ "err": first })
        }
        Ok(Ok((batches, schema))) => {
            let cols: Vec<Value> = schema
                .fields
                .iter()
                .map(|f| json!([f.name, f.datatype.to_string()]))
                .collect();
            // C18: every produced array must carry the announced datatype.
            let mut types_ok = true;
            let mut bad = String::new();
            for b in &batches {
                if b.arrays().len() != schema.fields.len() {
                    types_ok = false;
                    bad = format!("batch has {} arrays, schema {}", b.arrays().len(), schema.fields.len());
                }
                for (a, f) in b.arrays().iter().zip(&schema.fields) {
                    if a.datatype() != &f.datatype {
                        types_ok = false;
                        bad = format!("{} announced {} produced {}", f.name, f.datatype, a.datatype());
                    }
                }
            }
            json!({ "cols": cols, "rows": batches_to_rows(&batches), "batch_types_ok": types_ok, "batch_types_bad": bad, "nbatches": batches.len() })
        }
    }
}

pub fn main(_args: &[String]) -> i32 {
    // Keep panics short on stderr.
    std::panic::set_hook(Box::new(|info| {
        // one line: "panicked at <file>:<line>:<col>: <message>"
        eprintln!("PANIC {}", info.to_string().lines().take(2).collect::<Vec<_>>().join(" "));
    }));
    let tokio_rt = new_tokio_runtime_for_io().unwrap();
    let stdin = std::io::stdin();
    let stdout = std::io::stdout();
    for line in stdin.lock().lines() {
        let line = match line {
            Ok(l) => l,
            Err(_) => break,
        };
        if line.trim().is_empty() {
            continue;
        }
        let req: Value = match serde_json::from_str(&line) {
            Ok(v) => v,
            Err(e) => {
                eprintln!("bad request: {e}");
                continue;
            }
        };
        let id = req["id"].clone();
        let threads = req["threads"].as_u64().unwrap_or(4) as usize;
        {
            // Announce start so the driver knows which case kills the process.
            let mut o = stdout.lock();
            writeln!(o, "{}", json!({"start": id})).ok();
            o.flush().ok();
        }
        let engine = new_engine(&tokio_rt, threads);
        let mut extra: Vec<ExtraSession> = Vec::new();
        let mut results = Vec::new();
        if let Some(stmts) = req["stmts"].as_array() {
            for s in stmts {
                // a statement is either "sql" (session 0) or [session id, "sql"]
                if let Some(pair) = s.as_array() {
                    let sid = pair.first().and_then(|v| v.as_u64()).unwrap_or(0) as usize;
                    let sql = pair.get(1).and_then(|v| v.as_str()).unwrap_or("");
                    results.push(run_stmt_on(&tokio_rt, &engine, &mut extra, sid, sql));
                } else {
                    let sql = s.as_str().unwrap_or("");
                    results.push(run_stmt(&tokio_rt, &engine, sql));
                }
            }
        }
        drop(extra);
        let mut o = stdout.lock();
        writeln!(o, "{}", json!({"id": id, "results": results})).ok();
        o.flush().ok();
    }
    0
}
