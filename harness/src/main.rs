//! gvh: verification harness. Calls the real GlareDB code in-process and
//! prints canonical lines that the driver compares with the Lean model.
#[cfg(feature = "internals")]
mod castfmt;
#[cfg(feature = "internals")]
mod casttable;
#[cfg(feature = "internals")]
mod collection;
#[cfg(feature = "internals")]
mod csvdec;
#[cfg(feature = "internals")]
mod directory;
#[cfg(feature = "internals")]
mod execstack;
#[cfg(feature = "internals")]
mod varint;
#[cfg(feature = "internals")]
mod layout;
#[cfg(feature = "internals")]
mod rledec;
mod rng;
#[cfg(feature = "internals")]
mod sortkey;
mod sched;
mod sqlrun;
#[cfg(feature = "internals")]
mod tok;

fn main() {
    let args: Vec<String> = std::env::args().collect();
    if args.len() < 2 {
        eprintln!("usage: gvh <component> [args]");
        std::process::exit(2);
    }
    let rest = &args[2..];
    let rc = match args[1].as_str() {
        "sql" => sqlrun::main(rest),
        #[cfg(feature = "internals")]
        "layout" => layout::main(rest),
        #[cfg(feature = "internals")]
        "execstack" => execstack::main(rest),
        #[cfg(feature = "internals")]
        "directory" => directory::main(rest),
        "sched" => sched::main(rest),
        #[cfg(feature = "internals")]
        "varint" => varint::main(rest),
        "cancel" => sched::cancel_main(rest),
        #[cfg(feature = "internals")]
        "tasktrace" => sched::tasktrace_main(rest),
        #[cfg(feature = "internals")]
        "casttable" => casttable::main(rest),
        #[cfg(feature = "internals")]
        "tok" => tok::main(rest),
        #[cfg(feature = "internals")]
        "sortkey" => sortkey::main(rest),
        #[cfg(feature = "internals")]
        "cast" => castfmt::main(rest),
        #[cfg(feature = "internals")]
        "csv" => csvdec::main(rest),
        #[cfg(feature = "internals")]
        "rle" => rledec::main(rest),
        #[cfg(feature = "internals")]
        "collection" => collection::main(rest),
        other => {
            eprintln!("unknown component {other}");
            2
        }
    };
    std::process::exit(rc);
}
