//! gvh: verification harness. Calls the real GlareDB code in-process and
//! prints canonical lines that the driver compares with the Lean model.
mod castfmt;
mod csvdec;
mod rledec;
mod rng;
mod sortkey;
mod sqlrun;

fn main() {
    let args: Vec<String> = std::env::args().collect();
    if args.len() < 2 {
        eprintln!("usage: gvh <component> [args]");
        std::process::exit(2);
    }
    let rest = &args[2..];
    let rc = match args[1].as_str() {
        "sql" => sqlrun::main(rest),
        "sortkey" => sortkey::main(rest),
        "cast" => castfmt::main(rest),
        "csv" => csvdec::main(rest),
        "rle" => rledec::main(rest),
        other => {
            eprintln!("unknown component {other}");
            2
        }
    };
    std::process::exit(rc);
}
