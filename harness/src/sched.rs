//! C04 controlled scheduler: a `PipelineRuntime` implemented by the harness owns the
//! `ExecutablePartitionPipeline`s of a query and polls them one at a time in an order drawn from
//! a PRNG; the client's result stream is one more task. Scheduling is *wake-only*: a task is
//! polled only if it has been woken since its last poll (every task starts woken), plus optional
//! spurious wakes. If the query is unfinished and no task is runnable, a wake-up was lost: that
//! schedule is a hang witness.
//!
//! request : {"id":N, "partitions":P, "seed":S, "schedules":K, "spurious":pct, "setup":[sql..], "query":sql, "policy":"random"|"fifo"|"lifo"|"starve-client"}
//! response: {"id":N, "runs":[ {"outcome":"rows"|"err"|"hang"|"livelock"|"poll-after-done", "rows":[..], "err":msg, "steps":n, "wakes":n,
//!                              "spurious":n, "wakes_after_done":n, "trace":[task ids ...] } ... ]}
use std::future::Future;
use std::io::{BufRead, Write};
use std::panic::{AssertUnwindSafe, catch_unwind};
use std::pin::Pin;
use std::sync::Arc;
use std::sync::atomic::{AtomicBool, AtomicUsize, Ordering};
use std::task::{Context, Poll, Wake, Waker};
use std::time::{Duration, Instant};

use glaredb_core::engine::single_user::SingleUserEngine;
use glaredb_core::execution::partition_pipeline::ExecutablePartitionPipeline;
use glaredb_core::runtime::pipeline::{ErrorSink, PipelineRuntime, QueryHandle};
use glaredb_core::runtime::profile_buffer::ProfileBuffer;
use glaredb_core::runtime::time::RuntimeInstant;
use glaredb_ext_csv::extension::CsvExtension;
use glaredb_ext_parquet::extension::ParquetExtension;
use glaredb_rt_native::runtime::{NativeSystemRuntime, new_tokio_runtime_for_io};
use serde_json::{Value, json};
use std::sync::Mutex;

use crate::rng::Rng;
use crate::sqlrun::batches_to_rows;

pub struct Inst(Instant);
impl RuntimeInstant for Inst {
    fn now() -> Self {
        Inst(Instant::now())
    }
    fn duration_since(&self, earlier: Self) -> Duration {
        self.0.saturating_duration_since(earlier.0)
    }
}

#[derive(Default)]
struct Spawned {
    pipelines: Vec<ExecutablePartitionPipeline>,
    errors: Option<Arc<dyn ErrorSink>>,
}

#[derive(Clone)]
pub struct CtlRuntime {
    partitions: usize,
    spawned: Arc<Mutex<Spawned>>,
}

impl std::fmt::Debug for CtlRuntime {
    fn fmt(&self, f: &mut std::fmt::Formatter<'_>) -> std::fmt::Result {
        write!(f, "CtlRuntime")
    }
}

#[derive(Debug)]
struct CtlHandle {
    profiles: ProfileBuffer,
    canceled: AtomicBool,
}

impl QueryHandle for CtlHandle {
    fn cancel(&self) {
        self.canceled.store(true, Ordering::SeqCst);
    }
    fn get_profile_buffer(&self) -> &ProfileBuffer {
        &self.profiles
    }
}

impl PipelineRuntime for CtlRuntime {
    fn default_partitions(&self) -> usize {
        self.partitions
    }

    fn spawn_pipelines(&self, pipelines: Vec<ExecutablePartitionPipeline>, errors: Arc<dyn ErrorSink>) -> Arc<dyn QueryHandle> {
        let (profiles, _gen) = ProfileBuffer::new(pipelines.len());
        let mut s = self.spawned.lock().unwrap();
        s.pipelines = pipelines;
        s.errors = Some(errors);
        Arc::new(CtlHandle { profiles, canceled: AtomicBool::new(false) })
    }
}

struct Flag {
    woken: AtomicBool,
    count: AtomicUsize,
}

impl Wake for Flag {
    fn wake(self: Arc<Self>) {
        self.woken.store(true, Ordering::SeqCst);
        self.count.fetch_add(1, Ordering::SeqCst);
    }
    fn wake_by_ref(self: &Arc<Self>) {
        self.woken.store(true, Ordering::SeqCst);
        self.count.fetch_add(1, Ordering::SeqCst);
    }
}

struct Noop;
impl Wake for Noop {
    fn wake(self: Arc<Self>) {}
}

type Engine = SingleUserEngine<CtlRuntime, NativeSystemRuntime>;

/// Drives one statement to completion under the given policy. Returns the outcome object.
fn drive(engine: &Engine, rt: &CtlRuntime, sql: &str, rng: &mut Rng, policy: &str, spurious: u64, keep_trace: bool) -> Value {
    // bind + plan: poll the query future by hand (it does not need the pipelines to run)
    let noop: Waker = Arc::new(Noop).into();
    let mut ncx = Context::from_waker(&noop);
    let session = engine.session().clone();
    let sql_owned = sql.to_string();
    let mut qfut: Pin<Box<dyn Future<Output = glaredb_error::Result<glaredb_core::engine::query_result::QueryResult>>>> =
        Box::pin(async move { session.query(&sql_owned).await });
    let mut spins = 0;
    let mut qres = loop {
        match qfut.as_mut().poll(&mut ncx) {
            Poll::Ready(Ok(q)) => break q,
            Poll::Ready(Err(e)) => return json!({"outcome": "err", "err": e.to_string().lines().next().unwrap_or("").to_string(), "phase": "plan"}),
            Poll::Pending => {
                spins += 1;
                if spins > 100000 {
                    return json!({"outcome": "hang", "phase": "plan"});
                }
                std::thread::sleep(Duration::from_micros(50));
            }
        }
    };
    drop(qfut);
    let (mut pipelines, errors) = {
        let mut s = rt.spawned.lock().unwrap();
        (std::mem::take(&mut s.pipelines), s.errors.take())
    };
    let n = pipelines.len();
    let flags: Vec<Arc<Flag>> = (0..=n).map(|_| Arc::new(Flag { woken: AtomicBool::new(true), count: AtomicUsize::new(0) })).collect();
    let wakers: Vec<Waker> = flags.iter().map(|f| f.clone().into()).collect();
    let mut done = vec![false; n];
    let mut trace: Vec<usize> = Vec::new();
    let mut steps = 0usize;
    let mut nspur = 0usize;
    let mut wakes_after_done = 0usize;
    let mut collect_fut = Box::pin(qres.output.collect());
    let max_steps = 400_000usize;
    let outcome = loop {
        // spurious / repeated wake-ups
        if spurious > 0 && rng.below(100) < spurious {
            let j = rng.below((n + 1) as u64) as usize;
            if j == n || !done[j] {
                flags[j].woken.store(true, Ordering::SeqCst);
                nspur += 1;
            }
        }
        let runnable: Vec<usize> = (0..=n).filter(|&i| (i == n || !done[i]) && flags[i].woken.load(Ordering::SeqCst)).collect();
        for (i, d) in done.iter().enumerate() {
            if *d && flags[i].woken.swap(false, Ordering::SeqCst) {
                wakes_after_done += 1; // a completed task ignores wakes
            }
        }
        if runnable.is_empty() {
            let mut dbg: Vec<String> = Vec::new();
            if std::env::var("GVH_SCHED_DEBUG").is_ok() {
                for (i, p) in pipelines.iter().enumerate() {
                    if !done[i] {
                        let full = format!("{:?}", p);
                        let mut names: Vec<&str> = Vec::new();
                        for part in full.split("PlannedOperator").skip(1) {
                            if let Some(k) = part.find("name: ") {
                                names.push(part[k + 6..].split(',').next().unwrap_or(""));
                            }
                        }
                        let stack = full.rfind("stack: ").map(|k| full[k..].chars().take(300).collect::<String>()).unwrap_or_default();
                        dbg.push(format!("task {} ops {:?} {}", i, names, stack));
                    }
                }
            }
            break json!({"outcome": "hang", "unfinished_pipelines": done.iter().filter(|d| !**d).count(), "debug": dbg});
        }
        let pick = match policy {
            "fifo" => runnable[0],
            "lifo" => *runnable.last().unwrap(),
            "starve-client" => {
                let others: Vec<usize> = runnable.iter().copied().filter(|&i| i != n).collect();
                if others.is_empty() { n } else { others[rng.below(others.len() as u64) as usize] }
            }
            "client-first" => {
                if runnable.contains(&n) && rng.below(4) != 0 { n } else { runnable[rng.below(runnable.len() as u64) as usize] }
            }
            _ => runnable[rng.below(runnable.len() as u64) as usize],
        };
        flags[pick].woken.store(false, Ordering::SeqCst);
        steps += 1;
        if keep_trace && trace.len() < 4000 {
            trace.push(pick);
        }
        if steps > max_steps {
            break json!({"outcome": "livelock"});
        }
        let mut cx = Context::from_waker(&wakers[pick]);
        if pick == n {
            match collect_fut.as_mut().poll(&mut cx) {
                Poll::Ready(Ok(batches)) => break json!({"outcome": "rows", "rows": batches_to_rows(&batches), "pipelines_unfinished_at_end": done.iter().filter(|d| !**d).count()}),
                Poll::Ready(Err(e)) => break json!({"outcome": "err", "err": e.to_string().lines().next().unwrap_or("").to_string()}),
                Poll::Pending => {}
            }
        } else {
            match pipelines[pick].poll_execute::<Inst>(&mut cx) {
                Poll::Ready(Ok(_prof)) => done[pick] = true,
                Poll::Ready(Err(e)) => {
                    if let Some(sink) = &errors {
                        sink.set_error(e);
                    }
                    done[pick] = true;
                }
                Poll::Pending => {}
            }
        }
    };
    drop(collect_fut);
    let mut o = outcome;
    let wakes: usize = flags.iter().map(|f| f.count.load(Ordering::SeqCst)).sum();
    o["steps"] = json!(steps);
    o["tasks"] = json!(n + 1);
    o["wakes"] = json!(wakes);
    o["spurious"] = json!(nspur);
    o["wakes_after_done"] = json!(wakes_after_done);
    if keep_trace {
        o["trace"] = json!(trace);
    }
    o
}

/// `gvh cancel`: real threaded runtime. request {"id", "threads", "partitions", "delay_ms", "query"}; the query is started,
/// `QueryHandle::cancel` is called from another thread after `delay_ms`, the stream is read to its end.
/// response {"id", "outcome":"rows"|"err", "err", "nrows", "elapsed_ms", "cancel_called_at_ms"}
pub fn cancel_main(_args: &[String]) -> i32 {
    use glaredb_rt_native::runtime::ThreadedNativeExecutor;
    let tokio_rt = new_tokio_runtime_for_io().unwrap();
    let stdin = std::io::stdin();
    let stdout = std::io::stdout();
    for line in stdin.lock().lines() {
        let Ok(line) = line else { break };
        let req: Value = match serde_json::from_str(&line) {
            Ok(v) => v,
            Err(_) => continue,
        };
        let id = req["id"].clone();
        let threads = req["threads"].as_u64().unwrap_or(4) as usize;
        let partitions = req["partitions"].as_u64().unwrap_or(4);
        let delay = req["delay_ms"].as_i64().unwrap_or(-1);
        let query = req["query"].as_str().unwrap_or("SELECT 1").to_string();
        let executor = ThreadedNativeExecutor::try_new_with_num_threads(threads).unwrap();
        let engine = SingleUserEngine::try_new(executor, NativeSystemRuntime::new(tokio_rt.handle().clone())).unwrap();
        let t0 = Instant::now();
        let called_at = Arc::new(Mutex::new(None::<u128>));
        let res = tokio_rt.block_on(async {
            engine.session().query(&format!("SET partitions TO {partitions}")).await?.output.collect().await?;
            let mut q = engine.session().query(&query).await?;
            let handle = q.output.query_handle();
            let canceller = if delay >= 0 {
                let called_at = called_at.clone();
                Some(std::thread::spawn(move || {
                    std::thread::sleep(Duration::from_millis(delay as u64));
                    *called_at.lock().unwrap() = Some(t0.elapsed().as_millis());
                    handle.cancel();
                }))
            } else {
                None
            };
            let r = q.output.collect().await;
            if let Some(c) = canceller {
                c.join().ok();
            }
            r
        });
        let elapsed = t0.elapsed().as_millis();
        let out = match res {
            Ok(b) => json!({"id": id, "outcome": "rows", "nrows": b.iter().map(|x| x.num_rows()).sum::<usize>(), "elapsed_ms": elapsed as u64, "cancel_called_at_ms": called_at.lock().unwrap().map(|x| x as u64)}),
            Err(e) => json!({"id": id, "outcome": "err", "err": e.to_string().lines().next().unwrap_or("").to_string(), "elapsed_ms": elapsed as u64, "cancel_called_at_ms": called_at.lock().unwrap().map(|x| x as u64)}),
        };
        let mut o = stdout.lock();
        writeln!(o, "{out}").ok();
        o.flush().ok();
    }
    0
}

/// `gvh tasktrace`: runs the requests like `gvh cancel` and prints, for every task of the thread-pool runtime that was
/// scheduled meanwhile, the sequence of `ScheduleState` transitions logged by the cfg(glaredb_verif) hook:
///   case <n> tasktrace <kind>:<running pending completed canceled as 0/1>:<error written 0/1> ...
#[cfg(feature = "internals")]
pub fn tasktrace_main(_args: &[String]) -> i32 {
    use glaredb_rt_native::runtime::ThreadedNativeExecutor;
    use glaredb_rt_native::verif_hooks;
    let tokio_rt = new_tokio_runtime_for_io().unwrap();
    let stdin = std::io::stdin();
    let stdout = std::io::stdout();
    let mut case = 0usize;
    for line in stdin.lock().lines() {
        let Ok(line) = line else { break };
        let req: Value = match serde_json::from_str(&line) {
            Ok(v) => v,
            Err(_) => continue,
        };
        let threads = req["threads"].as_u64().unwrap_or(4) as usize;
        let partitions = req["partitions"].as_u64().unwrap_or(4);
        let delay = req["delay_ms"].as_i64().unwrap_or(-1);
        let query = req["query"].as_str().unwrap_or("SELECT 1").to_string();
        let executor = ThreadedNativeExecutor::try_new_with_num_threads(threads).unwrap();
        let engine = SingleUserEngine::try_new(executor, NativeSystemRuntime::new(tokio_rt.handle().clone())).unwrap();
        verif_hooks::take_events();
        let res = tokio_rt.block_on(async {
            engine.session().query(&format!("SET partitions TO {partitions}")).await?.output.collect().await?;
            let mut q = engine.session().query(&query).await?;
            let handle = q.output.query_handle();
            let canceller = if delay >= 0 {
                Some(std::thread::spawn(move || {
                    std::thread::sleep(Duration::from_millis(delay as u64));
                    handle.cancel();
                }))
            } else {
                None
            };
            let r = q.output.collect().await;
            if let Some(c) = canceller {
                c.join().ok();
            }
            r
        });
        std::thread::sleep(Duration::from_millis(30));
        drop(engine);
        std::thread::sleep(Duration::from_millis(10));
        let events = verif_hooks::take_events();
        // one trace per task: events are grouped by the task's address, a "new" event starts a new task (addresses get reused)
        let mut traces: Vec<(usize, Vec<String>)> = Vec::new();
        let mut open: std::collections::HashMap<usize, usize> = std::collections::HashMap::new();
        for e in &events {
            if e.kind == "new" {
                open.insert(e.task, traces.len());
                traces.push((e.task, Vec::new()));
                continue;
            }
            let idx = match open.get(&e.task) {
                Some(i) => *i,
                // a task of an earlier request that is still running (its trace started before this window): skip
                None => continue,
            };
            traces[idx].1.push(format!("{}:{}:{}", e.kind, e.after.iter().map(|b| if *b { '1' } else { '0' }).collect::<String>(), if e.error_set { 1 } else { 0 }));
        }
        let mut o = stdout.lock();
        writeln!(o, "query {} outcome={} tasks={} events={}", req["id"], if res.is_ok() { "rows" } else { "err" }, traces.len(), events.len()).ok();
        for (_t, evs) in traces {
            if evs.is_empty() {
                continue;
            }
            writeln!(o, "case {case} tasktrace {}", evs.join(" ")).ok();
            case += 1;
        }
        writeln!(o, "done {}", req["id"]).ok();
        o.flush().ok();
    }
    0
}

pub fn main(_args: &[String]) -> i32 {
    std::panic::set_hook(Box::new(|info| {
        eprintln!("PANIC {}", info.to_string().lines().take(2).collect::<Vec<_>>().join(" "));
    }));
    let tokio_rt = new_tokio_runtime_for_io().unwrap();
    let stdin = std::io::stdin();
    let stdout = std::io::stdout();
    for line in stdin.lock().lines() {
        let Ok(line) = line else { break };
        if line.trim().is_empty() {
            continue;
        }
        let req: Value = match serde_json::from_str(&line) {
            Ok(v) => v,
            Err(_) => continue,
        };
        let id = req["id"].clone();
        let partitions = req["partitions"].as_u64().unwrap_or(2) as usize;
        let seed = req["seed"].as_u64().unwrap_or(1);
        let schedules = req["schedules"].as_u64().unwrap_or(1);
        let spurious = req["spurious"].as_u64().unwrap_or(0);
        let policy = req["policy"].as_str().unwrap_or("random").to_string();
        let query = req["query"].as_str().unwrap_or("SELECT 1").to_string();
        let setup: Vec<String> = req["setup"].as_array().map(|a| a.iter().filter_map(|s| s.as_str().map(String::from)).collect()).unwrap_or_default();
        let mut runs = Vec::new();
        for k in 0..schedules {
            let mut rng = Rng::new(seed.wrapping_mul(1_000_003).wrapping_add(k));
            let res = catch_unwind(AssertUnwindSafe(|| {
                let rt = CtlRuntime { partitions, spawned: Arc::new(Mutex::new(Spawned::default())) };
                let engine = SingleUserEngine::try_new(rt.clone(), NativeSystemRuntime::new(tokio_rt.handle().clone())).unwrap();
                engine.engine.register_extension(CsvExtension).unwrap();
                engine.engine.register_extension(ParquetExtension).unwrap();
                for s in &setup {
                    // setup statements run under the same controlled scheduler (fifo order)
                    let r = drive(&engine, &rt, s, &mut rng, "fifo", 0, false);
                    if r["outcome"] != "rows" {
                        return json!({"outcome": "setup-failed", "stmt": s, "detail": r});
                    }
                }
                drive(&engine, &rt, &query, &mut rng, &policy, spurious, true)
            }));
            runs.push(match res {
                Ok(v) => v,
                Err(p) => {
                    let msg = p.downcast_ref::<String>().cloned().or_else(|| p.downcast_ref::<&str>().map(|s| s.to_string())).unwrap_or_default();
                    json!({"outcome": "panic", "panic": msg})
                }
            });
        }
        let mut o = stdout.lock();
        writeln!(o, "{}", json!({"id": id, "runs": runs})).ok();
        o.flush().ok();
    }
    0
}
