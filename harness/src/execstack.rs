//! C04 execution-stack correspondence: the real `ExecutionStack::pop_next` (through the cfg-guarded
//! hook `verif_hooks::execution_stack_trace`) driven by scripted poll results.
//!   case N execstack <num_operators> <b1,b2,...|->      out N e0:0 e1:4 f2:0 ... end=<0|1|2>
//! Two streams: protocol-shaped scripts (mostly Ready/HasMore, occasional Pending, Exhausted,
//! NeedsDrain, so that runs get deep and finish) and uniformly random bytes.
use std::io::Write;

use glaredb_core::verif_hooks;

use crate::rng::Rng;

pub fn main(args: &[String]) -> i32 {
    let seed: u64 = args.first().and_then(|s| s.parse().ok()).unwrap_or(1);
    let n: usize = args.get(1).and_then(|s| s.parse().ok()).unwrap_or(500);
    let mut rng = Rng::new(seed.wrapping_mul(0x0400_0000_0000_0057));
    let stdout = std::io::stdout();
    let mut o = stdout.lock();
    for case in 0..n {
        let nops = 1 + rng.below(9) as usize;
        let len = *rng.pick(&[0usize, 1, 3, 8, 20, 40, 80, 160]);
        let shaped = case % 4 != 3;
        let script: Vec<u8> = (0..len)
            .map(|_| {
                if !shaped {
                    return rng.below(256) as u8;
                }
                // exec answer (mod 5) and finalize answer (mod 3) chosen independently, combined by CRT: b = 5*x + e with b % 3 = f
                let e = *rng.pick(&[0u8, 0, 0, 0, 3, 3, 1, 2, 4, 4]);
                let f = *rng.pick(&[0u8, 0, 0, 1, 1, 2]);
                let mut b = e;
                while b % 3 != f {
                    b += 5;
                }
                b
            })
            .collect();
        let (calls, end) = verif_hooks::execution_stack_trace(nops, &script);
        let join = |v: &[u8]| if v.is_empty() { "-".to_string() } else { v.iter().map(|x| x.to_string()).collect::<Vec<_>>().join(",") };
        writeln!(o, "case {case} execstack {nops} {}", join(&script)).ok();
        let mut line = String::new();
        for (is_fin, idx, ans) in &calls {
            if !line.is_empty() {
                line.push(' ');
            }
            line.push_str(&format!("{}{}:{}", if *is_fin { 'f' } else { 'e' }, idx, ans));
        }
        if line.is_empty() {
            writeln!(o, "out {case} end={end}").ok();
        } else {
            writeln!(o, "out {case} {line} end={end}").ok();
        }
    }
    0
}
