//! C10/C19 decoder-level correspondence: real `RleBitPackedDecoder::read` with arbitrary chunking.
//! case N rle <bit width> <chunk sizes c1,c2,...> <hex bytes>
//! out  N ok v1,v2,... | panic | err
use std::io::{BufRead, Write};
use std::panic::{AssertUnwindSafe, catch_unwind};

use glaredb_ext_parquet::verif_hooks::{ReadCursor, RleBitPackedDecoder};

fn run(width: u8, chunks: &[usize], bytes: &[u8]) -> String {
    let cursor = ReadCursor::from_slice(bytes);
    let mut dec = RleBitPackedDecoder::new(cursor, width);
    let mut out: Vec<String> = Vec::new();
    for &c in chunks {
        let mut buf = vec![0u64; c];
        match dec.read(&mut buf) {
            Ok(()) => out.extend(buf.iter().map(|v| v.to_string())),
            Err(_) => return "err".to_string(),
        }
    }
    format!("ok {}", out.join(","))
}

pub fn main(_args: &[String]) -> i32 {
    std::panic::set_hook(Box::new(|_| {}));
    let stdin = std::io::stdin();
    let mut o = std::io::BufWriter::new(std::io::stdout());
    for line in stdin.lock().lines() {
        let line = match line {
            Ok(l) => l,
            Err(_) => break,
        };
        let p: Vec<&str> = line.split_whitespace().collect();
        if p.len() == 6 && p[0] == "case" && p[2] == "rle" {
            let width: u8 = p[3].parse().unwrap();
            let chunks: Vec<usize> = p[4].split(',').filter(|x| !x.is_empty()).map(|x| x.parse().unwrap()).collect();
            let bytes: Vec<u8> = if p[5] == "-" { vec![] } else { (0..p[5].len() / 2).map(|i| u8::from_str_radix(&p[5][2 * i..2 * i + 2], 16).unwrap()).collect() };
            // keep a guard region after the bytes so that an out-of-bounds read in a build without debug assertions stays inside our allocation
            let mut guarded = bytes.clone();
            guarded.extend(std::iter::repeat(0xAAu8).take(64));
            let r = catch_unwind(AssertUnwindSafe(|| run(width, &chunks, &guarded[..bytes.len()]))).unwrap_or_else(|_| "panic".to_string());
            writeln!(o, "out {} {}", p[1], r).unwrap();
        }
    }
    o.flush().unwrap();
    0
}
