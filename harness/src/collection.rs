//! C14 collection-level correspondence: drive the real `ConcurrentColumnCollection`
//! with a generated interleaving of appends, flushes and scans (single thread, explicit order)
//! and print what every scan returns.
//!
//! case N collection <segSize> <chunkCap> <op> <op> ...
//!   op = a<i>:<k>   appender i appends k rows (row ids are consecutive, starting at 0)
//!      | f<i>       appender i flushes
//!      | S<n> / P<n>   create n sequential / n coordinated parallel scan states (live)
//!      | T<n> / Q<n>   same, snapshot variants (as DataTable creates them)
//!      | s<j>       scan state j scans one batch
//! out  N <rows of scan 1>|<rows of scan 2>|...      (rows comma separated, '-' if none)
//! oracle N ok | <what is wrong>   after flushing every appender and draining every scan state:
//!   live states must have seen every appended row (sequential: each state all rows; parallel:
//!   together exactly once); snapshot states exactly the rows flushed before their creation.
use std::io::Write;

use glaredb_core::arrays::array::Array;
use glaredb_core::arrays::batch::Batch;
use glaredb_core::arrays::collection::concurrent::{
    ColumnCollectionAppendState,
    ColumnCollectionScanState,
    ConcurrentColumnCollection,
    ParallelColumnCollectionScanState,
};
use glaredb_core::arrays::datatype::DataType;
use glaredb_core::arrays::scalar::BorrowedScalarValue;
use glaredb_core::storage::projections::Projections;
use glaredb_core::util::iter::TryFromExactSizeIterator;

use crate::rng::Rng;

enum Scan {
    Seq(ColumnCollectionScanState),
    Par(ParallelColumnCollectionScanState),
}

fn rows_of(b: &Batch) -> Vec<i64> {
    let mut v = Vec::new();
    for r in 0..b.num_rows() {
        match b.arrays()[0].get_value(r) {
            Ok(BorrowedScalarValue::Int64(x)) => v.push(x),
            _ => v.push(-1),
        }
    }
    v
}

fn gen_ops(rng: &mut Rng) -> (usize, usize, Vec<String>) {
    let seg_size = *rng.pick(&[1usize, 1, 2, 3, 4]);
    let cap = *rng.pick(&[1usize, 2, 3, 4, 8]);
    let napp = 1 + rng.below(3) as usize;
    let mut ops = Vec::new();
    let nops = 4 + rng.below(28) as usize;
    let create_at = rng.below(nops as u64 / 2 + 1) as usize;
    let mut nscan = 0usize;
    for k in 0..nops {
        if k == create_at {
            let n = 1 + rng.below(3) as usize;
            let tag = *rng.pick(&["S", "P", "P", "T", "Q", "Q"]);
            ops.push(format!("{tag}{n}"));
            nscan = n;
            continue;
        }
        let c = rng.below(10);
        if c < 5 || nscan == 0 {
            let rows = *rng.pick(&[0usize, 1, 1, 2, 3, 5, 9]);
            ops.push(format!("a{}:{}", rng.below(napp as u64), rows));
        } else if c < 6 {
            ops.push(format!("f{}", rng.below(napp as u64)));
        } else {
            ops.push(format!("s{}", rng.below(nscan as u64)));
        }
    }
    (seg_size, cap.max(1), ops)
}

fn run_case(seg_size: usize, cap: usize, ops: &[String]) -> (String, String) {
    let coll = ConcurrentColumnCollection::new([DataType::int64()], seg_size, cap);
    let proj = Projections::new([0]);
    let mut apps: Vec<ColumnCollectionAppendState> = (0..3).map(|_| coll.init_append_state()).collect();
    let mut scans: Vec<Scan> = Vec::new();
    let mut seen: Vec<Vec<i64>> = Vec::new();
    let mut outs: Vec<String> = Vec::new();
    let mut next_id: i64 = 0;
    let mut snapshot = false;
    let mut parallel = false;
    let mut snapshot_rows: Vec<i64> = Vec::new();
    let mut out_batch = Batch::new([DataType::int64()], cap.max(1)).unwrap();
    let do_scan = |scans: &mut Vec<Scan>, j: usize, out_batch: &mut Batch| -> Vec<i64> {
        let n = match &mut scans[j] {
            Scan::Seq(s) => coll.scan(&proj, s, out_batch).unwrap(),
            Scan::Par(s) => coll.parallel_scan(&proj, s, out_batch).unwrap(),
        };
        if n == 0 { Vec::new() } else { rows_of(out_batch) }
    };
    for op in ops {
        let (tag, rest) = op.split_at(1);
        match tag {
            "a" => {
                let (i, k) = rest.split_once(':').unwrap();
                let (i, k): (usize, i64) = (i.parse().unwrap(), k.parse().unwrap());
                let arr = Array::try_from_iter((next_id..next_id + k).collect::<Vec<i64>>()).unwrap();
                next_id += k;
                let batch = Batch::from_arrays([arr]).unwrap();
                coll.append_batch(&mut apps[i], &batch).unwrap();
            }
            "f" => {
                let i: usize = rest.parse().unwrap();
                coll.flush(&mut apps[i]).unwrap();
            }
            "S" | "P" | "T" | "Q" => {
                let n: usize = rest.parse().unwrap();
                snapshot = tag == "T" || tag == "Q";
                parallel = tag == "P" || tag == "Q";
                {
                    // rows visible at creation time, read through a throw-away live scan state
                    let mut tmp = coll.init_scan_state();
                    loop {
                        let k = coll.scan(&proj, &mut tmp, &mut out_batch).unwrap();
                        if k == 0 {
                            break;
                        }
                        snapshot_rows.extend(rows_of(&out_batch));
                    }
                    snapshot_rows.sort();
                }
                match tag {
                    "S" => (0..n).for_each(|_| scans.push(Scan::Seq(coll.init_scan_state()))),
                    "T" => (0..n).for_each(|_| scans.push(Scan::Seq(coll.init_snapshot_scan_state()))),
                    "P" => coll.init_parallel_scan_states(n).for_each(|s| scans.push(Scan::Par(s))),
                    _ => coll.init_parallel_snapshot_scan_states(n).for_each(|s| scans.push(Scan::Par(s))),
                }
                seen = vec![Vec::new(); n];
            }
            "s" => {
                let j: usize = rest.parse().unwrap();
                let rows = do_scan(&mut scans, j, &mut out_batch);
                seen[j].extend(rows.iter().copied());
                outs.push(if rows.is_empty() { "-".to_string() } else { rows.iter().map(|x| x.to_string()).collect::<Vec<_>>().join(",") });
            }
            _ => {}
        }
    }
    // Oracle: flush everything, drain every scan state.
    for a in apps.iter_mut() {
        coll.flush(a).unwrap();
    }
    let total_rows = next_id as usize;
    let mut oracle = "ok".to_string();
    if coll.flushed_rows() != total_rows {
        oracle = format!("flushed_rows {} but {} rows were appended", coll.flushed_rows(), total_rows);
    }
    for j in 0..scans.len() {
        let mut guard = 0;
        loop {
            let rows = do_scan(&mut scans, j, &mut out_batch);
            guard += 1;
            if rows.is_empty() || guard > 100000 {
                break;
            }
            seen[j].extend(rows);
        }
    }
    // expected row sets: ids are appended in increasing order, but the flush order decides what is "before creation"
    if !scans.is_empty() {
        let want: Vec<i64> = if snapshot { snapshot_rows.clone() } else { (0..total_rows as i64).collect() };
        let same = |mut got: Vec<i64>| -> bool {
            got.sort();
            got == want
        };
        if parallel {
            let all: Vec<i64> = seen.iter().flatten().copied().collect();
            if !same(all.clone()) {
                oracle = format!("parallel scan states together saw {} rows, expected exactly the {} {} rows once each", all.len(), want.len(), if snapshot { "snapshot" } else { "appended" });
            }
        } else {
            for (j, s) in seen.iter().enumerate() {
                if !same(s.clone()) {
                    oracle = format!("scan state {j} saw {} rows, expected exactly the {} {} rows once each", s.len(), want.len(), if snapshot { "snapshot" } else { "appended" });
                }
            }
        }
    }
    (if outs.is_empty() { "none".to_string() } else { outs.join("|") }, oracle)
}

pub fn main(args: &[String]) -> i32 {
    let seed: u64 = args.first().and_then(|s| s.parse().ok()).unwrap_or(1);
    let n: usize = args.get(1).and_then(|s| s.parse().ok()).unwrap_or(100);
    let mut rng = Rng::new(seed.wrapping_mul(0x1400_0000_0000_0001));
    let stdout = std::io::stdout();
    let mut o = stdout.lock();
    for case in 0..n {
        let (seg, cap, ops) = gen_ops(&mut rng);
        writeln!(o, "case {case} collection {seg} {cap} {}", ops.join(" ")).ok();
        let (out, oracle) = run_case(seg, cap, &ops);
        writeln!(o, "out {case} {out}").ok();
        writeln!(o, "oracle {case} {oracle}").ok();
    }
    0
}
