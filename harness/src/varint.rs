//! C19 varint correspondence: the real thrift compact-protocol reader (`TCompactSliceInputProtocol::read_i64`,
//! i.e. `read_vlq` + zig-zag) on random byte strings biased towards long continuation runs.
//!   case N varint <b1,b2,...|->      out N ok <zigzag-decoded value> <consumed> | err
use std::io::Write;

use glaredb_ext_parquet::thrift::verif_read_zigzag_i64;

use crate::rng::Rng;

pub fn main(args: &[String]) -> i32 {
    let seed: u64 = args.first().and_then(|s| s.parse().ok()).unwrap_or(1);
    let n: usize = args.get(1).and_then(|s| s.parse().ok()).unwrap_or(500);
    let mut rng = Rng::new(seed.wrapping_mul(0x1900_0000_0000_0007));
    let stdout = std::io::stdout();
    let mut o = stdout.lock();
    for case in 0..n {
        let len = *rng.pick(&[0usize, 1, 2, 5, 9, 10, 11, 12, 20]);
        let bytes: Vec<u8> = (0..len)
            .map(|i| match rng.below(4) {
                0 => rng.below(256) as u8,
                1 => 0x80 | rng.below(128) as u8, // continuation
                2 => 0xFF,
                _ => if i + 1 == len { rng.below(128) as u8 } else { 0x80 | rng.below(128) as u8 },
            })
            .collect();
        let show = if bytes.is_empty() { "-".to_string() } else { bytes.iter().map(|b| b.to_string()).collect::<Vec<_>>().join(",") };
        writeln!(o, "case {case} varint {show}").ok();
        let res = std::panic::catch_unwind(|| verif_read_zigzag_i64(&bytes));
        match res {
            Ok(Some((v, consumed))) => {
                writeln!(o, "out {case} ok {v} {consumed}").ok();
            }
            Ok(None) => {
                writeln!(o, "out {case} err").ok();
            }
            Err(_) => {
                writeln!(o, "out {case} panic").ok();
            }
        }
    }
    0
}
