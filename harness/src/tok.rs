//! C15 tokenizer correspondence: reads `case N tok <hex utf8>` lines on stdin, runs the real
//! `Tokenizer` and prints `out N ok depth=<d> <tokens>` | `out N err <code point>` | `out N panic`.
use std::io::{BufRead, Write};
use std::panic::{AssertUnwindSafe, catch_unwind};

use glaredb_parser::tokens::{Comment, Token, TokenWithLocation, Tokenizer};

fn hex(s: &str) -> String {
    if s.is_empty() { "-".to_string() } else { s.bytes().map(|b| format!("{b:02x}")).collect() }
}

fn show(t: &Token) -> String {
    let y = |s: &str| format!("Y:{s}");
    match t {
        Token::Word(w) => format!("{}:{}", if w.quote.is_some() { "Q" } else { "W" }, hex(&w.value)),
        Token::SingleQuotedString(s) => format!("S:{}", hex(s)),
        Token::Number(s) => format!("N:{}", hex(s)),
        Token::Whitespace => "_".to_string(),
        Token::Comment(Comment::SingleLine(s)) | Token::Comment(Comment::Multiline(s)) => format!("C:{}", hex(s)),
        Token::Eq => y("="), Token::DoubleEq => y("=="), Token::Neq => y("<>"), Token::Lt => y("<"), Token::Gt => y(">"),
        Token::LtEq => y("<="), Token::GtEq => y(">="), Token::Plus => y("+"), Token::Minus => y("-"), Token::Mul => y("*"),
        Token::Div => y("/"), Token::IntDiv => y("//"), Token::Mod => y("%"), Token::Exponent => y("**"),
        Token::BitShiftLeft => y("<<"), Token::BitShiftRight => y(">>"), Token::Pipe => y("|"), Token::Ampersand => y("&"),
        Token::Hash => y("#"), Token::Concat => y("||"), Token::Comma => y(","), Token::LeftParen => y("("),
        Token::RightParen => y(")"), Token::Period => y("."), Token::Colon => y(":"), Token::DoubleColon => y("::"),
        Token::SemiColon => y(";"), Token::LeftBrace => y("{"), Token::RightBrace => y("}"), Token::LeftBracket => y("["),
        Token::RightBracket => y("]"), Token::RightArrow => y("=>"), Token::Exclamation => y("!"), Token::Caret => y("^"),
        Token::Tilde => y("~"), Token::CaretAt => y("^@"),
    }
}

fn unhex(h: &str) -> Option<String> {
    if h == "-" {
        return Some(String::new());
    }
    let b: Option<Vec<u8>> = (0..h.len()).step_by(2).map(|i| u8::from_str_radix(h.get(i..i + 2)?, 16).ok()).collect();
    String::from_utf8(b?).ok()
}

pub fn main(_args: &[String]) -> i32 {
    std::panic::set_hook(Box::new(|_| {}));
    let stdin = std::io::stdin();
    let stdout = std::io::stdout();
    let mut o = stdout.lock();
    for line in stdin.lock().lines() {
        let Ok(line) = line else { break };
        let parts: Vec<&str> = line.split(' ').collect();
        if parts.len() < 4 || parts[0] != "case" {
            continue;
        }
        let n = parts[1];
        let Some(text) = unhex(parts[3]) else {
            writeln!(o, "out {n} bad-case").ok();
            continue;
        };
        let res = catch_unwind(AssertUnwindSafe(|| {
            let mut toks: Vec<TokenWithLocation> = Vec::new();
            let r = Tokenizer::new(&text).tokenize(&mut toks);
            (r, toks)
        }));
        match res {
            Err(_) => writeln!(o, "out {n} panic").ok(),
            Ok((Err(e), _)) => {
                // "Unhandled character: c"
                let msg = e.to_string();
                let c = msg.lines().next().unwrap_or("").chars().last().map(|c| c as u32).unwrap_or(0);
                writeln!(o, "out {n} err {c}").ok()
            }
            Ok((Ok(()), toks)) => {
                let mut cur = 0usize;
                let mut mx = 0usize;
                for t in &toks {
                    match t.token {
                        Token::LeftParen => {
                            cur += 1;
                            mx = mx.max(cur);
                        }
                        Token::RightParen => cur = cur.saturating_sub(1),
                        _ => {}
                    }
                }
                let s: Vec<String> = toks.iter().map(|t| show(&t.token)).collect();
                writeln!(o, "out {n} ok depth={mx} {}", s.join(" ")).ok()
            }
        };
    }
    0
}
