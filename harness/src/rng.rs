//! splitmix64: every random choice in the harness derives from one u64 state.
#[derive(Clone)]
pub struct Rng(pub u64);

impl Rng {
    pub fn new(seed: u64) -> Self {
        Rng(seed ^ 0x9E37_79B9_7F4A_7C15)
    }
    pub fn next(&mut self) -> u64 {
        self.0 = self.0.wrapping_add(0x9E37_79B9_7F4A_7C15);
        let mut z = self.0;
        z = (z ^ (z >> 30)).wrapping_mul(0xBF58_476D_1CE4_E5B9);
        z = (z ^ (z >> 27)).wrapping_mul(0x94D0_49BB_1331_11EB);
        z ^ (z >> 31)
    }
    pub fn below(&mut self, n: u64) -> u64 {
        if n == 0 { 0 } else { self.next() % n }
    }
    pub fn chance(&mut self, num: u64, den: u64) -> bool {
        self.below(den) < num
    }
    pub fn pick<'a, T>(&mut self, xs: &'a [T]) -> &'a T {
        &xs[self.below(xs.len() as u64) as usize]
    }
}
