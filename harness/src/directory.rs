//! C07 directory correspondence: the real aggregate hash table `Directory` (needs_resize / resize /
//! linear probing, through the cfg-guarded hook) on random batch histories.
//!   case N directory <n1:g1,n2:g2,...|->      out N <cap1:occ1,cap2:occ2,...|->
use std::io::Write;

use glaredb_core::execution::operators::hash_aggregate::verif_directory_batches;

use crate::rng::Rng;

pub fn main(args: &[String]) -> i32 {
    let seed: u64 = args.first().and_then(|s| s.parse().ok()).unwrap_or(1);
    let n: usize = args.get(1).and_then(|s| s.parse().ok()).unwrap_or(300);
    let mut rng = Rng::new(seed.wrapping_mul(0x0700_0000_0000_0031));
    let stdout = std::io::stdout();
    let mut o = stdout.lock();
    for case in 0..n {
        let nb = *rng.pick(&[0usize, 1, 2, 5, 12, 30]);
        let batches: Vec<(usize, usize)> = (0..nb)
            .map(|_| {
                let rows = *rng.pick(&[0usize, 1, 7, 100, 357, 358, 359, 512, 1024, 2048, 2049, 4096, 8192]) + rng.below(3) as usize;
                let groups = match rng.below(4) {
                    0 => 0,
                    1 => rows,
                    2 => rows + 5, // more "new groups" than rows: clamped
                    _ => rng.below(rows as u64 + 1) as usize,
                };
                (rows, groups)
            })
            .collect();
        let show_in = if batches.is_empty() { "-".to_string() } else { batches.iter().map(|(a, b)| format!("{a}:{b}")).collect::<Vec<_>>().join(",") };
        writeln!(o, "case {case} directory {show_in}").ok();
        match verif_directory_batches(&batches) {
            Ok(v) => {
                let s = if v.is_empty() { "-".to_string() } else { v.iter().map(|(a, b)| format!("{a}:{b}")).collect::<Vec<_>>().join(",") };
                writeln!(o, "out {case} {s}").ok();
            }
            Err(e) => {
                writeln!(o, "out {case} error {e}").ok();
            }
        }
    }
    0
}
