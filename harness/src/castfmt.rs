//! C13 unit-level correspondence: real parsers/formatters of `functions::cast::{parse,format}`.
//! Reads `case N cast <sub> args...` lines on stdin, prints `out N ...`.
use std::io::{BufRead, Write};
use std::panic::{AssertUnwindSafe, catch_unwind};

use glaredb_core::functions::cast::format::{
    BoolFormatter, Date32Formatter, Decimal64Formatter, Decimal128Formatter, Formatter, Int128Formatter,
};
use glaredb_core::functions::cast::parse::{
    BoolParser, Date32Parser, Decimal64Parser, Decimal128Parser, Int8Parser, Int16Parser, Int32Parser,
    Int64Parser, Parser, UInt8Parser, UInt16Parser, UInt32Parser, UInt64Parser,
};

fn unhex(s: &str) -> Option<String> {
    if s == "-" {
        return Some(String::new());
    }
    let b: Option<Vec<u8>> = (0..s.len() / 2).map(|i| u8::from_str_radix(&s[2 * i..2 * i + 2], 16).ok()).collect();
    String::from_utf8(b?).ok()
}

fn hex(s: &str) -> String {
    if s.is_empty() { "-".to_string() } else { s.bytes().map(|b| format!("{b:02x}")).collect() }
}

fn opt<T: std::fmt::Display>(v: Option<T>) -> String {
    match v {
        Some(v) => format!("ok {v}"),
        None => "fail".to_string(),
    }
}

fn run(args: &[&str]) -> String {
    match args {
        ["fmtdate", d] => {
            let d: i32 = d.parse().unwrap();
            let mut s = String::new();
            match Date32Formatter.write(&d, &mut s) {
                Ok(()) => hex(&s),
                Err(_) => "fail".to_string(),
            }
        }
        ["parsedate", h] => opt(unhex(h).and_then(|s| Date32Parser.parse(&s))),
        ["fmtint", v] => {
            let v: i128 = v.parse().unwrap();
            let mut s = String::new();
            Int128Formatter::default().write(&v, &mut s).unwrap();
            hex(&s)
        }
        ["fmtbool", v] => {
            let mut s = String::new();
            BoolFormatter::default().write(&(*v == "1"), &mut s).unwrap();
            hex(&s)
        }
        ["parsebool", h] => match unhex(h).and_then(|s| BoolParser.parse(&s)) {
            Some(true) => "ok 1".to_string(),
            Some(false) => "ok 0".to_string(),
            None => "fail".to_string(),
        },
        ["parseint", t, h] => {
            let s = match unhex(h) {
                Some(s) => s,
                None => return "fail".to_string(),
            };
            match *t {
                "Int8" => opt(Int8Parser::new().parse(&s)),
                "Int16" => opt(Int16Parser::new().parse(&s)),
                "Int32" => opt(Int32Parser::new().parse(&s)),
                "Int64" => opt(Int64Parser::new().parse(&s)),
                "UInt8" => opt(UInt8Parser::new().parse(&s)),
                "UInt16" => opt(UInt16Parser::new().parse(&s)),
                "UInt32" => opt(UInt32Parser::new().parse(&s)),
                "UInt64" => opt(UInt64Parser::new().parse(&s)),
                _ => "bad-case".to_string(),
            }
        }
        ["fmtdec", bits, p, s, v] => {
            let p: u8 = p.parse().unwrap();
            let sc: i8 = s.parse().unwrap();
            let mut out = String::new();
            if *bits == "64" {
                Decimal64Formatter::new(p, sc).write(&v.parse::<i64>().unwrap(), &mut out).unwrap();
            } else {
                Decimal128Formatter::new(p, sc).write(&v.parse::<i128>().unwrap(), &mut out).unwrap();
            }
            hex(&out)
        }
        ["parsedec", bits, p, s, h] => {
            let p: u8 = p.parse().unwrap();
            let sc: i8 = s.parse().unwrap();
            let text = match unhex(h) {
                Some(s) => s,
                None => return "fail".to_string(),
            };
            let r = catch_unwind(AssertUnwindSafe(|| {
                if *bits == "64" {
                    opt(Decimal64Parser::new(p, sc).parse(&text))
                } else {
                    opt(Decimal128Parser::new(p, sc).parse(&text))
                }
            }));
            r.unwrap_or_else(|_| "panic".to_string())
        }
        _ => "bad-case".to_string(),
    }
}

pub fn main(_args: &[String]) -> i32 {
    std::panic::set_hook(Box::new(|_| {}));
    let stdin = std::io::stdin();
    let mut out = std::io::BufWriter::new(std::io::stdout());
    for line in stdin.lock().lines() {
        let line = match line {
            Ok(l) => l,
            Err(_) => break,
        };
        let parts: Vec<&str> = line.split_whitespace().collect();
        if parts.len() >= 4 && parts[0] == "case" && parts[2] == "cast" {
            writeln!(out, "out {} {}", parts[1], run(&parts[3..])).unwrap();
        }
    }
    out.flush().unwrap();
    0
}
