//! C08 key-encoding correspondence: drive the real `SortLayout::write_key_arrays`
//! (through the cfg-guarded hook) and print `case`/`out` lines.
//!
//! case N sortkey <T:desc:nf:V> ...     V = NULL | hex bits (BE, width of T) | hex bytes ('-' if empty) | m.d.n for Interval
//! out  N <hex of the compare_width key bytes>
use std::io::Write;

use glaredb_core::arrays::array::Array;
use glaredb_core::arrays::datatype::DataType;
use glaredb_core::arrays::scalar::ScalarValue;
use glaredb_core::arrays::scalar::interval::Interval;
use glaredb_core::arrays::sort::sort_layout::SortColumn;
use glaredb_core::buffer::buffer_manager::DefaultBufferManager;
use glaredb_core::verif_hooks;
use half::f16;

use crate::rng::Rng;

#[derive(Clone, Copy, Debug, PartialEq)]
pub enum KT {
    Bool, I8, I16, I32, I64, I128, U8, U16, U32, U64, U128, F16, F32, F64, Interval, Utf8, Binary,
}

impl KT {
    pub fn name(self) -> &'static str {
        match self {
            KT::Bool => "Boolean", KT::I8 => "Int8", KT::I16 => "Int16", KT::I32 => "Int32", KT::I64 => "Int64",
            KT::I128 => "Int128", KT::U8 => "UInt8", KT::U16 => "UInt16", KT::U32 => "UInt32", KT::U64 => "UInt64",
            KT::U128 => "UInt128", KT::F16 => "Float16", KT::F32 => "Float32", KT::F64 => "Float64",
            KT::Interval => "Interval", KT::Utf8 => "Utf8", KT::Binary => "Binary",
        }
    }
    pub fn bits(self) -> u32 {
        match self {
            KT::Bool => 8, KT::I8 | KT::U8 => 8, KT::I16 | KT::U16 | KT::F16 => 16, KT::I32 | KT::U32 | KT::F32 => 32,
            KT::I64 | KT::U64 | KT::F64 => 64, KT::I128 | KT::U128 => 128, _ => 0,
        }
    }
    pub fn datatype(self) -> DataType {
        match self {
            KT::Bool => DataType::boolean(), KT::I8 => DataType::int8(), KT::I16 => DataType::int16(),
            KT::I32 => DataType::int32(), KT::I64 => DataType::int64(), KT::I128 => DataType::int128(),
            KT::U8 => DataType::uint8(), KT::U16 => DataType::uint16(), KT::U32 => DataType::uint32(),
            KT::U64 => DataType::uint64(), KT::U128 => DataType::uint128(), KT::F16 => DataType::float16(),
            KT::F32 => DataType::float32(), KT::F64 => DataType::float64(), KT::Interval => DataType::interval(),
            KT::Utf8 => DataType::utf8(), KT::Binary => DataType::binary(),
        }
    }
}

#[derive(Clone, Debug)]
pub enum KVal {
    Null,
    Bits(u128),
    Iv(i32, i32, i64),
    Bytes(Vec<u8>),
}

fn scalar(t: KT, v: &KVal) -> ScalarValue {
    match (t, v) {
        (_, KVal::Null) => ScalarValue::Null,
        (KT::Bool, KVal::Bits(b)) => ScalarValue::Boolean(*b != 0),
        (KT::I8, KVal::Bits(b)) => ScalarValue::Int8(*b as u8 as i8),
        (KT::I16, KVal::Bits(b)) => ScalarValue::Int16(*b as u16 as i16),
        (KT::I32, KVal::Bits(b)) => ScalarValue::Int32(*b as u32 as i32),
        (KT::I64, KVal::Bits(b)) => ScalarValue::Int64(*b as u64 as i64),
        (KT::I128, KVal::Bits(b)) => ScalarValue::Int128(*b as i128),
        (KT::U8, KVal::Bits(b)) => ScalarValue::UInt8(*b as u8),
        (KT::U16, KVal::Bits(b)) => ScalarValue::UInt16(*b as u16),
        (KT::U32, KVal::Bits(b)) => ScalarValue::UInt32(*b as u32),
        (KT::U64, KVal::Bits(b)) => ScalarValue::UInt64(*b as u64),
        (KT::U128, KVal::Bits(b)) => ScalarValue::UInt128(*b),
        (KT::F16, KVal::Bits(b)) => ScalarValue::Float16(f16::from_bits(*b as u16)),
        (KT::F32, KVal::Bits(b)) => ScalarValue::Float32(f32::from_bits(*b as u32)),
        (KT::F64, KVal::Bits(b)) => ScalarValue::Float64(f64::from_bits(*b as u64)),
        (KT::Interval, KVal::Iv(m, d, n)) => ScalarValue::Interval(Interval { months: *m, days: *d, nanos: *n }),
        (KT::Utf8, KVal::Bytes(b)) => ScalarValue::Utf8(String::from_utf8(b.clone()).unwrap().into()),
        (KT::Binary, KVal::Bytes(b)) => ScalarValue::Binary(b.clone().into()),
        other => panic!("bad scalar {other:?}"),
    }
}

fn hex(b: &[u8]) -> String {
    b.iter().map(|x| format!("{x:02x}")).collect()
}

fn fmt_val(t: KT, v: &KVal) -> String {
    match v {
        KVal::Null => "NULL".to_string(),
        KVal::Bits(b) => format!("{:0w$x}", b, w = (t.bits() / 4) as usize),
        KVal::Iv(m, d, n) => format!("{:08x}.{:08x}.{:016x}", *m as u32, *d as u32, *n as u64),
        KVal::Bytes(b) => if b.is_empty() { "-".to_string() } else { hex(b) },
    }
}

#[derive(Clone, Debug)]
pub struct KCol {
    pub t: KT,
    pub desc: bool,
    pub nf: bool,
}

/// Encode rows (each row has one value per column) with the real code.
pub fn encode_rows(cols: &[KCol], rows: &[Vec<KVal>]) -> Vec<Vec<u8>> {
    let n = rows.len();
    let mut arrays = Vec::new();
    for (ci, c) in cols.iter().enumerate() {
        let mut arr = Array::new(&DefaultBufferManager, c.t.datatype(), n).unwrap();
        for (ri, r) in rows.iter().enumerate() {
            arr.set_value(ri, &scalar(c.t, &r[ci])).unwrap();
        }
        arrays.push(arr);
    }
    let scols: Vec<SortColumn> = cols
        .iter()
        .map(|c| SortColumn { desc: c.desc, nulls_first: c.nf, datatype: c.t.datatype() })
        .collect();
    let (cw, _rw, out) = verif_hooks::sort_key_rows(scols, &arrays, n).unwrap();
    out.into_iter().map(|r| r[..cw].to_vec()).collect()
}

struct Emit {
    n: u64,
    out: std::io::BufWriter<std::io::Stdout>,
}

impl Emit {
    fn emit(&mut self, cols: &[KCol], rows: &[Vec<KVal>]) {
        let enc = encode_rows(cols, rows);
        for (r, e) in rows.iter().zip(enc) {
            let mut line = format!("case {} sortkey", self.n);
            for (c, v) in cols.iter().zip(r) {
                line.push_str(&format!(" {}:{}:{}:{}", c.t.name(), c.desc as u8, c.nf as u8, fmt_val(c.t, v)));
            }
            writeln!(self.out, "{line}").unwrap();
            writeln!(self.out, "out {} {}", self.n, hex(&e)).unwrap();
            self.n += 1;
        }
    }
}

fn mask(bits: u32) -> u128 {
    if bits >= 128 { u128::MAX } else { (1u128 << bits) - 1 }
}

/// Boundary-biased value of a fixed-width type.
fn wide_val(rng: &mut Rng, t: KT) -> KVal {
    let w = t.bits();
    let m = mask(w);
    let r = (rng.next() as u128) | ((rng.next() as u128) << 64);
    let k = rng.below(12);
    let base: u128 = match k {
        0 => 0,
        1 => m,
        2 => 1u128 << (w - 1),
        3 => (1u128 << (w - 1)) - 1,
        4 => 1u128 << rng.below(w as u64),
        5 => (1u128 << rng.below(w as u64)).wrapping_sub(1),
        6 => m ^ (1u128 << rng.below(w as u64)),
        // neighbours that differ only in low bits of a random high pattern
        7 => (r & !0xFFFF_FFFFu128) | (rng.below(4) as u128),
        8 => (r & !0xFFFF_FFFFu128) | (0xFFFF_FFFFu128 - rng.below(4) as u128),
        9 => {
            // float specials: exponent all ones (inf / nan payloads), +-0, subnormals
            match t {
                KT::F32 => [0x7f80_0000u128, 0xff80_0000, 0x7fc0_0000, 0xffc0_0001, 0x8000_0000, 1, 0x8000_0001][rng.below(7) as usize],
                KT::F64 => [0x7ff0_0000_0000_0000u128, 0xfff0_0000_0000_0000, 0x7ff8_0000_0000_0000, 0xfff8_0000_0000_0001, 0x8000_0000_0000_0000, 1, 0x8000_0000_0000_0001, 0x3FF0_0000_000F_FFFF, 0x3FF0_0000_0010_0000][rng.below(9) as usize],
                _ => r,
            }
        }
        _ => r,
    };
    KVal::Bits(base & m)
}

const UTF8_ALPHA: [&[u8]; 6] = [&[0x00], &[0x01], b"a", &[0x7f], &[0xc3, 0xa9], b"b"];

fn str_val(rng: &mut Rng, t: KT) -> KVal {
    let len = match rng.below(6) {
        0 => 0,
        1 => rng.below(4),
        2 => 11 + rng.below(4),
        _ => rng.below(31),
    };
    let mut b = Vec::new();
    // Frequently share a long prefix so that the 12-byte prefix ties.
    if rng.chance(1, 2) {
        b.extend_from_slice(b"aaaaaaaaaaaa");
    }
    for _ in 0..len {
        if t == KT::Binary && rng.chance(1, 5) {
            b.push(0xff);
        } else {
            b.extend_from_slice(UTF8_ALPHA[rng.below(6) as usize]);
        }
    }
    KVal::Bytes(b)
}

fn any_val(rng: &mut Rng, t: KT) -> KVal {
    if rng.chance(1, 8) {
        return KVal::Null;
    }
    match t {
        KT::Bool => KVal::Bits(rng.below(2) as u128),
        KT::Utf8 | KT::Binary => str_val(rng, t),
        KT::Interval => {
            let a = wide_val(rng, KT::I32);
            let b = wide_val(rng, KT::I32);
            let c = wide_val(rng, KT::I64);
            match (a, b, c) {
                (KVal::Bits(a), KVal::Bits(b), KVal::Bits(c)) => KVal::Iv(a as u32 as i32, b as u32 as i32, c as u64 as i64),
                _ => unreachable!(),
            }
        }
        _ => wide_val(rng, t),
    }
}

pub const ALL: [KT; 17] = [
    KT::Bool, KT::I8, KT::I16, KT::I32, KT::I64, KT::I128, KT::U8, KT::U16, KT::U32, KT::U64, KT::U128,
    KT::F16, KT::F32, KT::F64, KT::Interval, KT::Utf8, KT::Binary,
];

pub fn main(args: &[String]) -> i32 {
    let seed: u64 = args.first().and_then(|s| s.parse().ok()).unwrap_or(1);
    let tier = args.get(1).map(|s| s.as_str()).unwrap_or("quick");
    let thorough = tier == "thorough";
    let mut rng = Rng::new(seed);
    let mut em = Emit { n: 0, out: std::io::BufWriter::new(std::io::stdout()) };

    // 1. Exhaustive small domains, every (desc, nulls_first) combination.
    for &(t, count) in &[(KT::Bool, 2u128), (KT::I8, 256), (KT::U8, 256), (KT::I16, 65536), (KT::U16, 65536), (KT::F16, 65536)] {
        for flags in 0..4u8 {
            // quick: 16-bit domains exhaustively for two flag combinations chosen by the seed, sampled for the rest.
            let full = thorough || count <= 256 || flags == (seed % 4) as u8 || flags == ((seed + 1 + seed / 4 % 3) % 4) as u8;
            let col = KCol { t, desc: flags & 1 != 0, nf: flags & 2 != 0 };
            let mut rows: Vec<Vec<KVal>> = vec![vec![KVal::Null]];
            if full {
                for b in 0..count {
                    rows.push(vec![KVal::Bits(b)]);
                }
            } else {
                for _ in 0..2048 {
                    rows.push(vec![KVal::Bits(rng.below(count as u64) as u128)]);
                }
            }
            em.emit(&[col], &rows);
        }
    }
    // 2. Wide fixed-width types, strings, intervals: boundary-biased.
    let per = if thorough { 20000 } else { 1500 };
    for &t in &ALL {
        if t.bits() != 0 && t.bits() <= 16 {
            continue;
        }
        for flags in 0..4u8 {
            let col = KCol { t, desc: flags & 1 != 0, nf: flags & 2 != 0 };
            let rows: Vec<Vec<KVal>> = (0..per).map(|_| vec![any_val(&mut rng, t)]).collect();
            em.emit(&[col], &rows);
        }
    }
    // 3. Multi-column keys.
    let multi = if thorough { 20000 } else { 1500 };
    for _ in 0..multi {
        let k = 2 + rng.below(4) as usize;
        let cols: Vec<KCol> = (0..k)
            .map(|_| KCol { t: *rng.pick(&ALL), desc: rng.chance(1, 2), nf: rng.chance(1, 2) })
            .collect();
        let nrows = 1 + rng.below(3) as usize;
        let rows: Vec<Vec<KVal>> = (0..nrows).map(|_| cols.iter().map(|c| any_val(&mut rng, c.t)).collect()).collect();
        em.emit(&cols, &rows);
    }
    em.out.flush().unwrap();
    0
}
