//! C18 translator input: dumps the implicit cast score of every ordered pair of DataTypeIds as the
//! running code computes it (`functions::implicit::implicit_cast_score`), plus NO_CAST_SCORE.
//!   score <have> <want> <n|none>
//!   nocast <n>
use glaredb_core::arrays::datatype::DataTypeId as T;
use glaredb_core::functions::implicit::{NO_CAST_SCORE, implicit_cast_score};

pub const IDS: &[(T, &str)] = &[
    (T::Null, "Null"), (T::Boolean, "Boolean"), (T::Int8, "Int8"), (T::Int16, "Int16"), (T::Int32, "Int32"), (T::Int64, "Int64"),
    (T::Int128, "Int128"), (T::UInt8, "UInt8"), (T::UInt16, "UInt16"), (T::UInt32, "UInt32"), (T::UInt64, "UInt64"), (T::UInt128, "UInt128"),
    (T::Float16, "Float16"), (T::Float32, "Float32"), (T::Float64, "Float64"), (T::Decimal64, "Decimal64"), (T::Decimal128, "Decimal128"),
    (T::Timestamp, "Timestamp"), (T::Date32, "Date32"), (T::Date64, "Date64"), (T::Interval, "Interval"), (T::Utf8, "Utf8"), (T::Binary, "Binary"),
];

pub fn main(_args: &[String]) -> i32 {
    println!("nocast {NO_CAST_SCORE}");
    for (a, an) in IDS {
        for (b, bn) in IDS {
            match implicit_cast_score(*a, *b) {
                Some(s) => println!("score {an} {bn} {s}"),
                None => println!("score {an} {bn} none"),
            }
        }
    }
    0
}
