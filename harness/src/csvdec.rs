//! C17 decoder-level correspondence: the real `CsvDecoder::decode` driven with arbitrary chunking,
//! `clear_completed` between chunks, and an empty input at the end (as `CsvReader::poll_pull` does).
//! case N csv <delim byte> <quote byte> <chunk sizes c1,c2,..> <hex bytes>
//! out  N <record>|<record>...   record = field,field  field = hex or '-'
use std::io::{BufRead, Write};

use glaredb_ext_csv::dialect::DialectOptions;
use glaredb_ext_csv::verif_hooks::{ByteRecords, CsvDecoder};

fn hexf(b: &[u8]) -> String {
    if b.is_empty() { "-".to_string() } else { b.iter().map(|x| format!("{x:02x}")).collect() }
}

fn collect(records: &ByteRecords, out: &mut Vec<String>) {
    for r in records.iter_records() {
        let fields: Vec<String> = r.iter_fields().map(hexf).collect();
        out.push(fields.join(","));
    }
}

fn run(delim: u8, quote: u8, chunks: &[usize], bytes: &[u8]) -> String {
    let mut dec = CsvDecoder::new(DialectOptions { delimiter: delim, quote });
    let mut records = ByteRecords::with_buffer_capacity(16);
    let mut out = Vec::new();
    let mut pos = 0;
    let mut ci = 0;
    while pos < bytes.len() {
        let n = if chunks.is_empty() { bytes.len() } else { chunks[ci % chunks.len()].max(1) };
        ci += 1;
        let end = (pos + n).min(bytes.len());
        let _ = dec.decode(&bytes[pos..end], &mut records);
        pos = end;
        collect(&records, &mut out);
        records.clear_completed();
    }
    let _ = dec.decode(&[], &mut records);
    collect(&records, &mut out);
    if out.is_empty() { "none".to_string() } else { out.join("|") }
}

pub fn main(_args: &[String]) -> i32 {
    let stdin = std::io::stdin();
    let mut o = std::io::BufWriter::new(std::io::stdout());
    for line in stdin.lock().lines() {
        let line = match line {
            Ok(l) => l,
            Err(_) => break,
        };
        let p: Vec<&str> = line.split_whitespace().collect();
        if p.len() == 7 && p[0] == "case" && p[2] == "csv" {
            let delim: u8 = p[3].parse().unwrap();
            let quote: u8 = p[4].parse().unwrap();
            let chunks: Vec<usize> = if p[5] == "-" { vec![] } else { p[5].split(',').map(|x| x.parse().unwrap()).collect() };
            let bytes: Vec<u8> = if p[6] == "-" { vec![] } else { (0..p[6].len() / 2).map(|i| u8::from_str_radix(&p[6][2 * i..2 * i + 2], 16).unwrap()).collect() };
            let r = std::panic::catch_unwind(|| run(delim, quote, &chunks, &bytes)).unwrap_or_else(|_| "panic".to_string());
            writeln!(o, "out {} {}", p[1], r).unwrap();
        }
    }
    o.flush().unwrap();
    0
}
