//! C16 layout correspondence: the real `RowLayout::try_new` (through the cfg-guarded hook) on
//! random column lists. The column widths are read off the real offsets (successive differences),
//! the model recomputes validity width, offsets and row width from the widths alone.
//!   case N layout <w1,w2,...|->        out N v=<validity> w=<row width> o=<o1,o2,...|->
//!   oracle N ok | <which bound is violated>
use std::io::Write;

use glaredb_core::arrays::datatype::{DataType, DecimalTypeMeta};
use glaredb_core::verif_hooks;

use crate::rng::Rng;

fn types() -> Vec<(DataType, usize)> {
    vec![
        (DataType::boolean(), 1), (DataType::int8(), 1), (DataType::int16(), 2), (DataType::int32(), 4), (DataType::int64(), 8), (DataType::int128(), 16),
        (DataType::uint8(), 1), (DataType::uint16(), 2), (DataType::uint32(), 4), (DataType::uint64(), 8), (DataType::uint128(), 16),
        (DataType::float16(), 2), (DataType::float32(), 4), (DataType::float64(), 8), (DataType::decimal64(DecimalTypeMeta::new(10, 2)), 8),
        (DataType::decimal128(DecimalTypeMeta::new(30, 2)), 16), (DataType::date32(), 4), (DataType::interval(), 16), (DataType::utf8(), 16), (DataType::binary(), 16),
    ]
}

pub fn main(args: &[String]) -> i32 {
    let seed: u64 = args.first().and_then(|s| s.parse().ok()).unwrap_or(1);
    let n: usize = args.get(1).and_then(|s| s.parse().ok()).unwrap_or(200);
    let mut rng = Rng::new(seed.wrapping_mul(0x1600_0000_0000_0001));
    let ts = types();
    let stdout = std::io::stdout();
    let mut o = stdout.lock();
    for case in 0..n {
        let ncols = *rng.pick(&[0usize, 1, 2, 3, 7, 8, 9, 15, 16, 17, 33, 64, 65]);
        let cols: Vec<&(DataType, usize)> = (0..ncols).map(|_| rng.pick(&ts)).collect();
        let (offsets, row_width, validity, _heap) = match verif_hooks::row_layout_info(cols.iter().map(|c| c.0.clone()).collect()) {
            Ok(x) => x,
            Err(e) => {
                writeln!(o, "case {case} layout -\nout {case} error {e}").ok();
                continue;
            }
        };
        // widths as the real layout implies them
        let mut widths = Vec::new();
        for i in 0..offsets.len() {
            let end = if i + 1 < offsets.len() { offsets[i + 1] } else { row_width };
            widths.push(end.saturating_sub(offsets[i]));
        }
        let join = |v: &[usize]| if v.is_empty() { "-".to_string() } else { v.iter().map(|x| x.to_string()).collect::<Vec<_>>().join(",") };
        writeln!(o, "case {case} layout {}", join(&widths)).ok();
        writeln!(o, "out {case} v={validity} w={row_width} o={}", join(&offsets)).ok();
        // oracle on the implementation: the expected value widths fit, fields are inside the row and do not overlap
        let mut verdict = "ok".to_string();
        for (i, c) in cols.iter().enumerate() {
            if widths[i] != c.1 {
                verdict = format!("column {i} ({}) occupies {} bytes, its values need {}", c.0, widths[i], c.1);
            }
            if offsets[i] < validity || offsets[i] + c.1 > row_width {
                verdict = format!("column {i} at {}..{} is outside the row (validity {validity}, width {row_width})", offsets[i], offsets[i] + c.1);
            }
        }
        if validity * 8 < ncols {
            verdict = format!("{validity} validity bytes cannot hold {ncols} bits");
        }
        writeln!(o, "oracle {case} {verdict}").ok();
    }
    0
}
