import GlareModel.Core.Util
import GlareModel.Core.SortKey
import GlareModel.Core.Arith
import GlareModel.Core.Cast
import GlareModel.Core.SemParse
import GlareModel.Core.Like
import GlareModel.Core.Str
import GlareModel.Core.Csv
import GlareModel.Core.Rle
import GlareModel.Core.CatalogRun
import GlareModel.Core.Collection
import GlareModel.Core.Tokens
import GlareModel.Core.Unify
import GlareModel.Core.Footer
import GlareModel.Core.Layout
import GlareModel.Core.Plain
import GlareModel.Core.Proto
import GlareModel.Core.ExecStack
import GlareModel.Core.Directory
import GlareModel.Core.Varint

/-! `gmodel`: line-protocol driver. Reads `case <n> <component> ...` lines on stdin and
prints `out <n> ...` lines computed by the code-shaped model. -/
open GlareModel

namespace Driver

open SortKey in
def parseKType (s : String) : Option KType :=
  match s with
  | "Boolean" => some .bool
  | "Int8" => some (.int 1) | "Int16" => some (.int 2) | "Int32" => some (.int 4)
  | "Int64" => some (.int 8) | "Int128" => some (.int 16)
  | "UInt8" => some (.uint 1) | "UInt16" => some (.uint 2) | "UInt32" => some (.uint 4)
  | "UInt64" => some (.uint 8) | "UInt128" => some (.uint 16)
  | "Float16" => some (.float 2) | "Float32" => some (.float 4) | "Float64" => some (.float 8)
  | "Interval" => some .interval
  | "Utf8" => some .utf8
  | "Binary" => some .binary
  | _ => none

open SortKey in
def parseKVal (t : KType) (s : String) : Option KVal :=
  if s == "NULL" then some .null else
  match t with
  | .utf8 | .binary => if s == "-" then some (.bytes []) else (parseHexBytes s).map .bytes
  | .interval =>
    match s.splitOn "." with
    | [m, d, n] => do
      let m ← parseHexNat m; let d ← parseHexNat d; let n ← parseHexNat n
      pure (.iv m d n)
    | _ => none
  | _ => (parseHexNat s).map .bits

open SortKey in
def parseKeyCell (s : String) : Option (KCol × KVal) :=
  match s.splitOn ":" with
  | [t, d, n, v] => do
    let ty ← parseKType t
    let v ← parseKVal ty v
    pure ({ ty := ty, desc := d == "1", nullsFirst := n == "1" }, v)
  | _ => none

def runSortKey (cells : List String) : String × String :=
  match cells.mapM parseKeyCell with
  | some cvs =>
    (hexOfBytes (SortKey.encodeRow (cvs.map (·.1)) (cvs.map (·.2))),
     " ".intercalate (cvs.map fun (c, v) => SortKey.specKeyStr c.ty v))
  | none => ("bad-case", "bad-case")

open Arith in
def parseNumTy (s : String) : Option NumTy :=
  let intTy (bits : Nat) (sg : Bool) : Option NumTy := some (.int ⟨bits, sg⟩)
  match s with
  | "Int8" => intTy 8 true | "Int16" => intTy 16 true | "Int32" => intTy 32 true
  | "Int64" => intTy 64 true | "Int128" => intTy 128 true
  | "UInt8" => intTy 8 false | "UInt16" => intTy 16 false | "UInt32" => intTy 32 false
  | "UInt64" => intTy 64 false | "UInt128" => intTy 128 false
  | _ =>
    -- Decimal64(p,s) / Decimal128(p,s)
    let bits := if s.startsWith "Decimal64(" then some 64 else if s.startsWith "Decimal128(" then some 128 else none
    match bits, s.splitOn "(" with
    | some b, [_, rest] =>
      match (rest.dropEnd 1).toString.splitOn "," with
      | [p, sc] => do
        let p ← p.toNat?
        let sc ← sc.toInt?
        pure (.dec ⟨b, p, sc⟩)
      | _ => none
    | _, _ => none

open Arith in
def showNumTy : NumTy → String
  | .int t => (if t.signed then "Int" else "UInt") ++ toString t.bits
  | .dec d => s!"Decimal{d.bits}({d.prec},{d.scale})"

open Arith in
def showOut : Out → String
  | .ok ty v => s!"ok {showNumTy ty} {v}"
  | .err => "err"
  | .trap .overflow => "trap overflow"
  | .trap .divZero => "trap divzero"
  | .unsupported => "unsupported"

def runArith (args : List String) : String :=
  match args with
  | [op, tl, a, tr, b] =>
    match parseNumTy tl, a.toInt?, parseNumTy tr, b.toInt? with
    | some tl, some a, some tr, some b => showOut (Arith.binop op tl a tr b)
    | _, _, _, _ => "bad-case"
  | ["neg", t, a] =>
    match parseNumTy t, a.toInt? with
    | some (.int ty), some a => showOut (Arith.nativeOut (.int ty) (Arith.natNeg ty a))
    | _, _ => "bad-case"
  | _ => "bad-case"

/-- `case N sum <bits> p1v1,p1v2|p2v1,...` : per-partition update, then merge left to right. -/
def runSum (args : List String) : String :=
  match args with
  | [bits, parts] =>
    match bits.toNat? with
    | none => "bad-case"
    | some b =>
      let t : Arith.IntTy := ⟨b, true⟩
      let plists := (parts.splitOn "|").map fun p => (p.splitOn ",").filterMap String.toInt?
      let states := plists.map (Arith.sumFold t Arith.sumInit)
      let merged := states.foldl (fun acc s => match acc, s with
        | some a, some s => Arith.sumMerge t a s
        | _, _ => none) (some Arith.sumInit)
      match merged with
      | none => "err"
      | some s => match Arith.sumFinalize s with
        | some v => s!"ok {v}"
        | none => "null"
  | _ => "bad-case"

def hexOfChars (cs : List Char) : String :=
  if cs.isEmpty then "-" else hexOfBytes ((String.ofList cs).toUTF8.toList.map (·.toNat))

def charsOfHex (h : String) : Option (List Char) :=
  if h == "-" then some [] else
  match parseHexBytes h with
  | some bs => some (bs.map fun b => Char.ofNat b)   -- ASCII payloads only
  | none => none

def showOptInt : Option Int → String
  | some v => s!"ok {v}"
  | none => "fail"

open Arith Cast in
def runCast (args : List String) : String :=
  match args with
  | ["fmtdate", d] => match d.toInt? with
    | some d => hexOfChars (formatDate d)
    | none => "bad-case"
  | ["parsedate", h] => match charsOfHex h with
    | some cs => showOptInt (parseDate cs)
    | none => "fail"
  | ["fmtint", v] => match v.toInt? with
    | some v => hexOfChars (formatInt v)
    | none => "bad-case"
  | ["fmtbool", v] => hexOfChars (formatBool (v == "1"))
  | ["parsebool", h] => match charsOfHex h with
    | some cs => match parseBool cs with
      | some true => "ok 1" | some false => "ok 0" | none => "fail"
    | none => "fail"
  | ["parseint", t, h] => match parseNumTy t, charsOfHex h with
    | some (.int ty), some cs => showOptInt (parseInt ty cs)
    | _, _ => "fail"
  | ["fmtdec", _, _, s, v] => match s.toNat?, v.toInt? with
    | some s, some v => hexOfChars (formatDecimal s v)
    | _, _ => "bad-case"
  | ["parsedec", _, p, s, h] => match p.toNat?, s.toNat?, charsOfHex h with
    | some p, some s, some cs => showOptInt (parseDecimal p s cs)
    | _, _, _ => "fail"
  | ["int2int", dst, v] => match parseNumTy dst, v.toInt? with
    | some (.int ty), some v => showOptInt (intToInt ty v)
    | _, _ => "bad-case"
  | ["int2dec", dst, v] => match parseNumTy dst, v.toInt? with
    | some (.dec d), some v => showOptInt (intToDec d v)
    | _, _ => "bad-case"
  | ["dec2dec", src, dst, v] => match parseNumTy src, parseNumTy dst, v.toInt? with
    | some (.dec a), some (.dec b), some v => showOptInt (rescale a b v)
    | _, _, _ => "bad-case"
  | ["f64toint", dst, bits] => match parseNumTy dst, parseHexNat bits with
    | some (.int ty), some b => showOptInt (f64ToInt ty b)
    | _, _ => "bad-case"
  | _ => "bad-case"

def utf8OfHex (h : String) : Option (List Char) :=
  if h == "-" then some [] else
  match parseHexBytes h with
  | some bs => (String.fromUTF8? (ByteArray.mk (bs.map (·.toUInt8)).toArray)).map (·.toList)
  | none => none

def runLike (args : List String) : String :=
  match args with
  | [ph, sh] =>
    match utf8OfHex ph, utf8OfHex sh with
    | some p, some s =>
      let k := match Like.classify p with
        | .equal => "equal" | .prefix => "prefix" | .suffix => "suffix" | .contains => "contains" | .general => "general"
      s!"{Like.likeMatch p s} {Like.rewriteEval p s} {k}"
    | _, _ => "bad-case"
  | _ => "bad-case"

def runStr (args : List String) : String :=
  let txt (cs : List Char) : String := hexOfChars cs
  match args with
  | ["left", sh, n] => match utf8OfHex sh, n.toInt? with
    | some s, some n => txt (Str.left s n) | _, _ => "bad-case"
  | ["right", sh, n] => match utf8OfHex sh, n.toInt? with
    | some s, some n => txt (Str.right s n) | _, _ => "bad-case"
  | ["substring2", sh, f] => match utf8OfHex sh, f.toInt? with
    | some s, some f => txt (Str.substringFrom s f) | _, _ => "bad-case"
  | ["substring3", sh, f, c] => match utf8OfHex sh, f.toInt?, c.toInt? with
    | some s, some f, some c => txt (Str.substring s f c) | _, _, _ => "bad-case"
  | ["repeat", sh, n] => match utf8OfHex sh, n.toInt? with
    | some s, some n => txt (Str.repeat_ s n) | _, _ => "bad-case"
  | ["reverse", sh] => match utf8OfHex sh with
    | some s => txt s.reverse | _ => "bad-case"
  | ["length", sh] => match utf8OfHex sh with
    | some s => toString s.length | _ => "bad-case"
  | ["lpad", sh, n, ph] => match utf8OfHex sh, n.toInt?, utf8OfHex ph with
    | some s, some n, some p => txt (Str.lpad s n p) | _, _, _ => "bad-case"
  | ["rpad", sh, n, ph] => match utf8OfHex sh, n.toInt?, utf8OfHex ph with
    | some s, some n, some p => txt (Str.rpad s n p) | _, _, _ => "bad-case"
  | ["strpos", sh, nh] => match utf8OfHex sh, utf8OfHex nh with
    | some s, some n => toString (Str.strpos s n) | _, _ => "bad-case"
  | ["starts_with", sh, nh] => match utf8OfHex sh, utf8OfHex nh with
    | some s, some n => toString (n.isPrefixOf s) | _, _ => "bad-case"
  | ["ends_with", sh, nh] => match utf8OfHex sh, utf8OfHex nh with
    | some s, some n => toString (n.isSuffixOf s) | _, _ => "bad-case"
  | ["contains", sh, nh] => match utf8OfHex sh, utf8OfHex nh with
    | some s, some n => toString (Like.isInfix n s) | _, _ => "bad-case"
  | _ => "bad-case"

/-- `case N csv <delim> <quote> <chunks> <hex>`: the model is chunk independent (theorem), the
chunk list is still applied so that the executable path is the same as the harness'. -/
def runCsv (args : List String) (sample : Bool := false) : String :=
  match args with
  | [d, q, chunks, h] =>
    match d.toNat?, q.toNat?, (if h == "-" then some [] else parseHexBytes h) with
    | some d, some q, some bytes =>
      let sizes := if chunks == "-" then [] else (chunks.splitOn ",").filterMap String.toNat?
      let rec cut (bs : List Nat) (i : Nat) (fuel : Nat) : List (List Nat) :=
        match fuel with
        | 0 => [bs]
        | fuel + 1 =>
          if bs.isEmpty then [] else
          let n := if sizes.isEmpty then bs.length else max 1 (sizes.getD (i % sizes.length) 1)
          bs.take n :: cut (bs.drop n) (i + 1) fuel
      let cs := cut bytes 0 (bytes.length + 1)
      -- `sample`: complete records only (no end-of-stream flush), as the inference code decodes the sample
      let recs := if sample then Csv.records (cs.foldl (Csv.decode d q) {}) else Csv.run d q cs
      if recs.isEmpty then "none" else
      "|".intercalate (recs.map fun r => ",".intercalate (r.map fun f => if f.isEmpty then "-" else hexOfBytes f))
    | _, _, _ => "bad-case"
  | _ => "bad-case"

/-- `case N rle <width> <chunks> <hex>`: read the chunks one after the other (resuming). -/
def runRle (args : List String) : String :=
  match args with
  | [w, chunks, h] =>
    match w.toNat?, (if h == "-" then some [] else parseHexBytes h) with
    | some w, some bytes =>
      let sizes := (chunks.splitOn ",").filterMap String.toNat?
      let init : Rle.St := { bytes := bytes, width := w }
      let res := sizes.foldl (fun (acc : Option (List Nat × Rle.St)) n =>
        match acc with
        | none => none
        | some (vs, s) => match Rle.readN n s with
          | none => none
          | some (o, s') => some (vs ++ o, s')) (some ([], init))
      match res with
      | some (vs, _) => "ok " ++ ",".intercalate (vs.map toString)
      | none => "oob"
    | _, _ => "bad-case"
  | _ => "bad-case"

/-- `case N collection <segSize> <chunkCap> <ops...>` (see harness/src/collection.rs). -/
def runCollection (args : List String) : String :=
  match args with
  | seg :: cap :: ops =>
    match seg.toNat?, cap.toNat? with
    | some seg, some cap =>
      -- row ids are consecutive over the appends
      let parsed := ops.foldl (fun (acc : Option (List Collection.Op × Nat)) (o : String) =>
        match acc with
        | none => none
        | some (xs, nextId) =>
          let tag := (o.take 1).toString
          let rest := (o.drop 1).toString
          match tag with
          | "a" => match rest.splitOn ":" with
            | [i, k] => match i.toNat?, k.toNat? with
              | some i, some k => some (xs ++ [.append i ((List.range k).map (· + nextId))], nextId + k)
              | _, _ => none
            | _ => none
          | "f" => rest.toNat?.map fun i => (xs ++ [.flush i], nextId)
          | "s" => rest.toNat?.map fun j => (xs ++ [.scan j], nextId)
          | "S" => rest.toNat?.map fun n => (xs ++ [.mkSeq n false], nextId)
          | "T" => rest.toNat?.map fun n => (xs ++ [.mkSeq n true], nextId)
          | "P" => rest.toNat?.map fun n => (xs ++ [.mkPar n false], nextId)
          | "Q" => rest.toNat?.map fun n => (xs ++ [.mkPar n true], nextId)
          | _ => none) (some ([], 0))
      match parsed with
      | none => "bad-case"
      | some (cops, _) =>
        let init : Collection.St := { segSize := seg, chunkCap := cap, apps := [[], [], []] }
        let outs := Collection.run init cops
        let scanOuts := (cops.zip outs).filterMap fun (o, r) => match o with
          | .scan _ => some (if r.isEmpty then "-" else ",".intercalate (r.map toString))
          | _ => none
        if scanOuts.isEmpty then "none" else "|".intercalate scanOuts
    | _, _ => "bad-case"
  | _ => "bad-case"

/-- `case N tok <hex utf8>`: token stream of the tokenizer model. -/
def runTok (args : List String) : String :=
  match args with
  | [h] =>
    match utf8OfHex h with
    | none => "bad-case"
    | some cs =>
      let hexs (v : List Char) : String := hexOfChars v
      match Tokens.tokenize cs with
      | none => "no-fuel"
      | some (.error c) => s!"err {c.toNat}"
      | some (.ok ts) =>
        let depth := Tokens.parenDepth ts 0 0
        s!"ok depth={depth} " ++ " ".intercalate (ts.map fun t => match t with
          | .word v q => (if q then "Q:" else "W:") ++ hexs v
          | .str v => "S:" ++ hexs v
          | .num v => "N:" ++ hexs v
          | .ws => "_"
          | .comment v => "C:" ++ hexs v
          | .sym n => "Y:" ++ n)
  | _ => "bad-case"

def tyIdOfName (n : String) : Option Generated.TyId :=
  Generated.TyId.all.find? fun t => (reprStr t).endsWith ("." ++ n) || reprStr t == n

/-- `case N unify <TyId> <TyId>` (constructor names as in Generated/CastTable.lean). -/
def runUnify (args : List String) : String :=
  match args with
  | [a, b] =>
    match tyIdOfName a, tyIdOfName b with
    | some x, some y =>
      if x == y then "same" else
      match Unify.unifyId x y with
      | some t => "some " ++ (((reprStr t).splitOn ".").getLast?.getD "")
      | none => "none"
    | _, _ => "bad-case"
  | _ => "bad-case"

/-- `case N footer <hex of the last 8 bytes | -> <file size>`: the repaired loader's verdict. -/
def runFooter (args : List String) : String :=
  match args with
  | [h, sz] =>
    match (if h == "-" then some [] else parseHexBytes h), sz.toNat? with
    | some tail, some size =>
      match Footer.load true tail size with
      | .err a => s!"err alloc={a}"
      | .ok off len a => s!"ok off={off} len={len} alloc={a}"
    | _, _ => "bad-case"
  | _ => "bad-case"

/-- `case N layout <w1,w2,...|->`: validity width, row width and offsets of the row-layout model. -/
def runLayout (args : List String) : String :=
  match args with
  | [ws] =>
    let widths := if ws == "-" then [] else (ws.splitOn ",").filterMap String.toNat?
    let l := Layout.rowLayout widths
    let os := if l.offsets.isEmpty then "-" else ",".intercalate (l.offsets.map toString)
    s!"v={l.validityWidth} w={l.rowWidth} o={os}"
  | _ => "bad-case"

/-- `case N varint <b1,b2,..|->`: the thrift compact reader's `read_i64` (varint + zig-zag). -/
def runVarint (args : List String) : String :=
  match args with
  | [bs] =>
    let bytes := if bs == "-" then [] else (bs.splitOn ",").filterMap String.toNat?
    match Varint.readVlq true bytes with
    | .ok v n =>
      let z : Int := if v % 2 == 0 then (v / 2 : Nat) else -((v / 2 : Nat) : Int) - 1
      s!"ok {z} {n}"
    | _ => "err"
  | _ => "bad-case"

/-- `case N directory <n1:g1,..|->`: capacity and occupancy of the aggregate directory after every batch. -/
def runDirectory (args : List String) : String :=
  match args with
  | [bs] =>
    let batches : List (Nat × Nat) := if bs == "-" then [] else
      (bs.splitOn ",").filterMap fun t => match t.splitOn ":" with
        | [a, b] => match a.toNat?, b.toNat? with
          | some x, some y => some (x, y)
          | _, _ => none
        | _ => none
    let states := (batches.foldl (fun (acc : Directory.Dir × List Directory.Dir) b =>
      let d := Directory.batch acc.1 b.1 b.2
      (d, d :: acc.2)) (Directory.init, [])).2.reverse
    if states.isEmpty then "-" else ",".intercalate (states.map fun d => s!"{d.cap}:{d.occupied}")
  | _ => "bad-case"

/-- `case N execstack <num_operators> <b1,b2,..|->`: the calls `ExecutionStack::pop_next` makes under a scripted handler. -/
def runExecStack (args : List String) : String :=
  match args with
  | [n, bs] =>
    match n.toNat? with
    | some nops =>
      let script := if bs == "-" then [] else (bs.splitOn ",").filterMap String.toNat?
      let t := ExecStack.trace true nops script
      t.trimAscii.toString
    | none => "bad-case"
  | _ => "bad-case"

/-- `case N pqpage <type> <optional 0|1> <numValues> <hex body>`: rows of one v1 PLAIN data page. -/
def runPqPage (args : List String) : String :=
  match args with
  | [t, opt, n, h] =>
    let ty : Option Plain.PType := match t with
      | "bool" => some .bool | "int32" => some .int32 | "int64" => some .int64 | "double" => some .double | "utf8" => some .bytes | _ => none
    match ty, n.toNat?, (if h == "-" then some [] else parseHexBytes h) with
    | some ty, some n, some body =>
      match Plain.decodePage ty (opt == "1") n body with
      | none => "err"
      | some rows => "ok " ++ " ".intercalate (rows.map fun r => match r with
          | none => "N"
          | some (.int v) => s!"i{v}"
          | some (.bits v) => s!"f{v}"
          | some (.bytes b) => "s" ++ (if b.isEmpty then "-" else hexOfBytes b))
    | _, _, _ => "bad-case"
  | _ => "bad-case"

/-- `case N tasktrace <kind:flags:err> ...` -> `accept` | `reject@i`. -/
def runTaskTrace (args : List String) : String :=
  let evs := args.filterMap fun a =>
    match a.splitOn ":" with
    | [k, f, e] =>
      let b (i : Nat) : Bool := (f.toList.getD i '0') == '1'
      let fl : Proto.Flags := (b 0, b 1, b 2, b 3)
      let ev : Option Proto.Ev := match k with
        | "schedule" => some (.schedule (e == "1"))
        | "cancel-set" => some .cancelSet
        | "begin" => some .begin
        | "poll-ready" => some (.poll .ready)
        | "poll-err" => some (.poll .err)
        | "poll-pending" => some (.poll .pending)
        | "end" => some .end_
        | _ => none
      ev.map fun e => (e, fl)
    | _ => none
  if evs.length != args.length then "bad-case" else
  match Proto.accept evs with
  | none => "accept"
  | some i => s!"reject@{i}"

def step (line : String) : Option String :=
  -- `case N sem <payload>`: the payload keeps its spaces
  match (line.trimAscii.toString.splitOn " ") with
  | "case" :: n :: "sem" :: rest => some s!"out {n} {Sem.runSem (" ".intercalate rest)}"
  | "case" :: n :: "cat" :: rest => some s!"out {n} {Catalog.runScript (" ".intercalate rest)}"
  | _ =>
  match splitWords line with
  | "case" :: n :: "sortkey" :: cells =>
    let (o, sp) := runSortKey cells
    some s!"out {n} {o}\nspec {n} {sp}"
  | "case" :: n :: "arith" :: args => some s!"out {n} {runArith args}"
  | "case" :: n :: "sum" :: args => some s!"out {n} {runSum args}"
  | "case" :: n :: "cast" :: args => some s!"out {n} {runCast args}"
  | "case" :: n :: "like" :: args => some s!"out {n} {runLike args}"
  | "case" :: n :: "rle" :: args => some s!"out {n} {runRle args}"
  | "case" :: n :: "tasktrace" :: args => some s!"out {n} {runTaskTrace args}"
  | "case" :: n :: "pqpage" :: args => some s!"out {n} {runPqPage args}"
  | "case" :: n :: "layout" :: args => some s!"out {n} {runLayout args}"
  | "case" :: n :: "execstack" :: args => some s!"out {n} {runExecStack args}"
  | "case" :: n :: "directory" :: args => some s!"out {n} {runDirectory args}"
  | "case" :: n :: "varint" :: args => some s!"out {n} {runVarint args}"
  | "case" :: n :: "footer" :: args => some s!"out {n} {runFooter args}"
  | "case" :: n :: "unify" :: args => some s!"out {n} {runUnify args}"
  | "case" :: n :: "tok" :: args => some s!"out {n} {runTok args}"
  | "case" :: n :: "collection" :: args => some s!"out {n} {runCollection args}"
  | "case" :: n :: "csv" :: args => some s!"out {n} {runCsv args}"
  | "case" :: n :: "csvsample" :: args => some s!"out {n} {runCsv args true}"
  | "case" :: n :: "str" :: args => some s!"out {n} {runStr args}"
  | "case" :: n :: _ => some s!"out {n} bad-component"
  | _ => none

partial def loop (h : IO.FS.Stream) (out : IO.FS.Stream) : IO Unit := do
  let line ← h.getLine
  if line.isEmpty then return ()
  match step line with
  | some o => out.putStrLn o
  | none => pure ()
  loop h out

end Driver

def main : IO Unit := do
  let stdin ← IO.getStdin
  let stdout ← IO.getStdout
  Driver.loop stdin stdout
