import GlareModel.Core.Util
import GlareModel.Core.SortKey

/-! `gmodel`: line-protocol driver. Reads `case <n> <component> ...` lines on stdin and
prints `out <n> ...` lines computed by the code-shaped model. -/
open GlareModel

namespace Driver

open SortKey in
def parseKType (s : String) : Option KType :=
  match s with
  | "Boolean" => some .bool
  | "Int8" => some (.int 1) | "Int16" => some (.int 2) | "Int32" => some (.int 4)
  | "Int64" => some (.int 8) | "Int128" => some (.int 16)
  | "UInt8" => some (.uint 1) | "UInt16" => some (.uint 2) | "UInt32" => some (.uint 4)
  | "UInt64" => some (.uint 8) | "UInt128" => some (.uint 16)
  | "Float16" => some (.float 2) | "Float32" => some (.float 4) | "Float64" => some (.float 8)
  | "Interval" => some .interval
  | "Utf8" => some .utf8
  | "Binary" => some .binary
  | _ => none

open SortKey in
def parseKVal (t : KType) (s : String) : Option KVal :=
  if s == "NULL" then some .null else
  match t with
  | .utf8 | .binary => if s == "-" then some (.bytes []) else (parseHexBytes s).map .bytes
  | .interval =>
    match s.splitOn "." with
    | [m, d, n] => do
      let m ← parseHexNat m; let d ← parseHexNat d; let n ← parseHexNat n
      pure (.iv m d n)
    | _ => none
  | _ => (parseHexNat s).map .bits

open SortKey in
def parseKeyCell (s : String) : Option (KCol × KVal) :=
  match s.splitOn ":" with
  | [t, d, n, v] => do
    let ty ← parseKType t
    let v ← parseKVal ty v
    pure ({ ty := ty, desc := d == "1", nullsFirst := n == "1" }, v)
  | _ => none

def runSortKey (cells : List String) : String × String :=
  match cells.mapM parseKeyCell with
  | some cvs =>
    (hexOfBytes (SortKey.encodeRow (cvs.map (·.1)) (cvs.map (·.2))),
     " ".intercalate (cvs.map fun (c, v) => SortKey.specKeyStr c.ty v))
  | none => ("bad-case", "bad-case")

def step (line : String) : Option String :=
  match splitWords line with
  | "case" :: n :: "sortkey" :: cells =>
    let (o, sp) := runSortKey cells
    some s!"out {n} {o}\nspec {n} {sp}"
  | "case" :: n :: _ => some s!"out {n} bad-component"
  | _ => none

partial def loop (h : IO.FS.Stream) (out : IO.FS.Stream) : IO Unit := do
  let line ← h.getLine
  if line.isEmpty then return ()
  match step line with
  | some o => out.putStrLn o
  | none => pure ()
  loop h out

end Driver

def main : IO Unit := do
  let stdin ← IO.getStdin
  let stdout ← IO.getStdout
  Driver.loop stdin stdout
