-- Root of the `GlareModel` library: executable model (Core), lemmas (Proofs) and
-- property theorems (Props). `lake build` re-checks everything.
import GlareModel.Core.Util
import GlareModel.Core.SortKey
import GlareModel.Core.Arith
import GlareModel.Core.Cast
import GlareModel.Core.Sexp
import GlareModel.Core.Sem
import GlareModel.Core.SemParse
import GlareModel.Proofs.SortKey
import GlareModel.Proofs.SortKeyCol
import GlareModel.Props.C08
import GlareModel.Props.C12
import GlareModel.Props.C13
import GlareModel.Props.C01
import GlareModel.Props.C02
import GlareModel.Props.C03
import GlareModel.Props.C06
import GlareModel.Props.C07
import GlareModel.Props.C09
import GlareModel.Core.Like
import GlareModel.Core.Str
import GlareModel.Props.C20
import GlareModel.Props.C05
import GlareModel.Core.Csv
import GlareModel.Props.C17
import GlareModel.Core.Rle
import GlareModel.Props.C10
