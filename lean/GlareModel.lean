-- Root of the `GlareModel` library: executable model (Core), lemmas (Proofs),
-- property theorems (Props) and the axiom audit.
import GlareModel.Core.Util
import GlareModel.Core.SortKey
