import GlareModel.Proofs.SortKey

/-! Column- and row-level order embedding of the sort key (C08). -/
namespace GlareModel.SortKey

def Bytes (a : List Nat) : Prop := ∀ x ∈ a, x < 256

theorem lexLt_append (a1 b1 a2 b2 : List Nat) (h : a1.length = b1.length) :
    lexLt (a1 ++ a2) (b1 ++ b2) = true ↔
      lexLt a1 b1 = true ∨ (a1 = b1 ∧ lexLt a2 b2 = true) := by
  induction a1 generalizing b1 with
  | nil =>
    cases b1 with
    | nil => simp [lexLt]
    | cons y ys => simp at h
  | cons x xs ih =>
    cases b1 with
    | nil => simp at h
    | cons y ys =>
      simp only [List.length_cons, Nat.add_right_cancel_iff] at h
      simp only [List.cons_append, lexLt, Bool.or_eq_true, Bool.and_eq_true, decide_eq_true_eq,
        beq_iff_eq, ih ys h, List.cons.injEq]
      constructor
      · rintro (h1 | ⟨h1, h2 | ⟨h2, h3⟩⟩)
        · exact Or.inl (Or.inl h1)
        · exact Or.inl (Or.inr ⟨h1, h2⟩)
        · exact Or.inr ⟨⟨h1, h2⟩, h3⟩
      · rintro ((h1 | ⟨h1, h2⟩) | ⟨⟨h1, h2⟩, h3⟩)
        · exact Or.inl h1
        · exact Or.inr ⟨h1, Or.inl h2⟩
        · exact Or.inr ⟨h1, Or.inr ⟨h2, h3⟩⟩

theorem lexLt_invert (a b : List Nat) (h : a.length = b.length) (ha : Bytes a) (hb : Bytes b) :
    lexLt (a.map (fun x => 255 - x)) (b.map (fun x => 255 - x)) = lexLt b a := by
  induction a generalizing b with
  | nil =>
    cases b with
    | nil => rfl
    | cons y ys => simp at h
  | cons x xs ih =>
    cases b with
    | nil => simp at h
    | cons y ys =>
      simp only [List.length_cons, Nat.add_right_cancel_iff] at h
      have hx : x < 256 := ha x (by simp)
      have hy : y < 256 := hb y (by simp)
      have ih' := ih ys h (fun z hz => ha z (by simp [hz])) (fun z hz => hb z (by simp [hz]))
      simp only [List.map_cons, lexLt, ih']
      by_cases h1 : y < x
      · have : 255 - x < 255 - y := by omega
        simp [h1, this]
      · by_cases h2 : x = y
        · subst h2; simp
        · have h3 : ¬ (255 - x < 255 - y) := by omega
          have h4 : ¬ (255 - x = 255 - y) := by omega
          have h5 : ¬ (y = x) := fun e => h2 e.symm
          have e1 : (255 - x == 255 - y) = false := by simp [h4]
          have e2 : (y == x) = false := by simp [h5]
          simp [h1, h3, e1, e2]

theorem map_invert_inj (a b : List Nat) (ha : Bytes a) (hb : Bytes b)
    (h : a.map (fun x => 255 - x) = b.map (fun x => 255 - x)) : a = b := by
  induction a generalizing b with
  | nil => cases b with
    | nil => rfl
    | cons y ys => simp at h
  | cons x xs ih =>
    cases b with
    | nil => simp at h
    | cons y ys =>
      simp only [List.map_cons, List.cons.injEq] at h
      have hx : x < 256 := ha x (by simp)
      have hy : y < 256 := hb y (by simp)
      have := ih ys (fun z hz => ha z (by simp [hz])) (fun z hz => hb z (by simp [hz])) h.2
      subst this
      have : x = y := by omega
      subst this; rfl

theorem beBytes_bytes (n v : Nat) : Bytes (beBytes n v) := by
  induction n generalizing v with
  | zero => intro x hx; simp [beBytes] at hx
  | succ n ih =>
    intro x hx
    simp only [beBytes, List.mem_cons] at hx
    rcases hx with rfl | hx
    · exact Nat.mod_lt _ (by decide)
    · exact ih _ x hx

theorem encSigned_bytes (n v : Nat) : Bytes (encSigned n v) := by
  unfold encSigned
  cases n with
  | zero => intro x hx; simp [beBytes, flipFirst] at hx
  | succ n =>
    intro x hx
    simp only [beBytes, flipFirst, List.mem_cons] at hx
    rcases hx with rfl | hx
    · have h := Nat.mod_lt (v / 256 ^ n) (show 0 < 256 by decide)
      rw [xor128 _ h]; split <;> omega
    · exact beBytes_bytes _ _ x hx

@[simp] theorem encSigned_length (n v : Nat) : (encSigned n v).length = n := by
  unfold encSigned
  cases n with
  | zero => simp [beBytes, flipFirst]
  | succ n => simp [beBytes, flipFirst]

theorem bytes_append {a b : List Nat} (ha : Bytes a) (hb : Bytes b) : Bytes (a ++ b) := by
  intro x hx
  rcases List.mem_append.1 hx with h | h
  · exact ha x h
  · exact hb x h

end GlareModel.SortKey

namespace GlareModel.SortKey

/-- Ascending order of two non-null keys. -/
def ascLt : Spec.Key → Spec.Key → Bool
  | .num a, .num b => a < b
  | .tuple a, .tuple b => Spec.intsLt a b
  | .str a, .str b => lexLt a b
  | _, _ => false

theorem encBool_lt (a b : Nat) :
    lexLt (encBool a) (encBool b) = ascLt (Spec.key .bool (.bits a)) (Spec.key .bool (.bits b)) := by
  unfold encBool Spec.key ascLt
  by_cases ha : a = 0 <;> by_cases hb : b = 0 <;> simp [ha, hb, lexLt]

theorem encBool_eq (a b : Nat) :
    encBool a = encBool b ↔ Spec.key .bool (.bits a) = Spec.key .bool (.bits b) := by
  unfold encBool Spec.key
  by_cases ha : a = 0 <;> by_cases hb : b = 0 <;> simp [ha, hb]

theorem interval_lt (m1 d1 n1 m2 d2 n2 : Nat)
    (h1 : m1 < 256 ^ 4) (h2 : d1 < 256 ^ 4) (h3 : n1 < 256 ^ 8)
    (h4 : m2 < 256 ^ 4) (h5 : d2 < 256 ^ 4) (h6 : n2 < 256 ^ 8) :
    lexLt (encInterval m1 d1 n1) (encInterval m2 d2 n2) =
      Spec.intsLt [Spec.toInt 4 m1, Spec.toInt 4 d1, Spec.toInt 8 n1]
        [Spec.toInt 4 m2, Spec.toInt 4 d2, Spec.toInt 8 n2] := by
  rw [Bool.eq_iff_iff]
  unfold encInterval
  rw [List.append_assoc, List.append_assoc, lexLt_append _ _ _ _ (by simp),
    lexLt_append _ _ _ _ (by simp)]
  have e1 := encSigned_lt_iff 3 m1 m2 h1 h4
  have e2 := encSigned_lt_iff 3 d1 d2 h2 h5
  have e3 := encSigned_lt_iff 7 n1 n2 h3 h6
  simp only [Nat.reduceAdd] at e1 e2 e3
  rw [e1, e2, e3]
  simp only [Spec.intsLt, Bool.or_eq_true, Bool.and_eq_true, decide_eq_true_eq, beq_iff_eq,
    Bool.or_false, Bool.and_false]
  constructor
  · rintro (h | ⟨h, h' | ⟨h', h''⟩⟩)
    · exact Or.inl h
    · have := congrArg (Spec.toInt 4) (encSigned_inj 3 m1 m2 h1 h4 h); exact Or.inr ⟨this, Or.inl h'⟩
    · have a := congrArg (Spec.toInt 4) (encSigned_inj 3 m1 m2 h1 h4 h)
      have b := congrArg (Spec.toInt 4) (encSigned_inj 3 d1 d2 h2 h5 h')
      exact Or.inr ⟨a, Or.inr ⟨b, h''⟩⟩
  · rintro (h | ⟨h, h' | ⟨h', h''⟩⟩)
    · exact Or.inl h
    · have := toInt_inj 4 m1 m2 h1 h4 h; subst this; exact Or.inr ⟨rfl, Or.inl h'⟩
    · have a := toInt_inj 4 m1 m2 h1 h4 h
      have b := toInt_inj 4 d1 d2 h2 h5 h'
      subst a b
      exact Or.inr ⟨rfl, Or.inr ⟨rfl, h''⟩⟩

theorem interval_eq (m1 d1 n1 m2 d2 n2 : Nat)
    (h1 : m1 < 256 ^ 4) (h2 : d1 < 256 ^ 4) (h3 : n1 < 256 ^ 8)
    (h4 : m2 < 256 ^ 4) (h5 : d2 < 256 ^ 4) (h6 : n2 < 256 ^ 8) :
    encInterval m1 d1 n1 = encInterval m2 d2 n2 ↔
      Spec.key .interval (.iv m1 d1 n1) = Spec.key .interval (.iv m2 d2 n2) := by
  unfold encInterval Spec.key
  constructor
  · intro h
    have ha := List.append_inj h (by simp)
    have hb := List.append_inj ha.1 (by simp)
    rw [encSigned_inj 3 m1 m2 h1 h4 hb.1, encSigned_inj 3 d1 d2 h2 h5 hb.2,
      encSigned_inj 7 n1 n2 h3 h6 ha.2]
  · intro h
    simp only [Spec.Key.tuple.injEq, List.cons.injEq, and_true] at h
    rw [toInt_inj 4 m1 m2 h1 h4 h.1, toInt_inj 4 d1 d2 h2 h5 h.2.1, toInt_inj 8 n1 n2 h3 h6 h.2.2]

end GlareModel.SortKey

namespace GlareModel.SortKey

theorem encValue_length (t : KType) (v : KVal) (hf : t.fixedWidth = true) :
    (encValue t v).length = t.width := by
  cases t <;> cases v <;>
    simp_all [encValue, KType.width, KType.fixedWidth, encBool, encUnsigned, encFloat, encInterval]
  all_goals (try split) <;> rfl

theorem encValue_bytes (t : KType) (v : KVal) (hf : t.fixedWidth = true) : Bytes (encValue t v) := by
  have hb : ∀ b, Bytes (encBool b) := by
    intro b x hx; unfold encBool at hx; split at hx <;> simp at hx <;> omega
  have hi : ∀ m d n, Bytes (encInterval m d n) := fun m d n =>
    bytes_append (bytes_append (encSigned_bytes _ _) (encSigned_bytes _ _)) (encSigned_bytes _ _)
  cases t <;> cases v <;> simp_all [encValue, KType.fixedWidth, encUnsigned, encFloat] <;>
    first
      | exact hb _
      | exact beBytes_bytes _ _
      | exact encSigned_bytes _ _
      | exact hi _ _ _

/-- Value bytes of two valid values of a fixed-width type compare like their spec keys. -/
theorem encValue_lt (t : KType) (v1 v2 : KVal) (hf : t.fixedWidth = true)
    (h1 : WF t v1 = true) (h2 : WF t v2 = true) (n1 : v1 ≠ .null) (n2 : v2 ≠ .null) :
    lexLt (encValue t v1) (encValue t v2) = ascLt (Spec.key t v1) (Spec.key t v2) := by
  cases t with
  | utf8 => simp [KType.fixedWidth] at hf
  | binary => simp [KType.fixedWidth] at hf
  | bool =>
    cases v1 <;> cases v2 <;> simp_all [WF]
    exact encBool_lt _ _
  | uint n =>
    cases v1 <;> cases v2 <;> simp_all [WF]
    rename_i a b
    rw [Bool.eq_iff_iff, encValue, encValue, encUnsigned, encUnsigned, beBytes_lt_iff n a b h1 h2]
    simp [Spec.key, ascLt]
  | int n =>
    cases v1 <;> cases v2 <;> simp_all [WF]
    rename_i a b
    obtain ⟨m, rfl⟩ : ∃ m, n = m + 1 := ⟨n - 1, by omega⟩
    rw [Bool.eq_iff_iff, encValue, encValue, encSigned_lt_iff m a b h1.2 h2]
    simp [Spec.key, ascLt]
  | float n =>
    cases v1 <;> cases v2 <;> simp_all [WF]
    rename_i a b
    rw [Bool.eq_iff_iff, encValue, encValue]
    rcases h1.1 with (rfl | rfl) | rfl
    · have := encFloat_lt_iff 1 a b h1.2 h2
      simpa [Spec.key, ascLt, floatShift] using this
    · have := encFloat_lt_iff 3 a b h1.2 h2
      simpa [Spec.key, ascLt, floatShift] using this
    · have := encFloat_lt_iff 7 a b h1.2 h2
      simpa [Spec.key, ascLt, floatShift] using this
  | interval =>
    cases v1 <;> cases v2 <;> simp_all [WF]
    rw [encValue, encValue, interval_lt _ _ _ _ _ _ h1.1.1 h1.1.2 h1.2 h2.1.1 h2.1.2 h2.2]
    simp [Spec.key, ascLt]

end GlareModel.SortKey

namespace GlareModel.SortKey

/-- Equal value bytes ⇔ equal spec keys (fixed-width types, valid values). -/
theorem encValue_eq (t : KType) (v1 v2 : KVal) (hf : t.fixedWidth = true)
    (h1 : WF t v1 = true) (h2 : WF t v2 = true) (n1 : v1 ≠ .null) (n2 : v2 ≠ .null) :
    encValue t v1 = encValue t v2 ↔ Spec.key t v1 = Spec.key t v2 := by
  cases t with
  | utf8 => simp [KType.fixedWidth] at hf
  | binary => simp [KType.fixedWidth] at hf
  | bool =>
    cases v1 <;> cases v2 <;> simp_all [WF]
    exact encBool_eq _ _
  | uint n =>
    cases v1 <;> cases v2 <;> simp_all [WF]
    rename_i a b
    simp only [encValue, encUnsigned, Spec.key, Spec.Key.num.injEq, Int.natCast_inj]
    exact ⟨beBytes_inj n a b h1 h2, fun h => by rw [h]⟩
  | int n =>
    cases v1 <;> cases v2 <;> simp_all [WF]
    rename_i a b
    obtain ⟨m, rfl⟩ : ∃ m, n = m + 1 := ⟨n - 1, by omega⟩
    simp only [encValue, Spec.key, Spec.Key.num.injEq]
    exact ⟨fun h => by rw [encSigned_inj m a b h1.2 h2 h], fun h => by rw [toInt_inj _ a b h1.2 h2 h]⟩
  | float n =>
    cases v1 <;> cases v2 <;> simp_all [WF]
    rename_i a b
    simp only [encValue, Spec.key, Spec.Key.num.injEq]
    constructor
    · intro h
      have : a = b := by
        rcases h1.1 with (rfl | rfl) | rfl
        · exact encSigned_inj 1 _ _ (float_xform_lt 1 a h1.2) (float_xform_lt 1 b h2) h |>
            fun e => floatOrd_inj 2 a b (by rw [← float_xform_toInt 1 a h1.2, ← float_xform_toInt 1 b h2, e])
        · exact encSigned_inj 3 _ _ (float_xform_lt 3 a h1.2) (float_xform_lt 3 b h2) h |>
            fun e => floatOrd_inj 4 a b (by rw [← float_xform_toInt 3 a h1.2, ← float_xform_toInt 3 b h2, e])
        · exact encSigned_inj 7 _ _ (float_xform_lt 7 a h1.2) (float_xform_lt 7 b h2) h |>
            fun e => floatOrd_inj 8 a b (by rw [← float_xform_toInt 7 a h1.2, ← float_xform_toInt 7 b h2, e])
      rw [this]
    · intro h
      rw [floatOrd_inj n a b h]
  | interval =>
    cases v1 <;> cases v2 <;> simp_all [WF]
    rw [encValue, encValue]
    exact interval_eq _ _ _ _ _ _ h1.1.1 h1.1.2 h1.2 h2.1.1 h2.1.2 h2.2

theorem ascLt_irrefl_of_eq (t : KType) (v1 v2 : KVal) (hf : t.fixedWidth = true)
    (h1 : WF t v1 = true) (h2 : WF t v2 = true) (n1 : v1 ≠ .null) (n2 : v2 ≠ .null)
    (he : Spec.key t v1 = Spec.key t v2) : ascLt (Spec.key t v1) (Spec.key t v2) = false := by
  rw [← encValue_lt t v1 v2 hf h1 h2 n1 n2, (encValue_eq t v1 v2 hf h1 h2 n1 n2).2 he, lexLt_irrefl]

theorem key_null_iff (t : KType) (v : KVal) (h : WF t v = true) : Spec.key t v = .null ↔ v = .null := by
  cases t <;> cases v <;> simp_all [Spec.key, WF]

/-- **Column embedding**: for a fixed-width column, comparing the encoded column bytes
(validity byte + value bytes, inverted when descending) is exactly the declared order
(ASC/DESC, NULLS FIRST/LAST), for all valid values including NULL. -/
theorem encodeCol_lt (c : KCol) (v1 v2 : KVal) (hf : c.ty.fixedWidth = true)
    (h1 : WF c.ty v1 = true) (h2 : WF c.ty v2 = true) :
    lexLt (encodeCol c v1) (encodeCol c v2) = Spec.colLt c (Spec.key c.ty v1) (Spec.key c.ty v2) := by
  by_cases n1 : v1 = .null <;> by_cases n2 : v2 = .null
  · subst n1 n2
    simp [encodeCol, Spec.key, Spec.colLt, lexLt, lexLt_irrefl]
  · subst n1
    have hk : Spec.key c.ty v2 ≠ .null := fun h => n2 ((key_null_iff _ _ h2).1 h)
    have e : encodeCol c v2 = validByte c :: invertIfDesc c.desc (encValue c.ty v2) := by
      cases v2 <;> simp_all [encodeCol]
    rw [e]
    have : Spec.colLt c (Spec.key c.ty .null) (Spec.key c.ty v2) = c.nullsFirst := by
      generalize Spec.key c.ty v2 = k at hk
      cases k <;> simp_all [Spec.key, Spec.colLt]
    rw [this]
    cases hnf : c.nullsFirst <;> simp [encodeCol, lexLt, invalidByte, validByte, hnf]
  · subst n2
    have hk : Spec.key c.ty v1 ≠ .null := fun h => n1 ((key_null_iff _ _ h1).1 h)
    have e : encodeCol c v1 = validByte c :: invertIfDesc c.desc (encValue c.ty v1) := by
      cases v1 <;> simp_all [encodeCol]
    rw [e]
    have : Spec.colLt c (Spec.key c.ty v1) (Spec.key c.ty .null) = !c.nullsFirst := by
      generalize Spec.key c.ty v1 = k at hk
      cases k <;> simp_all [Spec.key, Spec.colLt]
    rw [this]
    cases hnf : c.nullsFirst <;> simp [encodeCol, lexLt, invalidByte, validByte, hnf]
  · have e1 : encodeCol c v1 = validByte c :: invertIfDesc c.desc (encValue c.ty v1) := by
      cases v1 <;> simp_all [encodeCol]
    have e2 : encodeCol c v2 = validByte c :: invertIfDesc c.desc (encValue c.ty v2) := by
      cases v2 <;> simp_all [encodeCol]
    rw [e1, e2]
    have hlen : (encValue c.ty v1).length = (encValue c.ty v2).length := by
      rw [encValue_length _ _ hf, encValue_length _ _ hf]
    have hasc := encValue_lt c.ty v1 v2 hf h1 h2 n1 n2
    have hdsc := encValue_lt c.ty v2 v1 hf h2 h1 n2 n1
    have hk1 : Spec.key c.ty v1 ≠ .null := fun h => n1 ((key_null_iff _ _ h1).1 h)
    have hk2 : Spec.key c.ty v2 ≠ .null := fun h => n2 ((key_null_iff _ _ h2).1 h)
    have hcol : Spec.colLt c (Spec.key c.ty v1) (Spec.key c.ty v2) =
        if c.desc then ascLt (Spec.key c.ty v2) (Spec.key c.ty v1)
        else ascLt (Spec.key c.ty v1) (Spec.key c.ty v2) := by
      generalize Spec.key c.ty v1 = k1 at hk1
      generalize Spec.key c.ty v2 = k2 at hk2
      cases k1 <;> cases k2 <;> simp_all [Spec.colLt, ascLt] <;> split <;> rfl
    rw [hcol]
    simp only [lexLt, Nat.lt_irrefl, decide_false, beq_self_eq_true, Bool.true_and, Bool.false_or]
    cases hd : c.desc
    · simp [invertIfDesc, hasc]
    · simp only [invertIfDesc, if_true]
      rw [lexLt_invert _ _ hlen (encValue_bytes _ _ hf) (encValue_bytes _ _ hf), hdsc]

end GlareModel.SortKey

namespace GlareModel.SortKey

theorem encodeCol_length (c : KCol) (v : KVal) (hf : c.ty.fixedWidth = true) :
    (encodeCol c v).length = c.ty.width + 1 := by
  cases v <;> simp [encodeCol, invertIfDesc, encValue_length _ _ hf] <;> split <;>
    simp [encValue_length _ _ hf]

theorem encodeCol_eq (c : KCol) (v1 v2 : KVal) (hf : c.ty.fixedWidth = true)
    (h1 : WF c.ty v1 = true) (h2 : WF c.ty v2 = true) :
    encodeCol c v1 = encodeCol c v2 ↔ Spec.key c.ty v1 = Spec.key c.ty v2 := by
  by_cases n1 : v1 = .null <;> by_cases n2 : v2 = .null
  · subst n1 n2; simp
  · subst n1
    have hk : Spec.key c.ty v2 ≠ .null := fun h => n2 ((key_null_iff _ _ h2).1 h)
    have e : encodeCol c v2 = validByte c :: invertIfDesc c.desc (encValue c.ty v2) := by
      cases v2 <;> simp_all [encodeCol]
    rw [e]
    constructor
    · intro h
      cases hnf : c.nullsFirst <;> simp [encodeCol, invalidByte, validByte, hnf] at h
    · intro h; exact absurd h.symm hk
  · subst n2
    have hk : Spec.key c.ty v1 ≠ .null := fun h => n1 ((key_null_iff _ _ h1).1 h)
    have e : encodeCol c v1 = validByte c :: invertIfDesc c.desc (encValue c.ty v1) := by
      cases v1 <;> simp_all [encodeCol]
    rw [e]
    constructor
    · intro h
      cases hnf : c.nullsFirst <;> simp [encodeCol, invalidByte, validByte, hnf] at h
    · intro h; exact absurd h hk
  · have e1 : encodeCol c v1 = validByte c :: invertIfDesc c.desc (encValue c.ty v1) := by
      cases v1 <;> simp_all [encodeCol]
    have e2 : encodeCol c v2 = validByte c :: invertIfDesc c.desc (encValue c.ty v2) := by
      cases v2 <;> simp_all [encodeCol]
    rw [e1, e2, ← encValue_eq c.ty v1 v2 hf h1 h2 n1 n2]
    simp only [List.cons.injEq, true_and]
    cases hd : c.desc
    · simp [invertIfDesc]
    · simp only [invertIfDesc, if_true]
      exact ⟨map_invert_inj _ _ (encValue_bytes _ _ hf) (encValue_bytes _ _ hf), fun h => by rw [h]⟩

def allFixed : List KCol → Bool
  | [] => true
  | c :: cs => c.ty.fixedWidth && allFixed cs

/-- **Row embedding** (any number of key columns): byte-wise comparison of encoded rows is
the lexicographic declared order of the rows. -/
theorem encodeRow_lt (cols : List KCol) (r1 r2 : List KVal) (hf : allFixed cols = true)
    (h1 : rowWF cols r1 = true) (h2 : rowWF cols r2 = true) :
    lexLt (encodeRow cols r1) (encodeRow cols r2) = Spec.rowLt cols r1 r2 := by
  induction cols generalizing r1 r2 with
  | nil =>
    cases r1 <;> cases r2 <;> simp_all [rowWF, encodeRow, Spec.rowLt, lexLt]
  | cons c cs ih =>
    cases r1 with
    | nil => simp [rowWF] at h1
    | cons a as =>
      cases r2 with
      | nil => simp [rowWF] at h2
      | cons b bs =>
        simp only [rowWF, Bool.and_eq_true] at h1 h2
        simp only [allFixed, Bool.and_eq_true] at hf
        rw [Bool.eq_iff_iff]
        simp only [encodeRow, Spec.rowLt]
        rw [lexLt_append _ _ _ _ (by rw [encodeCol_length _ _ hf.1, encodeCol_length _ _ hf.1]),
          encodeCol_lt c a b hf.1 h1.1 h2.1, encodeCol_eq c a b hf.1 h1.1 h2.1,
          ih as bs hf.2 h1.2 h2.2]
        simp

end GlareModel.SortKey

namespace GlareModel.SortKey

/-! ### Variable-length keys: the 12-byte zero-padded prefix never contradicts the full
byte-wise order (ties are resolved by the heap comparison, `Exec.Sort`). -/

def padTo (k : Nat) (a : List Nat) : List Nat :=
  a.take k ++ List.replicate (k - (a.take k).length) 0

theorem prefix12_eq (a : List Nat) : prefix12 a = padTo 12 a := rfl

theorem padTo_nil (k : Nat) : padTo k [] = List.replicate k 0 := by simp [padTo]

theorem padTo_cons (k x : Nat) (xs : List Nat) : padTo (k + 1) (x :: xs) = x :: padTo k xs := by
  simp [padTo]

theorem padTo_length (k : Nat) (a : List Nat) : (padTo k a).length = k := by
  simp [padTo]; omega

theorem lexLt_zeros (l : List Nat) (k : Nat) (h : l.length = k) :
    lexLt l (List.replicate k 0) = false := by
  induction l generalizing k with
  | nil => subst h; rfl
  | cons x xs ih =>
    subst h
    simp [List.replicate_succ, lexLt, ih xs.length rfl]

theorem padTo_lt (k : Nat) (a b : List Nat) (h : lexLt (padTo k a) (padTo k b) = true) :
    lexLt a b = true := by
  induction k generalizing a b with
  | zero => simp [padTo, lexLt] at h
  | succ k ih =>
    cases a with
    | nil =>
      cases b with
      | nil => rw [lexLt_irrefl] at h; cases h
      | cons y ys => rfl
    | cons x xs =>
      cases b with
      | nil =>
        rw [padTo_cons, padTo_nil, List.replicate_succ] at h
        simp [lexLt, lexLt_zeros _ _ (padTo_length k xs)] at h
      | cons y ys =>
        rw [padTo_cons, padTo_cons] at h
        simp only [lexLt, Bool.or_eq_true, Bool.and_eq_true, decide_eq_true_eq, beq_iff_eq] at h ⊢
        rcases h with h | ⟨h, h'⟩
        · exact Or.inl h
        · exact Or.inr ⟨h, ih xs ys h'⟩

theorem padTo_bytes (k : Nat) (a : List Nat) (ha : Bytes a) : Bytes (padTo k a) := by
  intro x hx
  simp only [padTo, List.mem_append, List.mem_replicate] at hx
  rcases hx with hx | ⟨_, rfl⟩
  · exact ha x (List.mem_of_mem_take hx)
  · decide

/-- String/binary column: whenever the encoded column bytes differ in order, the declared
order (full byte-wise comparison, ASC/DESC) agrees. -/
theorem encodeCol_str_sound (c : KCol) (a b : List Nat) (hs : c.ty = .utf8 ∨ c.ty = .binary)
    (ha : Bytes a) (hb : Bytes b)
    (h : lexLt (encodeCol c (.bytes a)) (encodeCol c (.bytes b)) = true) :
    Spec.colLt c (Spec.key c.ty (.bytes a)) (Spec.key c.ty (.bytes b)) = true := by
  have e : ∀ x, encValue c.ty (.bytes x) = padTo 12 x := by
    intro x; rcases hs with hs | hs <;> rw [hs] <;> rfl
  have k : ∀ x, Spec.key c.ty (.bytes x) = .str x := by
    intro x; rcases hs with hs | hs <;> rw [hs] <;> rfl
  simp only [encodeCol, e, lexLt, Nat.lt_irrefl, decide_false, beq_self_eq_true, Bool.true_and,
    Bool.false_or] at h
  rw [k, k]
  simp only [Spec.colLt]
  cases hd : c.desc
  · simp only [invertIfDesc, hd] at h
    simpa using padTo_lt 12 a b h
  · simp only [invertIfDesc, hd, if_true] at h
    rw [lexLt_invert _ _ (by rw [padTo_length, padTo_length]) (padTo_bytes _ _ ha)
      (padTo_bytes _ _ hb)] at h
    simpa using padTo_lt 12 b a h

end GlareModel.SortKey
