import GlareModel.Core.ExecStack
/-! # Execution stack: the shape invariant and its preservation by `pop_next`

Helper lemmas for `Props/C04.lean` (the property theorems are stated there). -/
namespace GlareModel.Proofs.ExecStack
open GlareModel GlareModel.ExecStack

/-- Operator `j` is done: it has been finalized (a finalize call answered `Finalized` or
`NeedsDrain`) or it answered `Exhausted`. -/
def Done (c : List Call) (j : Nat) : Prop := j ∈ finalizedOps c ∨ j ∈ exhaustedOps c

@[simp] theorem fin_exec (k r) (c : List Call) : finalizedOps (Call.exec k r :: c) = finalizedOps c := by
  simp [finalizedOps]
@[simp] theorem fin_fin_finalized (j) (c : List Call) : finalizedOps (Call.fin j .finalized :: c) = j :: finalizedOps c := by
  simp [finalizedOps]
@[simp] theorem fin_fin_drain (j) (c : List Call) : finalizedOps (Call.fin j .needsDrain :: c) = j :: finalizedOps c := by
  simp [finalizedOps]
@[simp] theorem fin_fin_pending (j) (c : List Call) : finalizedOps (Call.fin j .pending :: c) = finalizedOps c := by
  simp [finalizedOps]
@[simp] theorem exh_fin (j r) (c : List Call) : exhaustedOps (Call.fin j r :: c) = exhaustedOps c := by
  simp [exhaustedOps]
@[simp] theorem exh_exec_exh (k) (c : List Call) : exhaustedOps (Call.exec k .exhausted :: c) = k :: exhaustedOps c := by
  simp [exhaustedOps]
theorem exh_exec_other (k r) (c : List Call) (h : r ≠ .exhausted) : exhaustedOps (Call.exec k r :: c) = exhaustedOps c := by
  cases r <;> simp_all [exhaustedOps]

theorem done_mono (c : List Call) (x : Call) (j : Nat) (h : Done c j) : Done (x :: c) j := by
  unfold Done at *
  cases x with
  | exec k r =>
    cases r <;> simp_all [exh_exec_other]
    all_goals (rcases h with h | h <;> simp [h])
  | fin i r =>
    cases r <;> simp_all
    all_goals (rcases h with h | h <;> simp [h])

theorem mem_finUps (f k : Nat) (t : Instr) : t ∈ finUps f k ↔ ∃ x, t = Instr.finUp x ∧ f ≤ x ∧ x < k := by
  unfold finUps
  simp only [List.mem_map, List.mem_range]
  constructor
  · rintro ⟨i, hi, rfl⟩
    exact ⟨f + i, rfl, by omega, by omega⟩
  · rintro ⟨x, rfl, h1, h2⟩
    exact ⟨x - f, by omega, by congr 1; omega⟩

theorem finUps_nodup (f k : Nat) : (finUps f k).Nodup := by
  unfold finUps
  have h := List.nodup_range (n := k - f)
  unfold List.Nodup at *
  refine List.Pairwise.map _ ?_ h
  intro a b hab heq
  injection heq with heq
  omega

theorem firstUnf_exec (ab : List Instr) (a : Nat) (st : Bool) (k : Nat) :
    firstUnfinalized (ab ++ [Instr.exec a st]) k = a + 1 := by
  simp [firstUnfinalized]

theorem firstUnf_fin (ab : List Instr) (j k : Nat) :
    firstUnfinalized (ab ++ [Instr.fin j]) k = j := by
  simp [firstUnfinalized]

theorem firstUnf_nil (k : Nat) : firstUnfinalized [] k = k + 1 := by
  simp [firstUnfinalized]

theorem finUps_empty (k : Nat) : finUps (k + 1) k = [] := by
  simp [finUps]

/-- The shapes the instruction stack can have (top first). `A`: an operator `a` acts as the start of
the pipeline (the source, or a draining operator), everything up to `a` is done, the rest of the
stack executes operators after `a`. `B`: operator `j` is waiting to be finalized, everything before
`j` is done or has its upstream finalize queued on top of the stack. -/
inductive Shape (n : Nat) (c : List Call) : List Instr → Prop
  | A (a : Nat) (above : List Instr)
      (ha : a < n)
      (hd : ∀ j, 1 ≤ j → j ≤ a → Done c j)
      (hf : ∀ x ∈ finalizedOps c, x ≤ a)
      (hab : ∀ t ∈ above, ∃ i, t = Instr.exec i false ∧ a < i ∧ i < n) :
      Shape n c (above ++ [Instr.exec a true])
  | B (j : Nat) (ups execs : List Instr)
      (hj1 : 1 ≤ j) (hjn : j < n)
      (hd : ∀ x, 1 ≤ x → x < j → Done c x ∨ Instr.finUp x ∈ ups)
      (hf : ∀ x ∈ finalizedOps c, x < j)
      (hu : ∀ t ∈ ups, ∃ m, t = Instr.finUp m ∧ m < j ∧ m ∉ finalizedOps c)
      (hnd : ups.Nodup)
      (he : ∀ t ∈ execs, ∃ i, t = Instr.exec i false ∧ j ≤ i ∧ i < n) :
      Shape n c (ups ++ execs ++ [Instr.fin j])

/-- What a step must establish, by the control flow it returns. -/
def Post (n : Nat) (c : List Call) (stack : List Instr) (fl : Flow) : Prop :=
  match fl with
  | .error => True
  | .finished => (∀ j, 1 ≤ j → j < n → Done c j) ∧ (finalizedOps c).Nodup
  | _ => Shape n c stack ∧ (finalizedOps c).Nodup

/-- Executing operator `i` (not the pipeline start) on top of a stack `rest` whose bottom says that
operators `[1, u)` are done and `u ≤ i`. `mk` rebuilds the shape for a new list of executes. -/
theorem exec_nonstart (n : Nat) (c : List Call) (rest : List Instr) (i u : Nat) (b : Nat)
    (hi : i < n) (hui : u ≤ i)
    (hfu : firstUnfinalized rest i = u)
    (hdone : ∀ x, 1 ≤ x → x < u → Done c x)
    (hfin : ∀ x ∈ finalizedOps c, x < u)
    (hnd : (finalizedOps c).Nodup)
    (keep : ∀ (c' : List Call), finalizedOps c' = finalizedOps c → (∀ x, Done c x → Done c' x) →
       ∀ extra : List Instr, (∀ t ∈ extra, ∃ i', t = Instr.exec i' false ∧ i ≤ i' ∧ i' < n) → Shape n c' (extra ++ rest))
    (r : List Instr × Call × Flow × Bool) (hr : r = stepInstr true n rest (Instr.exec i false) b) :
    Post n (r.2.1 :: c) r.1 r.2.2.1 := by
  unfold stepInstr at hr
  cases hp : peOf b with
  | ready =>
    simp only [hp] at hr
    by_cases hk : i = n - 1
    · simp [hk] at hr
      subst hr
      refine ⟨?_, by simpa using hnd⟩
      have := keep (Call.exec (n - 1) .ready :: c) (by simp) (fun x hx => done_mono _ _ _ hx) [] (by simp)
      simpa using this
    · have hk' : (i != n - 1) = true := by simpa using hk
      simp [hk'] at hr
      subst hr
      refine ⟨?_, by simpa using hnd⟩
      have := keep (Call.exec i .ready :: c) (by simp) (fun x hx => done_mono _ _ _ hx) [Instr.exec (i + 1) false]
        (by intro t ht; simp at ht; exact ⟨i + 1, ht, by omega, by omega⟩)
      simpa using this
  | pending =>
    simp only [hp] at hr
    subst hr
    refine ⟨?_, by simpa using hnd⟩
    have := keep (Call.exec i .pending :: c) (by simp) (fun x hx => done_mono _ _ _ hx) [Instr.exec i false]
      (by intro t ht; simp at ht; exact ⟨i, ht, by omega, hi⟩)
    simpa using this
  | needsMore =>
    simp only [hp] at hr
    subst hr
    refine ⟨?_, by simpa using hnd⟩
    have := keep (Call.exec i .needsMore :: c) (by simp) (fun x hx => done_mono _ _ _ hx) [] (by simp)
    simpa using this
  | hasMore =>
    simp only [hp] at hr
    by_cases hk : i = n - 1
    · simp [hk] at hr
      subst hr
      trivial
    · have hk' : (i != n - 1) = true := by simpa using hk
      simp [hk'] at hr
      subst hr
      refine ⟨?_, by simpa using hnd⟩
      have := keep (Call.exec i .hasMore :: c) (by simp) (fun x hx => done_mono _ _ _ hx) [Instr.exec (i + 1) false, Instr.exec i false]
        (by
          intro t ht
          simp at ht
          rcases ht with ht | ht
          · exact ⟨i + 1, ht, by omega, by omega⟩
          · exact ⟨i, ht, by omega, hi⟩)
      simpa using this
  | exhausted =>
    simp only [hp] at hr
    by_cases hk : i = n - 1
    · simp [hk] at hr
      subst hr
      trivial
    · have hk' : (i == n - 1) = false := by simpa using hk
      simp [hk', hfu] at hr
      subst hr
      refine ⟨?_, by simpa using hnd⟩
      have hsh := Shape.B (n := n) (c := Call.exec i .exhausted :: c) (i + 1) (finUps u i) [Instr.exec (i + 1) false]
        (by omega) (by omega)
        (by
          intro x hx1 hx2
          by_cases hxu : x < u
          · exact Or.inl (done_mono _ _ _ (hdone x hx1 hxu))
          · by_cases hxi : x = i
            · subst hxi
              exact Or.inl (Or.inr (by simp))
            · exact Or.inr ((mem_finUps u i _).mpr ⟨x, rfl, by omega, by omega⟩))
        (by intro x hx; simp at hx; have := hfin x hx; omega)
        (by
          intro t ht
          obtain ⟨x, rfl, h1, h2⟩ := (mem_finUps u i t).mp ht
          refine ⟨x, rfl, by omega, ?_⟩
          intro hx
          simp at hx
          have := hfin x hx
          omega)
        (finUps_nodup u i)
        (by intro t ht; simp at ht; exact ⟨i + 1, ht, by omega, by omega⟩)
      simpa using hsh


/-- Executing the operator that acts as the start of the pipeline (it is alone on the stack). -/
theorem exec_start (n : Nat) (c : List Call) (a : Nat) (b : Nat)
    (ha : a < n)
    (hd : ∀ j, 1 ≤ j → j ≤ a → Done c j)
    (hf : ∀ x ∈ finalizedOps c, x ≤ a)
    (hnd : (finalizedOps c).Nodup)
    (r : List Instr × Call × Flow × Bool) (hr : r = stepInstr true n [] (Instr.exec a true) b)
    (hb : r.2.2.2 = false) :
    Post n (r.2.1 :: c) r.1 r.2.2.1 := by
  unfold stepInstr at hr
  have mkA : ∀ (c' : List Call), finalizedOps c' = finalizedOps c → (∀ x, Done c x → Done c' x) →
      ∀ above : List Instr, (∀ t ∈ above, ∃ i, t = Instr.exec i false ∧ a < i ∧ i < n) →
      Shape n c' (above ++ [Instr.exec a true]) := by
    intro c' hc' hdm above hab
    exact Shape.A a above ha (fun j h1 h2 => hdm _ (hd j h1 h2)) (by rw [hc']; exact hf) hab
  cases hp : peOf b with
  | ready =>
    simp only [hp] at hr
    by_cases hk : a = n - 1
    · simp [hk] at hr
      subst hr
      refine ⟨?_, by simpa using hnd⟩
      have := mkA (Call.exec a .ready :: c) (by simp) (fun x hx => done_mono _ _ _ hx) [] (by simp)
      simpa [hk] using this
    · have hk' : (a != n - 1) = true := by simpa using hk
      simp [hk'] at hr
      subst hr
      refine ⟨?_, by simpa using hnd⟩
      have := mkA (Call.exec a .ready :: c) (by simp) (fun x hx => done_mono _ _ _ hx) [Instr.exec (a + 1) false]
        (by intro t ht; simp at ht; exact ⟨a + 1, ht, by omega, by omega⟩)
      simpa using this
  | pending =>
    simp only [hp] at hr
    subst hr
    refine ⟨?_, by simpa using hnd⟩
    have := mkA (Call.exec a .pending :: c) (by simp) (fun x hx => done_mono _ _ _ hx) [] (by simp)
    simpa using this
  | needsMore =>
    simp only [hp] at hr
    subst hr
    simp at hb
  | hasMore =>
    simp only [hp] at hr
    by_cases hk : a = n - 1
    · simp [hk] at hr
      subst hr
      trivial
    · have hk' : (a != n - 1) = true := by simpa using hk
      simp [hk'] at hr
      subst hr
      refine ⟨?_, by simpa using hnd⟩
      have := mkA (Call.exec a .hasMore :: c) (by simp) (fun x hx => done_mono _ _ _ hx) [Instr.exec (a + 1) false]
        (by intro t ht; simp at ht; exact ⟨a + 1, ht, by omega, by omega⟩)
      simpa using this
  | exhausted =>
    simp only [hp] at hr
    by_cases hk : a = n - 1
    · simp [hk] at hr
      subst hr
      trivial
    · have hk' : (a == n - 1) = false := by simpa using hk
      simp [hk', firstUnf_nil, finUps_empty] at hr
      subst hr
      refine ⟨?_, by simpa using hnd⟩
      have hsh := Shape.B (n := n) (c := Call.exec a .exhausted :: c) (a + 1) [] [Instr.exec (a + 1) false]
        (by omega) (by omega)
        (by
          intro x hx1 hx2
          by_cases hxa : x = a
          · subst hxa
            exact Or.inl (Or.inr (by simp))
          · exact Or.inl (done_mono _ _ _ (hd x hx1 (by omega))))
        (by intro x hx; simp at hx; have := hf x hx; omega)
        (by simp) (by simp)
        (by intro t ht; simp at ht; exact ⟨a + 1, ht, by omega, by omega⟩)
      simpa using hsh

/-- The queued finalize of an operator before an exhausted one. -/
theorem finUp_step (n : Nat) (c : List Call) (j m : Nat) (ups execs : List Instr) (b : Nat)
    (hj1 : 1 ≤ j) (hjn : j < n)
    (hd : ∀ x, 1 ≤ x → x < j → Done c x ∨ Instr.finUp x ∈ Instr.finUp m :: ups)
    (hf : ∀ x ∈ finalizedOps c, x < j)
    (hu : ∀ t ∈ Instr.finUp m :: ups, ∃ m', t = Instr.finUp m' ∧ m' < j ∧ m' ∉ finalizedOps c)
    (hndu : (Instr.finUp m :: ups).Nodup)
    (he : ∀ t ∈ execs, ∃ i, t = Instr.exec i false ∧ j ≤ i ∧ i < n)
    (hnd : (finalizedOps c).Nodup)
    (r : List Instr × Call × Flow × Bool) (hr : r = stepInstr true n (ups ++ execs ++ [Instr.fin j]) (Instr.finUp m) b) :
    Post n (r.2.1 :: c) r.1 r.2.2.1 := by
  unfold stepInstr at hr
  obtain ⟨m', hm', hmj, hmf⟩ := hu (Instr.finUp m) (by simp)
  injection hm' with hm'
  subst hm'
  have hm_notin : Instr.finUp m ∉ ups := (List.nodup_cons.mp hndu).1
  have hups_nd : ups.Nodup := (List.nodup_cons.mp hndu).2
  -- the successful finalize: m moves from the stack to the finalized operators
  have fin_ok : ∀ (pf : PF), (pf = .finalized ∨ pf = .needsDrain) →
      Shape n (Call.fin m pf :: c) (ups ++ execs ++ [Instr.fin j]) ∧ (finalizedOps (Call.fin m pf :: c)).Nodup := by
    intro pf hpf
    have hfo : finalizedOps (Call.fin m pf :: c) = m :: finalizedOps c := by
      rcases hpf with h | h <;> subst h <;> simp
    refine ⟨?_, by rw [hfo]; exact List.nodup_cons.mpr ⟨hmf, hnd⟩⟩
    refine Shape.B j ups execs hj1 hjn ?_ ?_ ?_ hups_nd he
    · intro x hx1 hx2
      rcases hd x hx1 hx2 with h | h
      · exact Or.inl (done_mono _ _ _ h)
      · rcases List.mem_cons.mp h with h | h
        · injection h with h
          subst h
          exact Or.inl (Or.inl (by rw [hfo]; simp))
        · exact Or.inr h
    · intro x hx
      rw [hfo] at hx
      rcases List.mem_cons.mp hx with h | h
      · omega
      · exact hf x h
    · intro t ht
      obtain ⟨m', rfl, h1, h2⟩ := hu t (List.mem_cons_of_mem _ ht)
      refine ⟨m', rfl, h1, ?_⟩
      rw [hfo]
      intro hx
      rcases List.mem_cons.mp hx with h | h
      · subst h
        exact hm_notin ht
      · exact h2 h
  cases hp : pfOf b with
  | finalized =>
    simp only [hp] at hr
    subst hr
    exact fin_ok .finalized (Or.inl rfl)
  | needsDrain =>
    simp only [hp] at hr
    subst hr
    exact fin_ok .needsDrain (Or.inr rfl)
  | pending =>
    simp only [hp] at hr
    subst hr
    refine ⟨?_, by simpa using hnd⟩
    have := Shape.B (n := n) (c := Call.fin m .pending :: c) j (Instr.finUp m :: ups) execs hj1 hjn
      (by
        intro x hx1 hx2
        rcases hd x hx1 hx2 with h | h
        · exact Or.inl (done_mono _ _ _ h)
        · exact Or.inr h)
      (by simpa using hf) (by simpa using hu) hndu he
    simpa using this

/-- Finalizing operator `j` (alone on the stack). -/
theorem fin_step (n : Nat) (c : List Call) (j : Nat) (b : Nat)
    (hj1 : 1 ≤ j) (hjn : j < n)
    (hd : ∀ x, 1 ≤ x → x < j → Done c x)
    (hf : ∀ x ∈ finalizedOps c, x < j)
    (hnd : (finalizedOps c).Nodup)
    (r : List Instr × Call × Flow × Bool) (hr : r = stepInstr true n [] (Instr.fin j) b) :
    Post n (r.2.1 :: c) r.1 r.2.2.1 := by
  unfold stepInstr at hr
  have hjf : j ∉ finalizedOps c := fun h => by have := hf j h; omega
  cases hp : pfOf b with
  | finalized =>
    simp only [hp] at hr
    by_cases hk : j = n - 1
    · simp [hk] at hr
      subst hr
      refine ⟨?_, ?_⟩
      · intro x hx1 hx2
        by_cases hxj : x = j
        · subst hxj
          exact Or.inl (by simp [hk])
        · exact done_mono _ _ _ (hd x hx1 (by omega))
      · simp only [fin_fin_finalized]
        exact List.nodup_cons.mpr ⟨by rw [← hk]; exact hjf, hnd⟩
    · have hk' : (j == n - 1) = false := by simpa using hk
      simp [hk'] at hr
      subst hr
      refine ⟨?_, by simp only [fin_fin_finalized]; exact List.nodup_cons.mpr ⟨hjf, hnd⟩⟩
      have := Shape.B (n := n) (c := Call.fin j .finalized :: c) (j + 1) [] [] (by omega) (by omega)
        (by
          intro x hx1 hx2
          by_cases hxj : x = j
          · subst hxj
            exact Or.inl (Or.inl (by simp))
          · exact Or.inl (done_mono _ _ _ (hd x hx1 (by omega))))
        (by
          intro x hx
          simp at hx
          rcases hx with h | h
          · omega
          · have := hf x h; omega)
        (by simp) (by simp) (by simp)
      simpa using this
  | needsDrain =>
    simp only [hp] at hr
    by_cases hk : j = n - 1
    · simp [hk] at hr
      subst hr
      trivial
    · have hk' : (j == n - 1) = false := by simpa using hk
      simp [hk'] at hr
      subst hr
      refine ⟨?_, by simp only [fin_fin_drain]; exact List.nodup_cons.mpr ⟨hjf, hnd⟩⟩
      have := Shape.A (n := n) (c := Call.fin j .needsDrain :: c) j [] hjn
        (by
          intro x hx1 hx2
          by_cases hxj : x = j
          · subst hxj
            exact Or.inl (by simp)
          · exact done_mono _ _ _ (hd x hx1 (by omega)))
        (by
          intro x hx
          simp at hx
          rcases hx with h | h
          · omega
          · have := hf x h; omega)
        (by simp)
      simpa using this
  | pending =>
    simp only [hp] at hr
    subst hr
    refine ⟨?_, by simpa using hnd⟩
    have := Shape.B (n := n) (c := Call.fin j .pending :: c) j [] [] hj1 hjn
      (by intro x hx1 hx2; exact Or.inl (done_mono _ _ _ (hd x hx1 hx2)))
      (by simpa using hf) (by simp) (by simp) (by simp)
    simpa using this


/-- Every `pop_next` of the repaired stack keeps the shape invariant (or ends the run). -/
theorem stepInstr_post (n : Nat) (c : List Call) (top : Instr) (rest : List Instr) (b : Nat)
    (hs : Shape n c (top :: rest)) (hnd : (finalizedOps c).Nodup)
    (r : List Instr × Call × Flow × Bool) (hr : r = stepInstr true n rest top b)
    (hb : r.2.2.2 = false) :
    Post n (r.2.1 :: c) r.1 r.2.2.1 := by
  generalize hst : top :: rest = st at hs
  cases hs with
  | A a above ha hd hf hab =>
    cases above with
    | nil =>
      simp at hst
      obtain ⟨h1, h2⟩ := hst
      subst h1 h2
      exact exec_start n c a b ha hd hf hnd r hr hb
    | cons t ab =>
      simp at hst
      obtain ⟨h1, h2⟩ := hst
      subst h1 h2
      obtain ⟨i, rfl, hai, hin⟩ := hab top (by simp)
      refine exec_nonstart n c _ i (a + 1) b hin (by omega) (firstUnf_exec _ _ _ _)
        (fun x h1 h2 => hd x h1 (by omega)) (fun x hx => by have := hf x hx; omega) hnd ?_ r hr
      intro c' hc' hdm extra hex
      have := Shape.A (n := n) (c := c') a (extra ++ ab) ha (fun j h1 h2 => hdm _ (hd j h1 h2)) (by rw [hc']; exact hf)
        (by
          intro t ht
          rcases List.mem_append.mp ht with h | h
          · obtain ⟨i', rfl, h1, h2⟩ := hex t h
            exact ⟨i', rfl, by omega, h2⟩
          · exact hab t (List.mem_cons_of_mem _ h))
      simpa [List.append_assoc] using this
  | B j ups execs hj1 hjn hd hf hu hndu he =>
    cases ups with
    | cons u ups' =>
      simp at hst
      obtain ⟨h1, h2⟩ := hst
      subst h1
      obtain ⟨m, rfl, _, _⟩ := hu top (by simp)
      have hr' : r = stepInstr true n (ups' ++ execs ++ [Instr.fin j]) (Instr.finUp m) b := by
        rw [hr, h2]; simp [List.append_assoc]
      exact finUp_step n c j m ups' execs b hj1 hjn hd hf hu hndu he hnd r hr'
    | nil =>
      cases execs with
      | cons e ex' =>
        simp at hst
        obtain ⟨h1, h2⟩ := hst
        subst h1 h2
        obtain ⟨i, rfl, hji, hin⟩ := he top (by simp)
        refine exec_nonstart n c _ i j b hin hji (firstUnf_fin _ _ _)
          (fun x h1 h2 => by
            rcases hd x h1 h2 with h | h
            · exact h
            · simp at h)
          hf hnd ?_ r hr
        intro c' hc' hdm extra hex
        have := Shape.B (n := n) (c := c') j [] (extra ++ ex') hj1 hjn
          (fun x h1 h2 => by
            rcases hd x h1 h2 with h | h
            · exact Or.inl (hdm _ h)
            · simp at h)
          (by rw [hc']; exact hf) (by simp) (by simp)
          (by
            intro t ht
            rcases List.mem_append.mp ht with h | h
            · obtain ⟨i', rfl, h1, h2⟩ := hex t h
              exact ⟨i', rfl, by omega, h2⟩
            · exact he t (List.mem_cons_of_mem _ h))
        simpa [List.append_assoc] using this
      | nil =>
        simp at hst
        obtain ⟨h1, h2⟩ := hst
        subst h1 h2
        exact fin_step n c j b hj1 hjn
          (fun x h1 h2 => by
            rcases hd x h1 h2 with h | h
            · exact h
            · simp at h)
          hf hnd r hr


/-- The invariant of a whole stack state. -/
def Good (n : Nat) (s : St) : Prop := Post n s.calls s.stack s.flow

theorem shape_ne_nil (n : Nat) (c : List Call) (h : Shape n c []) : False := by
  generalize hst : ([] : List Instr) = st at h
  cases h <;> simp at hst

theorem good_init (n : Nat) (hn : 0 < n) : Good n init := by
  refine ⟨?_, by simp [init, finalizedOps]⟩
  have := Shape.A (n := n) (c := []) 0 [] hn (by intro j h1 h2; omega) (by simp [finalizedOps]) (by simp)
  simpa [init] using this

theorem step_broke_mono (fixed : Bool) (n : Nat) (s : St) (b : Nat) (h : (step fixed n s b).broke = false) : s.broke = false := by
  unfold step at h
  split at h
  · exact h
  · exact h
  · split at h
    · exact h
    · simp at h
      exact h.1

theorem run_broke_mono (fixed : Bool) (n : Nat) (script : List Nat) (s : St)
    (h : (script.foldl (step fixed n) s).broke = false) : s.broke = false := by
  induction script generalizing s with
  | nil => exact h
  | cons b bs ih => exact step_broke_mono fixed n s b (ih _ h)

theorem step_good (n : Nat) (s : St) (b : Nat) (hg : Good n s) (hb : (step true n s b).broke = false) :
    Good n (step true n s b) := by
  unfold step at hb ⊢
  unfold Good Post at hg
  cases hfl : s.flow with
  | finished => simp only [hfl] at hg ⊢; unfold Good Post; simp only [hfl]; exact hg
  | error => simp only [hfl] at hg ⊢; unfold Good Post; simp only [hfl]
  | «continue» =>
    simp only [hfl] at hg hb ⊢
    cases hst : s.stack with
    | nil => rw [hst] at hg; exact (shape_ne_nil _ _ hg.1).elim
    | cons top rest =>
      simp only [hst] at hg hb ⊢
      have hb' : (stepInstr true n rest top b).2.2.2 = false := by
        simp at hb; exact hb.2
      exact stepInstr_post n s.calls top rest b hg.1 hg.2 _ rfl hb'
  | pending =>
    simp only [hfl] at hg hb ⊢
    cases hst : s.stack with
    | nil => rw [hst] at hg; exact (shape_ne_nil _ _ hg.1).elim
    | cons top rest =>
      simp only [hst] at hg hb ⊢
      have hb' : (stepInstr true n rest top b).2.2.2 = false := by
        simp at hb; exact hb.2
      exact stepInstr_post n s.calls top rest b hg.1 hg.2 _ rfl hb'

theorem fold_good (n : Nat) (script : List Nat) (s : St) (hg : Good n s)
    (hb : (script.foldl (step true n) s).broke = false) : Good n (script.foldl (step true n) s) := by
  induction script generalizing s with
  | nil => exact hg
  | cons b bs ih =>
    simp only [List.foldl_cons] at hb ⊢
    exact ih _ (step_good n s b hg (run_broke_mono true n bs _ hb)) hb

end GlareModel.Proofs.ExecStack
