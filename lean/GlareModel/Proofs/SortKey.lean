import GlareModel.Core.SortKey

/-! Helper lemmas for the sort-key order embedding (C08). -/
namespace GlareModel.SortKey

theorem lt_iff_div_mod (a b m : Nat) (hm : 0 < m) :
    a < b ↔ a / m < b / m ∨ (a / m = b / m ∧ a % m < b % m) := by
  have ha := Nat.div_add_mod a m
  have hb := Nat.div_add_mod b m
  constructor
  · intro h
    rcases Nat.lt_or_ge (a / m) (b / m) with h1 | h1
    · exact Or.inl h1
    · right
      have h2 : a / m ≤ b / m := Nat.div_le_div_right (Nat.le_of_lt h)
      have h3 : a / m = b / m := Nat.le_antisymm h2 h1
      refine ⟨h3, ?_⟩
      rw [h3] at ha
      omega
  · rintro (h | ⟨h1, h2⟩)
    · have : m * (a / m + 1) ≤ m * (b / m) := Nat.mul_le_mul_left m h
      have hlt : a % m < m := Nat.mod_lt a hm
      rw [Nat.mul_add, Nat.mul_one] at this
      omega
    · rw [h1] at ha
      omega

@[simp] theorem beBytes_length (n v : Nat) : (beBytes n v).length = n := by
  induction n generalizing v with
  | zero => rfl
  | succ n ih => simp [beBytes, ih]

theorem lexLt_irrefl (a : List Nat) : lexLt a a = false := by
  induction a with
  | nil => rfl
  | cons x xs ih => simp [lexLt, ih]

theorem pow_succ_bound {a n : Nat} (h : a < 256 ^ (n + 1)) : a / 256 ^ n < 256 := by
  have : 0 < 256 ^ n := Nat.pow_pos (by decide)
  rw [Nat.div_lt_iff_lt_mul this]
  rw [Nat.pow_succ] at h
  omega

theorem beBytes_lt_iff (n a b : Nat) (ha : a < 256 ^ n) (hb : b < 256 ^ n) :
    lexLt (beBytes n a) (beBytes n b) = true ↔ a < b := by
  induction n generalizing a b with
  | zero =>
    simp at ha hb
    subst ha hb
    simp [beBytes, lexLt]
  | succ n ih =>
    have hm : 0 < 256 ^ n := Nat.pow_pos (by decide)
    have ha' := pow_succ_bound ha
    have hb' := pow_succ_bound hb
    have iha := ih (a % 256 ^ n) (b % 256 ^ n) (Nat.mod_lt _ hm) (Nat.mod_lt _ hm)
    simp only [beBytes, lexLt, Nat.mod_eq_of_lt ha', Nat.mod_eq_of_lt hb', Bool.or_eq_true,
      Bool.and_eq_true, decide_eq_true_eq, beq_iff_eq, iha]
    exact (lt_iff_div_mod a b (256 ^ n) hm).symm

theorem beBytes_inj (n a b : Nat) (ha : a < 256 ^ n) (hb : b < 256 ^ n)
    (h : beBytes n a = beBytes n b) : a = b := by
  rcases Nat.lt_trichotomy a b with h1 | h1 | h1
  · have := (beBytes_lt_iff n a b ha hb).2 h1
    rw [h, lexLt_irrefl] at this; cases this
  · exact h1
  · have := (beBytes_lt_iff n b a hb ha).2 h1
    rw [h, lexLt_irrefl] at this; cases this

end GlareModel.SortKey

namespace GlareModel.SortKey

theorem xor128 : ∀ b, b < 256 → b ^^^ 128 = if b < 128 then b + 128 else b - 128 := by decide +kernel

/-- Flipping the low `j` bits below a set bit `j`. -/
theorem xor_low_mask (j r : Nat) (hr : r < 2 ^ j) :
    (2 ^ j + r) ^^^ (2 ^ j - 1) = 2 ^ j + (2 ^ j - 1 - r) := by
  have hr' : 2 ^ j - 1 - r < 2 ^ j := by omega
  apply Nat.eq_of_testBit_eq
  intro i
  rw [Nat.testBit_xor, Nat.testBit_two_pow_sub_one]
  rcases Nat.lt_trichotomy i j with h | h | h
  · rw [Nat.testBit_two_pow_add_gt h, Nat.testBit_two_pow_add_gt h]
    have : 2 ^ j - 1 - r = 2 ^ j - (r + 1) := by omega
    rw [this, Nat.testBit_two_pow_sub_succ hr]
    simp [h]
  · subst h
    rw [Nat.testBit_two_pow_add_eq, Nat.testBit_two_pow_add_eq,
      Nat.testBit_lt_two_pow hr, Nat.testBit_lt_two_pow hr']
    simp
  · have hp : 2 ^ (j + 1) ≤ 2 ^ i := Nat.pow_le_pow_right (by decide) h
    have h1 : 2 ^ j + r < 2 ^ i := by rw [Nat.pow_succ] at hp; omega
    have h2 : 2 ^ j + (2 ^ j - 1 - r) < 2 ^ i := by rw [Nat.pow_succ] at hp; omega
    rw [Nat.testBit_lt_two_pow h1, Nat.testBit_lt_two_pow h2]
    simp; omega

theorem pow256 (n : Nat) : 256 ^ n = 2 ^ (8 * n) := by
  rw [Nat.pow_mul]

theorem half_succ (n : Nat) : 256 ^ (n + 1) / 2 = 128 * 256 ^ n := by
  rw [Nat.pow_succ]; omega

/-- The signed encoding is the big-endian encoding of the value shifted by half the range. -/
theorem encSigned_eq (n a : Nat) (ha : a < 256 ^ (n + 1)) :
    encSigned (n + 1) a =
      beBytes (n + 1) (if a < 256 ^ (n + 1) / 2 then a + 256 ^ (n + 1) / 2 else a - 256 ^ (n + 1) / 2) := by
  have hm : 0 < 256 ^ n := Nat.pow_pos (by decide)
  have ha' := pow_succ_bound ha
  rw [half_succ]
  have hlt : a < 128 * 256 ^ n ↔ a / 256 ^ n < 128 := by
    rw [Nat.div_lt_iff_lt_mul hm]
  simp only [encSigned, beBytes, flipFirst, Nat.mod_eq_of_lt ha']
  rw [xor128 _ ha']
  by_cases h : a / 256 ^ n < 128
  · have h' := hlt.2 h
    simp only [h, h', if_true]
    have e1 : (a + 128 * 256 ^ n) / 256 ^ n = a / 256 ^ n + 128 := Nat.add_mul_div_right _ _ hm
    have e2 : (a + 128 * 256 ^ n) % 256 ^ n = a % 256 ^ n := Nat.add_mul_mod_self_right _ _ _
    have e3 : (a / 256 ^ n + 128) % 256 = a / 256 ^ n + 128 := Nat.mod_eq_of_lt (by omega)
    rw [e1, e2, e3]
  · have h' : ¬ a < 128 * 256 ^ n := fun x => h (hlt.1 x)
    simp only [h, h', if_false]
    have hge : 128 * 256 ^ n ≤ a := Nat.le_of_not_lt h'
    obtain ⟨c, hc⟩ : ∃ c, a = c + 128 * 256 ^ n := ⟨a - 128 * 256 ^ n, by omega⟩
    have e1 : (c + 128 * 256 ^ n) / 256 ^ n = c / 256 ^ n + 128 := Nat.add_mul_div_right _ _ hm
    have e2 : (c + 128 * 256 ^ n) % 256 ^ n = c % 256 ^ n := Nat.add_mul_mod_self_right _ _ _
    subst hc
    rw [e1, e2, Nat.add_sub_cancel, Nat.add_sub_cancel]
    have : c / 256 ^ n < 128 := by rw [e1] at ha'; omega
    have e3 : c / 256 ^ n % 256 = c / 256 ^ n := Nat.mod_eq_of_lt (by omega)
    rw [e3]

/-- Order embedding of the signed encoding (every width). -/
theorem encSigned_lt_iff (n a b : Nat) (ha : a < 256 ^ (n + 1)) (hb : b < 256 ^ (n + 1)) :
    lexLt (encSigned (n + 1) a) (encSigned (n + 1) b) = true ↔
      Spec.toInt (n + 1) a < Spec.toInt (n + 1) b := by
  rw [encSigned_eq n a ha, encSigned_eq n b hb]
  have hh : 256 ^ (n + 1) / 2 + 256 ^ (n + 1) / 2 = 256 ^ (n + 1) := by
    rw [half_succ, Nat.pow_succ]; omega
  rw [beBytes_lt_iff]
  · unfold Spec.toInt
    split <;> split <;> omega
  · split <;> omega
  · split <;> omega

theorem encSigned_inj (n a b : Nat) (ha : a < 256 ^ (n + 1)) (hb : b < 256 ^ (n + 1))
    (h : encSigned (n + 1) a = encSigned (n + 1) b) : a = b := by
  rw [encSigned_eq n a ha, encSigned_eq n b hb] at h
  have hh : 256 ^ (n + 1) / 2 + 256 ^ (n + 1) / 2 = 256 ^ (n + 1) := by
    rw [half_succ, Nat.pow_succ]; omega
  have := beBytes_inj (n + 1) _ _ (by split <;> omega) (by split <;> omega) h
  split at this <;> split at this <;> omega

end GlareModel.SortKey

namespace GlareModel.SortKey

/-- The float transformation with shift `k = width - 1`: identity on non-negative patterns,
flips all magnitude bits of negative ones. -/
theorem float_xform (m bits : Nat) (h : bits < 256 ^ (m + 1)) :
    bits ^^^ (asr (8 * (m + 1)) (8 * (m + 1) - 1) bits >>> 1) =
      if bits < 256 ^ (m + 1) / 2 then bits
      else 256 ^ (m + 1) / 2 + (256 ^ (m + 1) / 2 - 1 - (bits - 256 ^ (m + 1) / 2)) := by
  have hw : 8 * (m + 1) = (8 * m + 7) + 1 := by omega
  have hhalf : 256 ^ (m + 1) / 2 = 2 ^ (8 * m + 7) := by
    rw [pow256, hw, Nat.pow_succ]; omega
  have hfull : 256 ^ (m + 1) = 2 ^ (8 * m + 7) * 2 := by
    rw [pow256, hw, Nat.pow_succ]
  have hpos : 0 < 2 ^ (8 * m + 7) := Nat.pow_pos (by decide)
  rw [hhalf]
  unfold asr
  rw [hw]
  simp only [Nat.add_sub_cancel]
  by_cases hb : bits < 2 ^ (8 * m + 7)
  · simp only [hb, if_true]
    simp only [Nat.shiftRight_eq_div_pow, Nat.div_eq_of_lt hb]
    simp
  · simp only [hb, if_false]
    have hge : 2 ^ (8 * m + 7) ≤ bits := Nat.le_of_not_lt hb
    have hdiv : bits / 2 ^ (8 * m + 7) = 1 := by
      apply Nat.div_eq_of_lt_le <;> omega
    have h1 : (8 * m + 7 + 1) - (8 * m + 7) = 1 := by omega
    simp only [Nat.shiftRight_eq_div_pow, hdiv, h1]
    rw [Nat.pow_succ]
    have e : (1 + (2 ^ (8 * m + 7) * 2 - 2 ^ 1)) / 2 ^ 1 = 2 ^ (8 * m + 7) - 1 := by omega
    rw [e]
    obtain ⟨r, hr⟩ : ∃ r, bits = 2 ^ (8 * m + 7) + r := ⟨bits - 2 ^ (8 * m + 7), by omega⟩
    subst hr
    rw [xor_low_mask _ _ (by omega)]
    omega

theorem float_xform_lt (m bits : Nat) (h : bits < 256 ^ (m + 1)) :
    bits ^^^ (asr (8 * (m + 1)) (8 * (m + 1) - 1) bits >>> 1) < 256 ^ (m + 1) := by
  rw [float_xform m bits h]
  have hh : 256 ^ (m + 1) / 2 + 256 ^ (m + 1) / 2 = 256 ^ (m + 1) := by
    rw [half_succ, Nat.pow_succ]; omega
  have hpos : 0 < 256 ^ (m + 1) / 2 := by
    rw [half_succ]; exact Nat.mul_pos (by decide) (Nat.pow_pos (by decide))
  split <;> omega

theorem float_xform_toInt (m bits : Nat) (h : bits < 256 ^ (m + 1)) :
    Spec.toInt (m + 1) (bits ^^^ (asr (8 * (m + 1)) (8 * (m + 1) - 1) bits >>> 1)) =
      Spec.floatOrd (m + 1) bits := by
  rw [float_xform m bits h]
  have hh : 256 ^ (m + 1) / 2 + 256 ^ (m + 1) / 2 = 256 ^ (m + 1) := by
    rw [half_succ, Nat.pow_succ]; omega
  unfold Spec.toInt Spec.floatOrd
  by_cases hb : bits < 256 ^ (m + 1) / 2
  · simp [hb]
  · have h2 : ¬ (256 ^ (m + 1) / 2 + (256 ^ (m + 1) / 2 - 1 - (bits - 256 ^ (m + 1) / 2)) < 256 ^ (m + 1) / 2) := by
      omega
    simp only [hb, h2, if_false]
    omega

/-- Order embedding of the float encoding with the shift `8n-1` (every width):
keys compare like the IEEE total order. -/
theorem encFloat_lt_iff (m a b : Nat) (ha : a < 256 ^ (m + 1)) (hb : b < 256 ^ (m + 1)) :
    lexLt (encFloat (m + 1) (8 * (m + 1) - 1) a) (encFloat (m + 1) (8 * (m + 1) - 1) b) = true ↔
      Spec.floatOrd (m + 1) a < Spec.floatOrd (m + 1) b := by
  unfold encFloat
  rw [encSigned_lt_iff m _ _ (float_xform_lt m a ha) (float_xform_lt m b hb),
    float_xform_toInt m a ha, float_xform_toInt m b hb]

theorem floatOrd_inj (n a b : Nat)
    (h : Spec.floatOrd n a = Spec.floatOrd n b) : a = b := by
  unfold Spec.floatOrd at h
  split at h <;> split at h <;> omega

theorem toInt_inj (n a b : Nat) (ha : a < 256 ^ n) (hb : b < 256 ^ n)
    (h : Spec.toInt n a = Spec.toInt n b) : a = b := by
  unfold Spec.toInt at h
  split at h <;> split at h <;> omega

end GlareModel.SortKey
