/-! # Hash-aggregate directory: capacity bookkeeping (`hash_aggregate/hash_table/directory.rs`, `base.rs`)

`find_or_create_groups` receives a batch of `n` rows. If `(occupied + n) * 10 > capacity * 7` the
directory is first resized to `max(2 * capacity, n + capacity)` rounded up to a power of two; then
every row probes linearly from `hash & (capacity - 1)` and either finds its group or claims an
empty slot. The probe loop gives up ("Hash table completely full") after `capacity` steps, so the
table must never fill up completely. This file models only the numbers. -/
namespace GlareModel.Directory

/-- Smallest power of two `≥ n` (for `n ≥ 1`), by doubling with fuel. -/
def nextPow2From (p n fuel : Nat) : Nat :=
  match fuel with
  | 0 => p
  | fuel + 1 => if n ≤ p then p else nextPow2From (2 * p) n fuel

def nextPow2 (n : Nat) : Nat := nextPow2From 1 n n

structure Dir where
  cap : Nat
  occupied : Nat
  deriving Repr, DecidableEq

def needsResize (d : Dir) (n : Nat) : Bool := (d.occupied + n) * 10 > d.cap * 7

/-- One batch of `n` rows of which `newGroups ≤ n` claim a fresh slot. -/
def batch (d : Dir) (n newGroups : Nat) : Dir :=
  let cap' := if needsResize d n then nextPow2 (max (d.cap * 2) (n + d.cap)) else d.cap
  { cap := cap', occupied := d.occupied + min newGroups n }

def init : Dir := { cap := 512, occupied := 0 }

end GlareModel.Directory
