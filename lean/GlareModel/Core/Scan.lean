/-
`Scan`: models for scan pushdown and multi-file scans (DESIGN 5/C11).
* `queue` - which files (or row groups) of the expanded list go to partition `p` of `P`
  (`expanded.iter().skip(p).step_by(P)` in read_csv.rs / read_text.rs / scan.rs, and
  `rg.idx % partitions` for the row groups of the first Parquet file).
* `pruneLoop` / `shouldPrune` - `PrimitiveRowGroupPruner::should_prune`
  (`glaredb_ext_parquet/src/column/row_group_pruner.rs`): statistics must be exact on both ends;
  the constants of the pushed `col = constant` conjuncts are compared with min/max after the
  `as_()` cast into the comparison type; a NULL constant stops pruning.
-/
namespace GlareModel.Scan

/-- Elements of `xs` whose index is congruent to `p` modulo `P`, in order. -/
def queue (P p : Nat) (xs : List α) : List α :=
  (xs.zipIdx.filter fun e => e.2 % P == p).map (·.1)

universe u
variable {α : Type u}

/-- `Iterator::step_by(P)`: the first element, then every `P`-th one. -/
def stepBy (P : Nat) : List α → List α
  | [] => []
  | x :: xs => x :: stepBy P (xs.drop (P - 1))
termination_by l => l.length
decreasing_by simp only [List.length_drop, List.length_cons]; omega

/-- `expanded.iter().skip(p).step_by(P)` -/
def skipStep (P p : Nat) (xs : List α) : List α := stepBy P (xs.drop p)

def queueFrom (k P r : Nat) (xs : List α) : List α :=
  ((xs.zipIdx k).filter fun e => e.2 % P == r).map (·.1)

structure Stats where
  min : Option Int
  max : Option Int
  minExact : Bool
  maxExact : Bool
  deriving Repr, DecidableEq

/-- The loop over the constant-equality filters: `true` = the row group cannot contain a match. -/
def pruneLoop (lo hi : Int) : List (Option Int) → Bool
  | [] => false
  | none :: _ => false                          -- NULL constant: "I don't know, just skip pruning"
  | some c :: cs => if lo > c then true else if hi < c then true else pruneLoop lo hi cs

/-- `cast` is the `as_()` conversion of the physical statistics into the comparison type. -/
def shouldPrune (cast : Int → Int) (s : Stats) (consts : List (Option Int)) : Bool :=
  if !(s.maxExact && s.minExact) then false
  else match s.min, s.max with
    | some lo, some hi => pruneLoop (cast lo) (cast hi) consts
    | _, _ => false

end GlareModel.Scan
