/-
`Collection`: code-shaped model of `arrays/collection/concurrent.rs` + `segment.rs`
(`ConcurrentColumnCollection`): per-appender pending segment made of chunks of at most
`chunkCap` rows, `flush` moving the pending segment to the shared segment list (one critical
section = one step), sequential and parallel scan states (`scan_inner` with the next segment index
taken from `curr + 1` or from the shared `fetch_add` counter), and the snapshot bound
`max_segment_idx` that `DataTable` scans carry.  Rows are natural numbers (row ids).
-/
namespace GlareModel.Collection

abbrev Chunk := List Nat
abbrev Segment := List Chunk

structure ScanSt where
  nextIdx : Nat
  cur : Option Nat := none      -- index of the segment being read
  chunkIdx : Nat := 0
  parallel : Bool := false
  limit : Option Nat := none    -- `max_segment_idx`
  deriving Repr, DecidableEq, Inhabited

structure St where
  segSize : Nat
  chunkCap : Nat
  segments : List Segment := []
  apps : List Segment := []     -- pending segment of every appender
  scans : List ScanSt := []
  counter : Nat := 0            -- shared `next` of the parallel scan states
  deriving Repr, Inhabited

inductive Op where
  | append (i : Nat) (rows : List Nat)
  | flush (i : Nat)
  | scan (j : Nat)
  | mkSeq (n : Nat) (snapshot : Bool)        -- create n independent sequential scan states
  | mkPar (n : Nat) (snapshot : Bool)        -- create n coordinated parallel scan states
  deriving Repr, Inhabited

/-- `ColumnCollectionSegment::append_batch` for one row: the last chunk takes it if it has room,
otherwise a new chunk is started. -/
def pushRow (cap : Nat) (chunks : Segment) (r : Nat) : Segment :=
  match chunks.getLast? with
  | some last => if last.length < cap then chunks.dropLast ++ [last ++ [r]] else chunks ++ [[r]]
  | none => [[r]]

/-- `append_batch`: at least one chunk exists afterwards, rows are copied in order. -/
def appendBatch (cap : Nat) (chunks : Segment) (rows : List Nat) : Segment :=
  rows.foldl (pushRow cap) (if chunks.isEmpty then [[]] else chunks)

def segRows (s : Segment) : Nat := (s.map List.length).sum

/-- `flush`: the pending segment is replaced by a fresh one; it is published unless it has no rows. -/
def flushApp (s : St) (i : Nat) : St :=
  match s.apps[i]? with
  | none => s
  | some seg =>
    let s' := { s with apps := s.apps.set i [] }
    if segRows seg == 0 then s' else { s' with segments := s'.segments ++ [seg] }

def appendOp (s : St) (i : Nat) (rows : List Nat) : St :=
  match s.apps[i]? with
  | none => s
  | some seg =>
    let seg' := appendBatch s.chunkCap seg rows
    let s' := { s with apps := s.apps.set i seg' }
    if seg'.length ≥ s.segSize then flushApp s' i else s'

/-- `scan_inner` (fuel bounds the loop: each iteration returns or moves to the next segment). -/
def scanLoop (segments : List Segment) (counter : Nat) : Nat → ScanSt → ScanSt × Nat × List Nat
  | 0, sc => (sc, counter, [])
  | fuel + 1, sc =>
    match sc.cur with
    | none =>
      let visible : Bool := match sc.limit with
        | some m => decide (sc.nextIdx < m)
        | none => true
      match segments[sc.nextIdx]? with
      | some _ =>
        if visible then
          let (next, counter') := if sc.parallel then (counter, counter + 1) else (sc.nextIdx + 1, counter)
          scanLoop segments counter' fuel { sc with cur := some sc.nextIdx, nextIdx := next, chunkIdx := 0 }
        else (sc, counter, [])
      | none => (sc, counter, [])
    | some k =>
      match (segments.getD k [])[sc.chunkIdx]? with
      | some c => ({ sc with chunkIdx := sc.chunkIdx + 1 }, counter, c)
      | none => scanLoop segments counter fuel { sc with cur := none }

def scanOp (s : St) (j : Nat) : St × List Nat :=
  match s.scans[j]? with
  | none => (s, [])
  | some sc =>
    let (sc', counter', out) := scanLoop s.segments s.counter (s.segments.length + 3) sc
    ({ s with scans := s.scans.set j sc', counter := counter' }, out)

def step (s : St) : Op → St × List Nat
  | .append i rows => (appendOp s i rows, [])
  | .flush i => (flushApp s i, [])
  | .scan j => scanOp s j
  | .mkSeq n snap =>
    let lim := if snap then some s.segments.length else none
    ({ s with scans := s.scans ++ List.replicate n { nextIdx := 0, limit := lim } }, [])
  | .mkPar n snap =>
    let lim := if snap then some s.segments.length else none
    ({ s with scans := s.scans ++ (List.range n).map fun i => { nextIdx := i, parallel := true, limit := lim },
              counter := n }, [])

def run (s : St) : List Op → List (List Nat)
  | [] => []
  | op :: ops => let (s', out) := step s op; out :: run s' ops

/-! ### The claim protocol of the parallel scan states, abstracted from everything else

`n` scanners; scanner `i` first looks at segment `i`, every later index is taken from the shared
counter that starts at `n` (`CreateParallelStateIter`).  A claim happens under the collection's
lock, so a schedule is a list of scanner ids. -/

structure Claims where
  next : List Nat        -- next index each scanner will look at
  counter : Nat
  log : List Nat         -- claimed indices, in claim order
  deriving Repr

def Claims.init (n : Nat) : Claims := { next := List.range n, counter := n, log := [] }

def claim (c : Claims) (j : Nat) : Claims :=
  match c.next[j]? with
  | none => c
  | some i => { next := c.next.set j c.counter, counter := c.counter + 1, log := c.log ++ [i] }

end GlareModel.Collection
