/-
`Merge`: the two-run merge of the sort operator (`arrays/sort/binary_merge.rs`, `BinaryMerger::merge`)
and the shape of the merge queue (`execution/operators/sort/merge_queue.rs`: runs are merged pairwise
in whatever order partitions finish), on abstract rows with a key comparison.
-/
namespace GlareModel.Merge
universe u
variable {α : Type u}

/-- Two-way merge of two runs by a key comparison (`BinaryMerger::merge`): the left row is taken
while it is not greater than the right one. -/
def merge (le : α → α → Bool) : List α → List α → List α
  | [], ys => ys
  | x :: xs, [] => x :: xs
  | x :: xs, y :: ys => if le x y then x :: merge le xs (y :: ys) else y :: merge le (x :: xs) ys

/-- The order in which the merge queue combines runs: any binary tree over the sorted runs. -/
inductive Tree (α : Type u) where
  | run (rows : List α)
  | node (l r : Tree α)

def Tree.eval (le : α → α → Bool) : Tree α → List α
  | .run rows => rows
  | .node l r => merge le (l.eval le) (r.eval le)

def Tree.rows : Tree α → List α
  | .run rows => rows
  | .node l r => l.rows ++ r.rows

def Tree.RunsSorted (le : α → α → Bool) : Tree α → Prop
  | .run rows => rows.Pairwise (fun a b => le a b = true)
  | .node l r => l.RunsSorted le ∧ r.RunsSorted le

end GlareModel.Merge

