/-
Code-shaped model of integer and decimal arithmetic:
`functions/scalar/builtin/arith/{add,sub,mul,div,rem}.rs`, `negate.rs`, `arith/decimal_arith.rs`,
the operand casts of `functions/cast/builtin/to_decimal.rs` and `SumStateCheckedAdd` of
`functions/aggregate/builtin/sum.rs`.

Values are mathematical integers (`Int`); a fixed-width type is a range. A Rust native
operator (`a + b`, `a / b`, …) is modelled by what it computes when the exact result is
representable and by `trap` otherwise (debug builds panic, release builds wrap): the code at
the pinned commit uses native operators, so `trap` is an outcome of the *model*; the property
(C12) demands an error instead.
-/
namespace GlareModel.Arith

structure IntTy where
  bits : Nat
  signed : Bool
  deriving Repr, DecidableEq, Inhabited

def IntTy.lo (t : IntTy) : Int := if t.signed then -(2 ^ (t.bits - 1) : Nat) else 0
def IntTy.hi (t : IntTy) : Int := if t.signed then (2 ^ (t.bits - 1) : Nat) - 1 else (2 ^ t.bits : Nat) - 1
def IntTy.inRange (t : IntTy) (x : Int) : Bool := t.lo ≤ x && x ≤ t.hi

/-- Two's complement wrap-around (what a release build computes on overflow). -/
def IntTy.wrap (t : IntTy) (x : Int) : Int :=
  let m := x % (2 ^ t.bits : Nat)
  if t.signed && m ≥ (2 ^ (t.bits - 1) : Nat) then m - (2 ^ t.bits : Nat) else m

inductive Trap where
  | overflow
  | divZero
  deriving Repr, DecidableEq, Inhabited

/-- Result of a native Rust operator. -/
inductive Native where
  | val (v : Int)
  | trap (k : Trap)
  deriving Repr, DecidableEq, Inhabited

def exactOr (t : IntTy) (r : Int) : Native :=
  if t.inRange r then .val r else .trap .overflow

def natAdd (t : IntTy) (a b : Int) : Native := exactOr t (a + b)
def natSub (t : IntTy) (a b : Int) : Native := exactOr t (a - b)
def natMul (t : IntTy) (a b : Int) : Native := exactOr t (a * b)
/-- Rust `/` on integers: truncation toward zero; `x / 0` and `MIN / -1` trap. -/
def natDiv (t : IntTy) (a b : Int) : Native :=
  if b = 0 then .trap .divZero else exactOr t (Int.tdiv a b)
/-- Rust `%`: sign of the dividend; `x % 0` and `MIN % -1` trap. -/
def natRem (t : IntTy) (a b : Int) : Native :=
  if b = 0 then .trap .divZero
  else if t.signed && a == t.lo && b == -1 then .trap .overflow
  else .val (Int.tmod a b)
def natNeg (t : IntTy) (a : Int) : Native := exactOr t (-a)

/-! ## Decimals -/

structure DecTy where
  bits : Nat        -- 64 or 128 (storage i64 / i128)
  prec : Nat
  scale : Int
  deriving Repr, DecidableEq, Inhabited

def maxPrec (bits : Nat) : Nat := if bits = 64 then 18 else 38
def DecTy.storage (d : DecTy) : IntTy := ⟨d.bits, true⟩

inductive NumTy where
  | int (t : IntTy)
  | dec (d : DecTy)
  deriving Repr, DecidableEq, Inhabited

/-- `DecimalTypeMeta::new_for_datatype_id` for integer types: (precision, scale 0). -/
def decMetaOfInt (t : IntTy) : Nat :=
  match t.bits with
  | 8 => 3
  | 16 => 5
  | 32 => 10
  | 64 => if t.signed then 19 else 20
  | _ => 38

/-- Outcome of an SQL-level operation. -/
inductive Out where
  | ok (ty : NumTy) (v : Int)
  | err                    -- the engine reports an error
  | trap (k : Trap)        -- native operator overflow / division by zero (panic or wrap)
  | unsupported
  deriving Repr, DecidableEq, Inhabited

/-- `DecimalType::validate_precision`: at most `p` significant digits. -/
def validPrec (v : Int) (p : Nat) : Bool := v.natAbs < 10 ^ p

/-- `IntToDecimal::cast` into `(bits, p, s)` (scale ≥ 0 in generated cases):
`v.checked_mul(10^s)` in the decimal primitive, then `validate_precision`. -/
def intToDec (d : DecTy) (v : Int) : Option Int :=
  let st := d.storage
  if !st.inRange v then none else
  let val := if d.scale > 0 then v * (10 ^ d.scale.toNat : Nat) else Int.tdiv v (10 ^ (-d.scale).toNat : Nat)
  if !st.inRange val then none
  else if validPrec val d.prec then some val else none

/-- `v ± rounding_addition` of the down-scaling branch (`rounding_addition = amt / 2`). -/
def roundAdj (v amt : Int) : Int :=
  if v ≥ 0 then v + Int.tdiv amt 2 else v - Int.tdiv amt 2

/-- The scaling step of `DecimalToDecimal::cast` in the target primitive `st`:
up-scale with `checked_mul`, or down-scale with `(v ± 10^k/2) / 10^k` (truncating division). -/
def rescaleCore (st : IntTy) (diff : Int) (v : Int) : Option Int :=
  if diff < 0 then
    let r := v * (10 ^ (-diff).toNat : Nat)
    if st.inRange r then some r else none
  else if diff > 0 then
    let amt : Int := (10 ^ diff.toNat : Nat)
    if st.inRange (roundAdj v amt) then some (Int.tdiv (roundAdj v amt) amt) else none
  else some v

/-- `DecimalToDecimal::{bind, cast}`: the scale factor `10^|diff|` must fit the target primitive
(`checked_pow`, bind-time error), the value is converted to the target primitive, scaled, and
validated against the target precision (`validate_precision`, added by the F5 fix). -/
def rescale (src dst : DecTy) (v : Int) : Option Int :=
  if !dst.storage.inRange ((10 ^ (src.scale - dst.scale).natAbs : Nat) : Int) then none
  else if !dst.storage.inRange v then none
  else match rescaleCore dst.storage (src.scale - dst.scale) v with
    | some r => if validPrec r dst.prec then some r else none
    | none => none

/-- Inversion lemma for `rescale`. -/
theorem rescale_some {src dst : DecTy} {v r : Int} (h : rescale src dst v = some r) :
    rescaleCore dst.storage (src.scale - dst.scale) v = some r ∧ validPrec r dst.prec = true := by
  unfold rescale at h
  split at h
  · cases h
  · split at h
    · cases h
    · split at h
      · rename_i r' hr
        split at h
        · rename_i hp
          simp only [Option.some.injEq] at h
          subst h
          exact ⟨hr, hp⟩
        · cases h
      · cases h

def metaOf (bits : Nat) : NumTy → Option (Nat × Int)
  | .dec d => if d.bits = bits then some (d.prec, d.scale) else none
  | .int t => some (decMetaOfInt t, 0)

/-- `common_add_sub_decimal_type_info`. -/
def addSubType (bits : Nat) (l r : NumTy) : Option DecTy :=
  match metaOf bits l, metaOf bits r with
  | some (lp, ls), some (rp, rs) =>
    let maxScale := max ls rs
    let lInt : Int := lp - ls
    let rInt : Int := rp - rs
    let newPrec := (max lInt rInt + maxScale + 1).toNat
    some ⟨bits, min newPrec (maxPrec bits), maxScale⟩
  | _, _ => none

/-- Operand cast inserted by `DecimalAdd::bind` / `DecimalSub::bind`. -/
def castTo (dst : DecTy) : NumTy → Int → Option Int
  | .int _, v => intToDec dst v
  | .dec d, v => if d = dst then some v else rescale d dst v

def nativeOut (ty : NumTy) : Native → Out
  | .val v => .ok ty v
  | .trap k => .trap k

def decAddSub (sub : Bool) (bits : Nat) (l : NumTy) (a : Int) (r : NumTy) (b : Int) : Out :=
  match addSubType bits l r with
  | none => .unsupported
  | some rt =>
    match castTo rt l a, castTo rt r b with
    | some x, some y => nativeOut (.dec rt) (if sub then natSub rt.storage x y else natAdd rt.storage x y)
    | _, _ => .err

/-- `DecimalMul::bind` + `execute`. -/
def decMul (bits : Nat) (l : NumTy) (a : Int) (r : NumTy) (b : Int) : Out :=
  match metaOf bits l, metaOf bits r with
  | some (lp, ls), some (rp, rs) =>
    let newScale := ls + rs
    let newPrec := min (lp + rp) (maxPrec bits)
    if newScale > (maxPrec bits : Int) then .err
    else if newScale > (newPrec : Int) then .err
    else
      let rt : DecTy := ⟨bits, newPrec, newScale⟩
      let ca := match l with | .int _ => intToDec ⟨bits, lp, ls⟩ a | .dec _ => some a
      let cb := match r with | .int _ => intToDec ⟨bits, rp, rs⟩ b | .dec _ => some b
      match ca, cb with
      | some x, some y => nativeOut (.dec rt) (natMul rt.storage x y)
      | _, _ => .err
  | _, _ => .unsupported

/-- The decimal width a signature list resolves to for the operand pair (`D_SIGS`). -/
def decBits : NumTy → NumTy → Option Nat
  | .dec a, .dec b => if a.bits = b.bits then some a.bits else none
  | .dec a, .int t => if t.signed && (t.bits < 64 || a.bits = 128) && t.bits ≤ 64 then some a.bits else none
  | .int t, .dec a => if t.signed && (t.bits < 64 || a.bits = 128) && t.bits ≤ 64 then some a.bits else none
  | _, _ => none

def binop (op : String) (l : NumTy) (a : Int) (r : NumTy) (b : Int) : Out :=
  match l, r with
  | .int t, .int t' =>
    if t ≠ t' then .unsupported else
    match op with
    | "+" => nativeOut l (natAdd t a b)
    | "-" => nativeOut l (natSub t a b)
    | "*" => nativeOut l (natMul t a b)
    | "/" => nativeOut l (natDiv t a b)
    | "%" => nativeOut l (natRem t a b)
    | _ => .unsupported
  | _, _ =>
    match decBits l r with
    | none => .unsupported
    | some bits =>
      match op with
      | "+" => decAddSub false bits l a r b
      | "-" => decAddSub true bits l a r b
      | "*" => decMul bits l a r b
      | _ => .unsupported

/-! ## SUM (`SumStateCheckedAdd`) -/

structure SumSt where
  sum : Int
  valid : Bool
  deriving Repr, DecidableEq, Inhabited

inductive SumRes where
  | st (s : SumSt)
  | overflow
  deriving Repr, DecidableEq, Inhabited

def sumInit : SumSt := ⟨0, false⟩

/-- `update`: `checked_add`, an overflow is an error (after the F4 fix). -/
def sumUpdate (t : IntTy) (s : SumSt) (x : Int) : Option SumSt :=
  if t.inRange (s.sum + x) then some ⟨s.sum + x, true⟩ else none

def sumMerge (t : IntTy) (a b : SumSt) : Option SumSt :=
  if t.inRange (a.sum + b.sum) then some ⟨a.sum + b.sum, a.valid || b.valid⟩ else none

def sumFinalize (s : SumSt) : Option Int := if s.valid then some s.sum else none

def sumFold (t : IntTy) (s : SumSt) : List Int → Option SumSt
  | [] => some s
  | x :: xs => match sumUpdate t s x with
    | some s' => sumFold t s' xs
    | none => none

end GlareModel.Arith
