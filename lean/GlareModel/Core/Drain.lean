import GlareModel.Core.Scan
/-
`Drain`: code-shaped model of the hash join's drain of the build side
(`execution/operators/hash_join/hash_table/drain.rs`, `HashTablePartitionDrainState::load_row_ptrs`):
partition `p` walks the row blocks `p, p+P, p+2P, ...`; one call fills one output batch, remembers
`(curr_block_idx, curr_row)` when the batch fills up inside a block, and moves to its next block
(resetting `curr_row`) when a block is exhausted. `keep` selects on the row's `matched` flag
(LEFT: unmatched rows, MARK: every row).
-/
namespace GlareModel.Drain
open GlareModel.Scan
universe u
variable {α : Type u}

/-- A build-side row with its `matched` flag. -/
abbrev Row (α : Type u) := α × Bool

/-- Cursor of one drain partition (`HashTablePartitionDrainState`). -/
structure Cursor where
  block : Nat
  row : Nat
  deriving Repr, DecidableEq

/-- The inner `for row_idx in curr_row..row_count` of `load_row_ptrs`: scan the rows of the current
block from index `i`, push the rows `keep` selects until `need` more have been pushed. Returns the
pushed rows and `some next_row` if the batch filled up inside the block, `none` if the block ran out. -/
def scanBlock (keep : Bool → Bool) : List (Row α) → Nat → Nat → List α × Option Nat
  | [], _, _ => ([], none)
  | (v, m) :: rest, i, need =>
    if keep m then
      if need = 1 then ([v], some (i + 1))
      else
        let r := scanBlock keep rest (i + 1) (need - 1)
        (v :: r.1, r.2)
    else scanBlock keep rest (i + 1) need

/-- `load_row_ptrs`: fill one output batch of capacity `cap` (`fuel` bounds the number of blocks visited). -/
def loadRows (keep : Bool → Bool) (blocks : List (List (Row α))) (P : Nat) : Nat → Cursor → Nat → List α × Cursor
  | 0, c, _ => ([], c)
  | fuel + 1, c, need =>
    match blocks[c.block]? with
    | none => ([], c)                                        -- no more blocks for us
    | some b =>
      match scanBlock keep (b.drop c.row) c.row need with
      | (got, some next) => (got, { c with row := next })   -- batch is full
      | (got, none) =>
        -- block exhausted: move to our next block (`curr_block_idx += partition_count`)
        let r := loadRows keep blocks P fuel { block := c.block + P, row := 0 } (need - got.length)
        (got ++ r.1, r.2)

/-- Drain one partition to exhaustion: repeated `drain_next` calls, each producing one batch. -/
def drainAll (keep : Bool → Bool) (blocks : List (List (Row α))) (P cap : Nat) : Nat → Cursor → List (List α)
  | 0, _ => []
  | fuel + 1, c =>
    let r := loadRows keep blocks P (blocks.length + 1) c cap
    if r.1.isEmpty then [] else r.1 :: drainAll keep blocks P cap fuel r.2

end GlareModel.Drain

