/-! # Thrift compact-protocol varints (`glaredb_ext_parquet/src/thrift.rs`, `read_vlq`)

`read_vlq` accumulates 7 bits per byte, `in_progress |= (byte & 0x7F) << shift; shift += 7`, until a
byte without the continuation bit. The repaired code (F62) rejects the input before a shift by 64 or
more would be evaluated (`checked = true`); the pinned commit shifted regardless, which panics in
debug builds and is undefined for the value in release builds. -/
namespace GlareModel.Varint

inductive Res where
  | ok (value : Nat) (consumed : Nat)
  | eof                         -- the slice ended inside the varint
  | tooLong                     -- more than 10 bytes (repaired code only)
  | shiftOverflow (shift : Nat) -- a shift by `shift ≥ 64` was evaluated (pinned commit)
  deriving Repr, DecidableEq, Inhabited

def readVlqFrom (checked : Bool) (acc shift consumed : Nat) : List Nat → Res
  | [] => .eof
  | b :: bs =>
    if shift ≥ 64 then (if checked then .tooLong else .shiftOverflow shift)
    else
      let acc' := (acc ||| ((b % 128) <<< shift)) % 2 ^ 64
      if b % 256 < 128 then .ok acc' (consumed + 1)
      else readVlqFrom checked acc' (shift + 7) (consumed + 1) bs

def readVlq (checked : Bool) (bytes : List Nat) : Res := readVlqFrom checked 0 0 0 bytes

end GlareModel.Varint
