/-! # Materialize operator: producers append, consumers scan and park (`operators/materialize.rs`)

`poll_push` appends + flushes a batch and wakes every parked consumer; `poll_finalize_push`
decrements `remaining_input_partitions` and wakes every parked consumer. `poll_pull` scans without
the lock; on an empty scan it takes the lock: inputs remaining -> store the waker and return
Pending; no inputs remaining -> **scan a second time** (a producer may have flushed its last rows
and finished between the first scan and the lock) and only then report Exhausted.

One critical section (or one lock-free scan) of the Rust code = one action. -/
namespace GlareModel.Materialize

inductive Phase where
  | runnable        -- will be polled (initially, after HasMore, or after a wake)
  | scannedEmpty    -- inside poll_pull: the first scan returned nothing, the lock is not taken yet
  | parked          -- waker stored, returned Pending
  | done            -- returned Exhausted
  deriving Repr, DecidableEq, Inhabited

structure Mat where
  remaining : Nat              -- producers that have not finalized
  avail : Nat := 0             -- rows flushed into the collection
  seen : Nat → Nat := fun _ => 0
  phase : Nat → Phase := fun _ => .runnable
  woken : Nat → Bool := fun _ => false

inductive Act where
  | push                 -- a producer appends and flushes one row, then wake_all
  | finalize             -- a producer finishes, then wake_all
  | scan (c : Nat)       -- consumer c: lock-free scan at the start of poll_pull
  | check (c : Nat)      -- consumer c: the locked section after an empty scan
  deriving Repr, DecidableEq, Inhabited

def wakeAll (m : Mat) : Nat → Bool := fun c => if m.phase c = .parked then true else m.woken c

/-- `rescan = false` is the variant without the second scan. -/
def step (rescan : Bool) (m : Mat) : Act → Mat
  | .push =>
    if m.remaining = 0 then m            -- every producer has finished: nobody can push
    else { m with avail := m.avail + 1, woken := wakeAll m }
  | .finalize =>
    if m.remaining = 0 then m
    else { m with remaining := m.remaining - 1, woken := wakeAll m }
  | .scan c =>
    let canRun := m.phase c = .runnable ∨ (m.phase c = .parked ∧ m.woken c = true)
    if canRun then
      if m.seen c < m.avail then
        { m with seen := fun x => if x = c then m.avail else m.seen x,
                 phase := fun x => if x = c then .runnable else m.phase x,
                 woken := fun x => if x = c then false else m.woken x }
      else
        { m with phase := fun x => if x = c then .scannedEmpty else m.phase x,
                 woken := fun x => if x = c then false else m.woken x }
    else m
  | .check c =>
    if m.phase c = .scannedEmpty then
      if m.remaining > 0 then
        { m with phase := fun x => if x = c then .parked else m.phase x }
      else if rescan && m.seen c < m.avail then
        { m with seen := fun x => if x = c then m.avail else m.seen x,
                 phase := fun x => if x = c then .runnable else m.phase x }
      else
        { m with phase := fun x => if x = c then .done else m.phase x }
    else m

def run (rescan : Bool) (m : Mat) (acts : List Act) : Mat := acts.foldl (step rescan) m

end GlareModel.Materialize
