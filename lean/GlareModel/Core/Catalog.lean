import GlareModel.Core.SemParse

/-
`Catalog`: model of a session's temp catalog, its settings and the sequential effect of
DDL/DML statements (DESIGN 5/C14).  Stands for `catalog/memory.rs` (create/drop with
`OnConflict`), `bind_create_table.rs`/`bind_insert.rs`/`bind_drop.rs`, the catalog operators
under `execution/operators/catalog/`, and `config/session.rs` (SET / RESET / SHOW).

Two step functions are given:
* `step`      — the specification: every statement is atomic (a failing statement changes nothing,
                INSERT/CTAS evaluate their query on the state *before* the statement);
* `stepImpl`  — code-shaped: identical, except that `CREATE TABLE AS` first creates the table and
                then runs the query, so a run-time failure leaves an empty table behind
                (`create_table_as.rs`: the catalog entry is created in `poll_finalize`-less
                setup before any row arrives and is never removed).
Dialect facts observed on the pinned commit and modelled on purpose: `DROP TABLE` also drops a
view of that name; `DROP SCHEMA` drops a non-empty schema with everything in it (CASCADE itself
is rejected); `CREATE TABLE IF NOT EXISTS .. AS` on an existing name reports the row count of its
query and changes nothing; a view is expanded by name at use time.
-/
namespace GlareModel.Catalog
open GlareModel GlareModel.Sem

inductive Obj where
  | table (ncols : Nat) (rows : List Row)
  | view (ncols : Nat) (q : Query) (refs : List String)     -- refs: the names the body scans
  deriving Inhabited

structure Schema where
  name : String
  objs : List (String × Obj)
  deriving Inhabited

/-- A setting: integer-valued (range `lo..hi`) or boolean (stored as 0/1). -/
structure Setting where
  name : String
  isBool : Bool
  dflt : Int
  lo : Int
  hi : Int

structure Sess where
  schemas : List Schema
  vars : List (String × Int)       -- explicitly SET values; absent = default
  deriving Inhabited

def Sess.init : Sess := { schemas := [{ name := "temp", objs := [] }], vars := [] }

/-- Settings of `config/session.rs` that the model covers; `threads` is the executor's default
partition count. -/
def settings (threads : Int) : List Setting :=
  [ { name := "partitions", isBool := false, dflt := threads, lo := 1, hi := 512 },
    { name := "batch_size", isBool := false, dflt := 2048, lo := 1, hi := 8192 },
    { name := "enable_optimizer", isBool := true, dflt := 1, lo := 0, hi := 1 },
    { name := "enable_hash_joins", isBool := true, dflt := 1, lo := 0, hi := 1 } ]

inductive Stmt where
  | createSchema (s : String) (ifNotExists : Bool)
  | dropSchema (s : String) (ifExists : Bool)
  | createTable (s n : String) (ifNotExists : Bool) (ncols : Nat)
  | createView (s n : String) (ncols : Nat) (q : Query) (refs : List String)
  | dropObj (s n : String) (ifExists : Bool)
  | insert (s n : String) (q : Query) (refs : List String)
  | ctas (s n : String) (ifNotExists : Bool) (ncols : Nat) (q : Query) (refs : List String)
  | setVar (v : String) (isBoolLit : Bool) (x : Int)
  | resetVar (v : String)
  | showVar (v : String)
  | select (q : Query) (refs : List String)
  | listObjs
  deriving Inhabited

inductive Outcome where
  | ok
  | err (runtime : Bool)               -- runtime = the failure comes from evaluating rows
  | count (n : Nat)
  | rows (rs : List Row)
  | val (isBool : Bool) (x : Int)
  | objs (schemas : List String) (tables views : List (String × String))
  deriving Inhabited

/-! ### Lookups -/

def findSchema (s : Sess) (name : String) : Option Schema := s.schemas.find? (·.name == name)

def Schema.find (sc : Schema) (n : String) : Option Obj := (sc.objs.find? (·.1 == n)).map (·.2)

def lookup (s : Sess) (sn n : String) : Option Obj := (findSchema s sn).bind (·.find n)

def updSchema (s : Sess) (sn : String) (f : Schema → Schema) : Sess :=
  { s with schemas := s.schemas.map fun sc => if sc.name == sn then f sc else sc }

def addObj (s : Sess) (sn n : String) (o : Obj) : Sess :=
  updSchema s sn fun sc => { sc with objs := sc.objs ++ [(n, o)] }

def removeObj (s : Sess) (sn n : String) : Sess :=
  updSchema s sn fun sc => { sc with objs := sc.objs.filter (·.1 != n) }

def setRows (s : Sess) (sn n : String) (rows : List Row) : Sess :=
  updSchema s sn fun sc => { sc with objs := sc.objs.map fun (m, o) =>
    if m == n then (match o with | .table w _ => (m, .table w rows) | v => (m, v)) else (m, o) }

def qname (sn n : String) : String := sn ++ "." ++ n

/-! ### The database a query sees: tables, then views expanded by name (to a fixpoint) -/

def tablesOf (s : Sess) : Db :=
  s.schemas.flatMap fun sc => sc.objs.filterMap fun (n, o) =>
    match o with
    | .table w rows => some (qname sc.name n, w, rows)
    | .view _ _ _ => none

def viewsOf (s : Sess) : List (String × Nat × Query × List String) :=
  s.schemas.flatMap fun sc => sc.objs.filterMap fun (n, o) =>
    match o with
    | .view w q refs => some (qname sc.name n, w, q, refs)
    | .table _ _ => none

def isRuntime : Err → Bool
  | .overflow | .divZero | .card => true
  | _ => false

/-- The database a statement sees plus the *poisoned* views: views whose body (or a view below
it) fails at run time; a query that scans one of them fails at run time too. -/
structure View where
  db : Db
  poisoned : List String := []

/-- One pass: every view not yet available whose body evaluates on the current database becomes
available (a view over a missing object stays unavailable: using it is a bind error). -/
def viewPass (views : List (String × Nat × Query × List String)) (v : View) : View :=
  views.foldl (fun v (n, w, q, refs) =>
    if v.db.any (·.1 == n) || v.poisoned.contains n then v else
    if refs.any v.poisoned.contains then { v with poisoned := n :: v.poisoned } else
    match evalQ v.db 200 [] q with
    | .ok rows => { v with db := v.db ++ [(n, w, rows)] }
    | .error e => if isRuntime e then { v with poisoned := n :: v.poisoned } else v) v

def iter (f : α → α) : Nat → α → α
  | 0, x => x
  | k + 1, x => iter f k (f x)

def viewOf (s : Sess) : View :=
  let vs := viewsOf s
  iter (viewPass vs) vs.length { db := tablesOf s }

def dbOf (s : Sess) : Db := (viewOf s).db

/-- Evaluate a statement's source query on the current state. -/
def evalOn (s : Sess) (q : Query) (refs : List String) : Except Err (List Row) :=
  let v := viewOf s
  if refs.any v.poisoned.contains then .error .overflow else evalQ v.db 200 [] q

/-- Binding (no rows are evaluated): every scanned name resolves to a table or to a view that
itself binds. A view whose body only fails at run time does bind. -/
def binds (s : Sess) (refs : List String) : Bool :=
  let v := viewOf s
  refs.all fun r => v.db.any (·.1 == r) || v.poisoned.contains r

/-! ### Settings -/

def getVar (threads : Int) (s : Sess) (v : String) : Option (Bool × Int) :=
  match (settings threads).find? (·.name == v) with
  | none => none
  | some st => match s.vars.find? (·.1 == v) with
    | some (_, x) => some (st.isBool, x)
    | none => some (st.isBool, st.dflt)

def setVar (threads : Int) (s : Sess) (v : String) (isBoolLit : Bool) (x : Int) : Option Sess :=
  match (settings threads).find? (·.name == v) with
  | none => none
  | some st =>
    if st.isBool != isBoolLit then none
    else if x < st.lo || x > st.hi then none
    else some { s with vars := (v, x) :: s.vars.filter (·.1 != v) }

def resetVar (threads : Int) (s : Sess) (v : String) : Option Sess :=
  match (settings threads).find? (·.name == v) with
  | none => none
  | some _ => some { s with vars := s.vars.filter (·.1 != v) }

/-! ### Statements -/

def listing (s : Sess) : Outcome :=
  .objs (s.schemas.map (·.name))
    (s.schemas.flatMap fun sc => sc.objs.filterMap fun (n, o) => match o with
      | .table _ _ => some (sc.name, n) | _ => none)
    (s.schemas.flatMap fun sc => sc.objs.filterMap fun (n, o) => match o with
      | .view _ _ _ => some (sc.name, n) | _ => none)

/-- Specification step. `threads` only fixes the default of `partitions`. -/
def step (threads : Int) (s : Sess) : Stmt → Sess × Outcome
  | .createSchema sn ine =>
    match findSchema s sn with
    | some _ => if ine then (s, .ok) else (s, .err false)
    | none => ({ s with schemas := s.schemas ++ [{ name := sn, objs := [] }] }, .ok)
  | .dropSchema sn ie =>
    match findSchema s sn with
    | none => if ie then (s, .ok) else (s, .err false)
    | some _ => ({ s with schemas := s.schemas.filter (·.name != sn) }, .ok)
  | .createTable sn n ine w =>
    match findSchema s sn with
    | none => (s, .err false)
    | some sc => match sc.find n with
      | some _ => if ine then (s, .ok) else (s, .err false)
      | none => (addObj s sn n (.table w []), .ok)
  | .createView sn n w q refs =>
    match findSchema s sn with
    | none => (s, .err false)
    | some sc => match sc.find n with
      | some _ => (s, .err false)
      | none =>
        -- the body is bound (not executed) at creation: it must refer to existing objects
        if binds s refs then (addObj s sn n (.view w q refs), .ok) else (s, .err false)
  | .dropObj sn n ie =>
    -- dialect: a missing *schema* is an error even with IF EXISTS
    match findSchema s sn with
    | none => (s, .err false)
    | some _ =>
      match lookup s sn n with
      | none => if ie then (s, .ok) else (s, .err false)
      | some _ => (removeObj s sn n, .ok)
  | .insert sn n q refs =>
    match lookup s sn n with
    | some (.table _ rows) =>
      match evalOn s q refs with
      | .ok new => (setRows s sn n (rows ++ new), .count new.length)
      | .error e => (s, .err (isRuntime e))
    | _ => (s, .err false)
  | .ctas sn n ine w q refs =>
    match findSchema s sn with
    | none => (s, .err false)
    | some sc =>
      match evalOn s q refs with
      | .error e => (s, .err (isRuntime e))
      | .ok new =>
        match sc.find n with
        | some _ => if ine then (s, .count new.length) else (s, .err false)
        | none => (addObj s sn n (.table w new), .count new.length)
  | .setVar v b x =>
    match setVar threads s v b x with
    | some s' => (s', .ok)
    | none => (s, .err false)
  | .resetVar v =>
    match resetVar threads s v with
    | some s' => (s', .ok)
    | none => (s, .err false)
  | .showVar v =>
    match getVar threads s v with
    | some (b, x) => (s, .val b x)
    | none => (s, .err false)
  | .select q refs =>
    match evalOn s q refs with
    | .ok rows => (s, .rows rows)
    | .error e => (s, .err (isRuntime e))
  | .listObjs => (s, listing s)

/-- Code-shaped step: as `step`, but `CREATE TABLE AS` registers the (empty) table before the
query runs; a run-time failure of the query does not remove it. A duplicate name is detected
first (at bind time the entry does not exist yet, so the conflict surfaces when the operator
creates the entry — before rows are evaluated). -/
def stepImpl (threads : Int) (s : Sess) : Stmt → Sess × Outcome
  | .ctas sn n ine w q refs =>
    match findSchema s sn with
    | none => (s, .err false)
    | some sc =>
      match evalOn s q refs with
      | .error e =>
        if isRuntime e then
          match sc.find n with
          | some _ => (s, .err true)
          | none => (addObj s sn n (.table w []), .err true)       -- left behind
        else (s, .err false)
      | .ok new =>
        match sc.find n with
        | some _ => if ine then (s, .count new.length) else (s, .err false)
        | none => (addObj s sn n (.table w new), .count new.length)
  | st => step threads s st

/-- Multi-session engine: the sessions share nothing that the modelled statements can change. -/
def stepAt (impl : Bool) (threads : Int) (ss : List Sess) (i : Nat) (st : Stmt) : List Sess × Outcome :=
  match ss[i]? with
  | none => (ss, .err false)
  | some s =>
    let r := if impl then stepImpl threads s st else step threads s st
    (ss.set i r.1, r.2)

/-! ### Abstract view used by the refinement statements: name ↦ bag of rows / view marker -/

def contents (s : Sess) (sn n : String) : Option (List Row) :=
  match lookup s sn n with
  | some (.table _ rows) => some rows
  | _ => none

end GlareModel.Catalog
