/-
`Layout`: the offset arithmetic that the engine's `unsafe` row code relies on (DESIGN 5/C16).
* `rowLayout`  - `RowLayout::try_new` (`arrays/row/row_layout.rs`): validity bitmap of
                 `ceil(n/8)` bytes, then the columns back to back; `byte_offset(row, col)`.
* `aggLayout`  - `AggregateLayout::try_new` (`arrays/row/aggregate_layout.rs`): group values, then
                 every aggregate state at an offset padded to the base alignment (the maximum
                 alignment of the states); `align_len`.
-/
namespace GlareModel.Layout

def bitmapBytes (n : Nat) : Nat := (n + 7) / 8

/-- Running offsets: column `i` starts at `start + widths[0] + ... + widths[i-1]`. -/
def offsetsFrom (start : Nat) : List Nat → List Nat
  | [] => []
  | w :: ws => start :: offsetsFrom (start + w) ws

structure RowLayout where
  offsets : List Nat
  rowWidth : Nat
  validityWidth : Nat
  deriving Repr, DecidableEq

def rowLayout (widths : List Nat) : RowLayout :=
  let v := bitmapBytes widths.length
  { offsets := offsetsFrom v widths, rowWidth := v + widths.sum, validityWidth := v }

def byteOffset (l : RowLayout) (row col : Nat) : Nat := l.rowWidth * row + l.offsets.getD col 0

/-- `align_len`: `curr_len.div_ceil(alignment) * alignment`. -/
def alignLen (len align : Nat) : Nat := ((len + align - 1) / align) * align

/-- Offsets of the aggregate states `(size, align)` after `start` bytes of group values, each
padded to `base`. Returns the offsets and the end offset. -/
def aggOffsets (base : Nat) : Nat → List (Nat × Nat) → List Nat × Nat
  | off, [] => ([], off)
  | off, (size, _) :: rest =>
    let r := aggOffsets base (alignLen (off + size) base) rest
    (off :: r.1, r.2)

structure AggLayout where
  baseAlign : Nat
  offsets : List Nat
  rowWidth : Nat
  deriving Repr, DecidableEq

def aggLayout (groupsWidth : Nat) (states : List (Nat × Nat)) : AggLayout :=
  let base := (states.map (·.2)).foldl max 1
  let r := aggOffsets base (alignLen groupsWidth base) states
  { baseAlign := base, offsets := r.1, rowWidth := alignLen r.2 base }

end GlareModel.Layout
