/-
`Tokens`: model of `glaredb_parser/src/tokens.rs` (`Tokenizer::next_token` / `tokenize`) on a
list of characters.  Character classes of non-ASCII characters (`char::is_alphabetic`,
`char::is_alphanumeric`) are modelled for the small alphabet the correspondence check draws
from (see `alphaU` / `numericU`); every other non-ASCII character is "not a letter, not a digit".
-/
namespace GlareModel.Tokens

inductive Tok where
  | word (v : List Char) (quoted : Bool)
  | str (v : List Char)
  | num (v : List Char)
  | ws
  | comment (v : List Char)
  | sym (name : String)
  deriving Repr, DecidableEq, Inhabited

/-- Non-ASCII letters of the tested alphabet (`char::is_alphabetic`). -/
def alphaU (c : Char) : Bool :=
  c == 'é' || c == 'Ω' || c == 'ß' || c == 'ж' || c == '中'

/-- Non-ASCII characters of the tested alphabet that are numeric but not alphabetic. -/
def numericU (c : Char) : Bool :=
  c == '٣' || c == '²'

def isAsciiAlpha (c : Char) : Bool := ('a' ≤ c && c ≤ 'z') || ('A' ≤ c && c ≤ 'Z')
def isAsciiDigit (c : Char) : Bool := '0' ≤ c && c ≤ '9'

def isIdentStart (c : Char) : Bool := isAsciiAlpha c || alphaU c || c == '_'
def isIdentPart (c : Char) : Bool := isAsciiAlpha c || isAsciiDigit c || alphaU c || numericU c || c == '_'

/-- `take_while` for the number literal: digits with at most one period. -/
def takeNumber : List Char → Bool → List Char × List Char
  | [], _ => ([], [])
  | c :: cs, seenDot =>
    if isAsciiDigit c then
      let (a, b) := takeNumber cs seenDot
      (c :: a, b)
    else if c == '.' && !seenDot then
      let (a, b) := takeNumber cs true
      (c :: a, b)
    else ([], c :: cs)

/-- `take_quoted_string`: everything up to the closing quote, which is consumed if present
(an unterminated literal silently runs to the end of the input). -/
def takeQuoted (q : Char) (cs : List Char) : List Char × List Char :=
  (cs.takeWhile (· != q), (cs.dropWhile (· != q)).drop 1)

/-- Two-character operators: first character, second character, token. -/
def doubles : List (Char × Char × String) :=
  [('*', '*', "**"), ('/', '/', "//"), ('^', '@', "^@"), ('>', '=', ">="), ('>', '>', ">>"),
   ('<', '=', "<="), ('<', '>', "<>"), ('<', '<', "<<"), ('!', '=', "<>"), ('|', '|', "||"),
   (':', ':', "::"), ('=', '>', "=>"), ('=', '=', "==")]

/-- One-character tokens (also the fall-back of the first characters of `doubles`). -/
def singles : List (Char × String) :=
  [(';', ";"), ('(', "("), (')', ")"), ('[', "["), (']', "]"), (',', ","), ('*', "*"), ('+', "+"),
   ('-', "-"), ('/', "/"), ('%', "%"), ('#', "#"), ('^', "^"), ('>', ">"), ('<', "<"), ('!', "!"),
   ('|', "|"), ('&', "&"), ('~', "~"), (':', ":"), ('=', "=")]

def findDouble (c d : Char) : Option String :=
  (doubles.find? fun e => e.1 == c && e.2.1 == d).map (·.2.2)

def findSingle (c : Char) : Option String :=
  (singles.find? fun e => e.1 == c).map (·.2)

/-- One `next_token` call on a non-empty input: the token and the rest, or the unhandled
character. The match arms of `Tokenizer::next_token` are grouped: whitespace; `--` comments;
two-character operators; one-character tokens; string literals; numbers and the period; words. -/
def nextToken : List Char → Option (Except Char (Tok × List Char))
  | [] => none
  | c :: rest =>
    some <|
    if c == ' ' || c == '\t' || c == '\n' || c == '\r' then .ok (.ws, rest)
    else if c == '-' && rest.head? == some '-' then
      .ok (.comment ((rest.drop 1).takeWhile (· != '\n')), (rest.drop 1).dropWhile (· != '\n'))
    else
      match (match rest.head? with | some d => findDouble c d | none => none) with
      | some name => .ok (.sym name, rest.drop 1)
      | none =>
        match findSingle c with
        | some name => .ok (.sym name, rest)
        | none =>
          if c == '\'' then .ok (.str (takeQuoted '\'' rest).1, (takeQuoted '\'' rest).2)
          else if isAsciiDigit c || c == '.' then
            let sr := takeNumber (c :: rest) false
            if sr.1 == ['.'] then .ok (.sym ".", sr.2) else .ok (.num sr.1, sr.2)
          else if isIdentStart c then
            .ok (.word (c :: rest.takeWhile isIdentPart) false, rest.dropWhile isIdentPart)
          else if c == '"' then .ok (.word (takeQuoted '"' rest).1 true, (takeQuoted '"' rest).2)
          else .error c

/-- `tokenize`: repeat `next_token` until the input is exhausted. The fuel is the recursion
bound; `Props/C15` shows that `cs.length` always suffices (every token consumes a character). -/
def tokenizeFuel : Nat → List Char → Option (Except Char (List Tok))
  | 0, [] => some (.ok [])
  | 0, _ :: _ => none                               -- out of fuel
  | fuel + 1, cs =>
    match nextToken cs with
    | none => some (.ok [])
    | some (.error c) => some (.error c)
    | some (.ok (t, rest)) =>
      match tokenizeFuel fuel rest with
      | none => none
      | some (.error c) => some (.error c)
      | some (.ok ts) => some (.ok (t :: ts))

def tokenize (cs : List Char) : Option (Except Char (List Tok)) := tokenizeFuel cs.length cs

/-! ### Nesting depth of a token stream (the recursion the parser needs for parentheses) -/

def parenDepth : List Tok → Nat → Nat → Nat
  | [], _, mx => mx
  | .sym "(" :: ts, cur, mx => parenDepth ts (cur + 1) (max mx (cur + 1))
  | .sym ")" :: ts, cur, mx => parenDepth ts (cur - 1) mx
  | _ :: ts, cur, mx => parenDepth ts cur mx

end GlareModel.Tokens
