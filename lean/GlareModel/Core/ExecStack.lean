/-! # Execution stack of a partition pipeline (`execution/execution_stack.rs`)

Code-shaped model of `ExecutionStack::pop_next`: a stack of instructions drives the operators of one
partition pipeline (operator 0 is the source, operator `n-1` the sink). The poll results of the
operators are inputs (any operator may answer anything at any time), so a theorem about every
script is a theorem about every behaviour of the operators.

The list holds the stack **top first**: `push` is cons, `pop` takes the head,
`instructions.first()` (the bottom) is the last element. -/
namespace GlareModel.ExecStack

inductive Instr where
  | exec (idx : Nat) (start : Bool)
  | fin (idx : Nat)
  | finUp (idx : Nat)          -- FinalizeUpstreamOperator (added by the fix of F38/F64)
  deriving Repr, DecidableEq, Inhabited

inductive PE where
  | ready | pending | needsMore | hasMore | exhausted
  deriving Repr, DecidableEq, Inhabited

inductive PF where
  | finalized | needsDrain | pending
  deriving Repr, DecidableEq, Inhabited

inductive Flow where
  | continue | finished | pending | error
  deriving Repr, DecidableEq, Inhabited

/-- One call to the effects handler: execute or finalize operator `idx`, and the answer. -/
inductive Call where
  | exec (idx : Nat) (r : PE)
  | fin (idx : Nat) (r : PF)
  deriving Repr, DecidableEq, Inhabited

def peOf (b : Nat) : PE :=
  match b % 5 with
  | 0 => .ready | 1 => .pending | 2 => .needsMore | 3 => .hasMore | _ => .exhausted

def pfOf (b : Nat) : PF :=
  match b % 3 with
  | 0 => .finalized | 1 => .needsDrain | _ => .pending

/-- `first_unfinalized` of the fixed code: read off the instruction at the bottom of the stack
(`rest` is what remains after popping, top first, so the bottom is its last element). -/
def firstUnfinalized (rest : List Instr) (k : Nat) : Nat :=
  match rest.getLast? with
  | some (.exec s _) => s + 1
  | some (.fin j) => j
  | some (.finUp j) => j
  | none => k + 1

/-- `(first..k).rev()` pushed one by one: the lowest index ends on top (listed top first). -/
def finUps (first k : Nat) : List Instr :=
  (List.range (k - first)).map (fun i => Instr.finUp (first + i))

/-- `pop_next` with the popped instruction `top`, the remaining stack `rest` (top first) and the raw
answer `b` of the effects handler. `fixed = false` is the code before the fix: an exhausted operator
clears the stack and nothing before it is finalized. Returns the new stack, the call made, the
control flow, and whether the operators broke the protocol (the operator acting as the start of the
pipeline answered `NeedsMore`: nothing is left to produce input for it). -/
def stepInstr (fixed : Bool) (n : Nat) (rest : List Instr) (top : Instr) (b : Nat) : List Instr × Call × Flow × Bool :=
  match top with
  | .exec k start =>
    match peOf b with
    | .ready =>
      let s1 := if start then top :: rest else rest
      let s2 := if k != n - 1 then Instr.exec (k + 1) false :: s1 else s1
      (s2, Call.exec k .ready, .continue, false)
    | .pending => (top :: rest, Call.exec k .pending, .pending, false)
    | .needsMore => (rest, Call.exec k .needsMore, .continue, start)
    | .hasMore =>
      if k != n - 1 then (Instr.exec (k + 1) false :: Instr.exec k start :: rest, Call.exec k .hasMore, .continue, false)
      else (Instr.exec k start :: rest, Call.exec k .hasMore, .error, false)
    | .exhausted =>
      if k == n - 1 then ([], Call.exec k .exhausted, .error, false)
      else
        let ups := if fixed then finUps (firstUnfinalized rest k) k else []
        (ups ++ [Instr.exec (k + 1) false, Instr.fin (k + 1)], Call.exec k .exhausted, .continue, false)
  | .finUp j =>
    match pfOf b with
    | .finalized => (rest, Call.fin j .finalized, .continue, false)
    | .needsDrain => (rest, Call.fin j .needsDrain, .continue, false)
    | .pending => (top :: rest, Call.fin j .pending, .pending, false)
  | .fin j =>
    match pfOf b with
    | .finalized =>
      if j == n - 1 then (rest, Call.fin j .finalized, .finished, false)
      else (Instr.fin (j + 1) :: rest, Call.fin j .finalized, .continue, false)
    | .needsDrain =>
      if j == n - 1 then (rest, Call.fin j .needsDrain, .error, false)
      else (Instr.exec j true :: rest, Call.fin j .needsDrain, .continue, false)
    | .pending => (top :: rest, Call.fin j .pending, .pending, false)

structure St where
  stack : List Instr             -- top first
  calls : List Call := []        -- newest first
  flow : Flow := .continue
  /-- ghost: the operators broke the protocol (a pipeline start answered `NeedsMore`) -/
  broke : Bool := false
  deriving Repr, Inhabited

def init : St := { stack := [Instr.exec 0 true] }

/-- One `pop_next`. An empty stack answers `Finished` without calling the handler (and without
consuming a script byte: the driver stops at the first `Finished` or error). -/
def step (fixed : Bool) (n : Nat) (s : St) (b : Nat) : St :=
  match s.flow with
  | .finished => s
  | .error => s
  | _ =>
    match s.stack with
    | [] => { s with flow := .finished }
    | top :: rest =>
      let r := stepInstr fixed n rest top b
      { stack := r.1, calls := r.2.1 :: s.calls, flow := r.2.2.1, broke := s.broke || r.2.2.2 }

def run (fixed : Bool) (n : Nat) (script : List Nat) : St :=
  script.foldl (step fixed n) init

/-- Operators that have been told they are finished: a finalize call answered `Finalized` or
`NeedsDrain`. -/
def finalizedOps (calls : List Call) : List Nat :=
  calls.filterMap fun c => match c with
    | .fin j .finalized => some j
    | .fin j .needsDrain => some j
    | _ => none

/-- Operators that answered `Exhausted`. -/
def exhaustedOps (calls : List Call) : List Nat :=
  calls.filterMap fun c => match c with
    | .exec k .exhausted => some k
    | _ => none

def showCall : Call → String
  | .exec k r => s!"e{k}:{match r with | .ready => 0 | .pending => 1 | .needsMore => 2 | .hasMore => 3 | .exhausted => 4}"
  | .fin j r => s!"f{j}:{match r with | .finalized => 0 | .needsDrain => 1 | .pending => 2}"

/-- Driver line: the calls in order and how the run ended (0 script used up, 1 finished, 2 error). -/
def trace (fixed : Bool) (n : Nat) (script : List Nat) : String :=
  let s := run fixed n script
  let e := match s.flow with | .finished => 1 | .error => 2 | _ => 0
  String.intercalate " " (s.calls.reverse.map showCall) ++ s!" end={e}"

end GlareModel.ExecStack
