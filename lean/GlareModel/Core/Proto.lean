/-
`Proto`: transition-system models of the scheduling protocols (DESIGN 5/C04). One
mutex-protected critical section of the Rust code is one atomic action.

* `Task`    - `ScheduleState{running,pending,completed,canceled}` and the worker loop of
              `TaskState::schedule` / `execute` (`glaredb_rt_native/src/threaded/task.rs`),
              `ThreadedQueryHandle::cancel` (`handle.rs`).
* `Barrier` - the pattern every cross-partition phase uses (hash join build -> probe -> drain,
              aggregate merge, sort merge, materialize, CTAS): a countdown
              (`DelayedPartitionCount`), a readiness flag and `PartitionWakers` (`store` under the
              same lock that guards the flag; the last arriver sets the flag and `wake_all`s).
-/
namespace GlareModel.Proto

/-! ### The thread-pool task -/

inductive Phase where
  | idle        -- no worker owns the task
  | spawned     -- a worker run is queued / the loop is about to call `execute`
  | executing   -- inside `execute` (the pipeline is being polled)
  deriving Repr, DecidableEq, Inhabited

inductive PollResult where
  | ready | err | pending
  deriving Repr, DecidableEq, Inhabited

structure Task where
  running : Bool := false
  pending : Bool := false
  completed : Bool := false
  canceled : Bool := false
  phase : Phase := .idle
  errorSet : Bool := false          -- `errors.set_error` has been called
  owed : Bool := false              -- ghost: a wake arrived after the last poll started
  pollsAfterComplete : Nat := 0     -- ghost: polls started on a completed task
  deriving Repr, DecidableEq, Inhabited

inductive Act where
  | wake                            -- `Waker::wake` -> `schedule()`
  | cancel                          -- `ThreadedQueryHandle::cancel` for this task
  | workerBegin                     -- the worker calls `execute`
  | workerEnd (r : PollResult)      -- `execute` returned; the locked epilogue of the loop runs
  deriving Repr, DecidableEq, Inhabited

/-- `TaskState::schedule`. -/
def schedule (s : Task) : Task :=
  if s.completed then s
  else if s.canceled then { s with errorSet := true }
  else if s.running then { s with pending := true, owed := true }
  else { s with running := true, phase := .spawned, owed := true }

def step (s : Task) : Act → Task
  | .wake => schedule s
  | .cancel => schedule { s with canceled := true }
  | .workerBegin =>
    if s.phase = .spawned then
      { s with phase := .executing, owed := false,
               pollsAfterComplete := if s.completed then s.pollsAfterComplete + 1 else s.pollsAfterComplete }
    else s
  | .workerEnd r =>
    if s.phase = .executing then
      let completed := r == PollResult.ready
      let s := { s with completed := completed, errorSet := s.errorSet || r == PollResult.err }
      if s.pending then
        if completed then { s with pending := false, phase := .idle }      -- break (running stays set)
        else { s with pending := false, phase := .spawned }                  -- continue
      else { s with running := false, phase := .idle }
    else s

def run (s : Task) (acts : List Act) : Task := acts.foldl step s

/-! #### Trace acceptance: events logged by the real `TaskState` (cfg(glaredb_verif) hook) -/

inductive Ev where
  | schedule (errorSet : Bool)      -- one call of `schedule()`; whether it wrote the error sink
  | cancelSet                       -- `handle.cancel` set `canceled` for this task
  | begin                           -- `execute()` entered
  | poll (r : PollResult)           -- the pipeline's poll returned
  | end_                            -- the locked epilogue of the worker loop ran
  deriving Repr, DecidableEq, Inhabited

/-- `[running, pending, completed, canceled]` as logged after the event's critical section. -/
abbrev Flags := Bool × Bool × Bool × Bool

def Task.flags (s : Task) : Flags := (s.running, s.pending, s.completed, s.canceled)

/-- Replay logged events on the model; `none` = every event is what the model does, `some i` = the
`i`-th event is not (different flags, or an error written / not written differently). -/
def acceptFrom (s : Task) (last : Option PollResult) (i : Nat) : List (Ev × Flags) → Option Nat
  | [] => none
  | (ev, fl) :: rest =>
    match ev with
    | .schedule err =>
      let s' := schedule s
      let modelErr := !s.completed && s.canceled
      if s'.flags == fl && modelErr == err then acceptFrom s' last (i + 1) rest else some i
    | .cancelSet =>
      let s' := { s with canceled := true }
      if s'.flags == fl then acceptFrom s' last (i + 1) rest else some i
    | .begin =>
      if s.phase == .spawned then acceptFrom (step s .workerBegin) none (i + 1) rest else some i
    | .poll r =>
      if s.phase == .executing && s.flags == fl then acceptFrom s (some r) (i + 1) rest else some i
    | .end_ =>
      match last with
      | none => some i
      | some r =>
        let s' := step s (.workerEnd r)
        if s.phase == .executing && s'.flags == fl then acceptFrom s' none (i + 1) rest else some i

def accept (evs : List (Ev × Flags)) : Option Nat := acceptFrom {} none 0 evs

/-! ### The phase barrier -/

structure Barrier where
  remaining : Nat
  flag : Bool := false
  stored : Nat → Bool := fun _ => false      -- a waker of partition p is stored
  parked : Nat → Bool := fun _ => false      -- partition p returned Pending and waits for a wake
  woken : Nat → Bool := fun _ => false       -- a wake has been delivered to p since it parked

inductive BAct where
  | arrive (p : Nat)      -- partition p finishes the previous phase (e.g. `poll_finalize_push`)
  | await (p : Nat)       -- partition p polls the next phase (e.g. `poll_execute` of the probe side)

def Barrier.init (n : Nat) : Barrier := { remaining := n }

def bstep (b : Barrier) : BAct → Barrier
  | .arrive _ =>
    let rem := b.remaining - 1
    if rem = 0 then
      -- last arriver: set the flag and `wake_all` (every stored waker is taken and woken)
      { b with remaining := 0, flag := true,
               woken := fun q => b.woken q || b.stored q,
               stored := fun _ => false }
    else { b with remaining := rem }
  | .await p =>
    if b.flag then { b with parked := fun q => if q = p then false else b.parked q }
    else { b with stored := fun q => if q = p then true else b.stored q,
                  parked := fun q => if q = p then true else b.parked q,
                  woken := fun q => if q = p then false else b.woken q }

def brun (b : Barrier) (acts : List BAct) : Barrier := acts.foldl bstep b

/-- The defective variant a missing `wake_all` produces (seeded change C04-m1 is of this
shape): the last arriver sets the flag but does not wake the stored wakers. -/
def bstepNoWake (b : Barrier) : BAct → Barrier
  | .arrive _ =>
    let rem := b.remaining - 1
    if rem = 0 then { b with remaining := 0, flag := true } else { b with remaining := rem }
  | a => bstep b a

end GlareModel.Proto
