/-
Shared helpers of the executable model: hex parsing/printing and small list
utilities. No imports outside Lean core (this file is compiled into `gmodel`).
-/
namespace GlareModel

def hexDigit (n : Nat) : Char :=
  if n < 10 then Char.ofNat (48 + n) else Char.ofNat (87 + n)

def hexByte (b : Nat) : String :=
  String.ofList [hexDigit (b / 16 % 16), hexDigit (b % 16)]

def hexOfBytes (bs : List Nat) : String :=
  String.join (bs.map hexByte)

def hexVal (c : Char) : Option Nat :=
  if '0' ≤ c ∧ c ≤ '9' then some (c.toNat - 48)
  else if 'a' ≤ c ∧ c ≤ 'f' then some (c.toNat - 87)
  else if 'A' ≤ c ∧ c ≤ 'F' then some (c.toNat - 55)
  else none

/-- Parse a hex string as a natural number (big endian). -/
def parseHexNat (s : String) : Option Nat :=
  s.toList.foldl (fun acc c => match acc, hexVal c with
    | some a, some d => some (a * 16 + d)
    | _, _ => none) (some 0)

/-- Parse a hex string into bytes (two digits per byte). -/
def parseHexBytes (s : String) : Option (List Nat) :=
  let rec go : List Char → List Nat → Option (List Nat)
    | [], acc => some acc.reverse
    | [_], _ => none
    | a :: b :: rest, acc =>
      match hexVal a, hexVal b with
      | some x, some y => go rest ((x * 16 + y) :: acc)
      | _, _ => none
  go s.toList []

def splitWords (line : String) : List String :=
  (line.trimAscii.toString.splitOn " ").filter (fun s => !s.isEmpty)

end GlareModel
