import GlareModel.Core.Rle
/-
`Plain`: the contents of a v1 data page with PLAIN values (`column/value_reader/*`, the level
handling of `column/column_reader.rs`): definition levels (4-byte length + RLE/bit-packed hybrid,
bit width 1 for a flat optional column) followed by the PLAIN values of the non-NULL rows;
`placeLevels` puts value `k` at the `k`-th row whose definition level is 1.
-/
namespace GlareModel.Plain

/-- Little-endian unsigned value of a byte list. -/
def le : List Nat → Nat
  | [] => 0
  | b :: bs => b + 256 * le bs

/-- `n` fixed-width (w bytes) little-endian values. -/
def decodeFixed (w : Nat) : Nat → List Nat → Option (List Nat × List Nat)
  | 0, bs => some ([], bs)
  | n + 1, bs =>
    if bs.length < w then none else
    match decodeFixed w n (bs.drop w) with
    | none => none
    | some (vs, rest) => some (le (bs.take w) :: vs, rest)

def encodeFixed (w : Nat) (vs : List Nat) : List Nat := vs.flatMap (Rle.leBytes w)

/-- Two's complement reading of an unsigned `bits`-bit value. -/
def toSigned (bits : Nat) (n : Nat) : Int := if n < 2 ^ (bits - 1) then n else (n : Int) - 2 ^ bits

/-- `n` length-prefixed byte arrays (4-byte little-endian length). -/
def decodeByteArrays : Nat → List Nat → Option (List (List Nat) × List Nat)
  | 0, bs => some ([], bs)
  | n + 1, bs =>
    if bs.length < 4 then none else
    let len := le (bs.take 4)
    let body := bs.drop 4
    if body.length < len then none else
    match decodeByteArrays n (body.drop len) with
    | none => none
    | some (vs, rest) => some (body.take len :: vs, rest)

/-- Bit-packed booleans, least significant bit first. -/
def decodeBools (n : Nat) (bs : List Nat) : Option (List Nat) :=
  if bs.length * 8 < n then none else
  some ((List.range n).map fun i => (bs.getD (i / 8) 0) / 2 ^ (i % 8) % 2)

/-- Value `k` goes to the `k`-th row whose definition level is 1; level 0 rows are NULL. Fails when
the values run out or are left over. -/
def placeLevels : List Nat → List α → Option (List (Option α))
  | [], [] => some []
  | [], _ :: _ => none
  | d :: ds, vs =>
    if d = 0 then (placeLevels ds vs).map (none :: ·)
    else match vs with
      | [] => none
      | v :: vs' => (placeLevels ds vs').map (some v :: ·)

inductive PType where
  | bool | int32 | int64 | double | bytes
  deriving Repr, DecidableEq, Inhabited

inductive Cell where
  | int (v : Int)
  | bits (v : Nat)        -- doubles are carried as their 64-bit pattern
  | bytes (v : List Nat)
  deriving Repr, DecidableEq, Inhabited

def decodeValues (t : PType) (n : Nat) (bs : List Nat) : Option (List Cell) :=
  match t with
  | .int32 => (decodeFixed 4 n bs).map fun r => r.1.map fun v => .int (toSigned 32 v)
  | .int64 => (decodeFixed 8 n bs).map fun r => r.1.map fun v => .int (toSigned 64 v)
  | .double => (decodeFixed 8 n bs).map fun r => r.1.map .bits
  | .bytes => (decodeByteArrays n bs).map fun r => r.1.map .bytes
  | .bool => (decodeBools n bs).map fun r => r.map fun v => .int (v : Nat)

/-- One v1 data page of `numValues` rows of a flat column. -/
def decodePage (t : PType) (optional : Bool) (numValues : Nat) (body : List Nat) : Option (List (Option Cell)) :=
  if optional then
    if body.length < 4 then none else
    let len := le (body.take 4)
    let rest := body.drop 4
    if rest.length < len then none else
    match Rle.readN numValues { bytes := rest.take len, width := 1 } with
    | none => none
    | some (levels, _) =>
      match decodeValues t (levels.filter (· != 0)).length (rest.drop len) with
      | none => none
      | some vals => placeLevels levels vals
  else
    (decodeValues t numValues body).map fun vs => vs.map some

end GlareModel.Plain
