import GlareModel.Core.Sexp

/-
`Sem`: the spec-shaped definitional semantics of the modelled SQL fragment (DESIGN §2.3).
A query is a term of a small relational algebra with positional columns; a correlated
subquery is evaluated once per outer row in that row's environment; bags are lists.
Integers are BIGINT (`Int` with a range check), strings compare by code point
(= byte-wise for UTF-8), three-valued logic for NULL.  Recursion is bounded by a depth fuel
so that every function is total.
-/
namespace GlareModel.Sem

inductive Value where
  | null
  | int (i : Int)
  | bool (b : Bool)
  | str (s : String)
  deriving Repr, DecidableEq, Inhabited, BEq

abbrev Row := List Value

inductive Err where
  | overflow | divZero | type | fuel | card | unsupported
  deriving Repr, DecidableEq, Inhabited

inductive JoinKind where
  | inner | left | right | cross | semi | anti
  deriving Repr, DecidableEq, Inhabited

inductive AggFn where
  | countStar | count | sum | min | max | boolAnd | boolOr
  deriving Repr, DecidableEq, Inhabited

mutual
inductive Expr where
  | col (i : Nat)
  | ocol (depth i : Nat)                 -- column `i` of the row `depth` levels up (correlation)
  | lit (v : Value)
  | bin (op : String) (a b : Expr)       -- + - * = <> < <= > >= and or
  | not (a : Expr)
  | neg (a : Expr)
  | isNull (a : Expr)
  | isNotNull (a : Expr)
  | case (whens : List (Expr × Expr)) (els : Expr)
  | coalesce (xs : List Expr)
  | inList (a : Expr) (xs : List Expr)
  | between (a lo hi : Expr)
  | exists_ (q : Query)
  | scalar (q : Query)
  | inSub (a : Expr) (q : Query)
  | notInSub (a : Expr) (q : Query)
inductive Query where
  | scan (t : String)
  | values (rows : List (List Expr))
  | filter (p : Expr) (q : Query)
  | project (es : List Expr) (q : Query)
  | join (k : JoinKind) (on : Expr) (l r : Query)
  | agg (groups : List Expr) (aggs : List AggSpec) (q : Query)
  | aggSets (groups : List Expr) (sets : List (List Nat)) (aggs : List AggSpec) (q : Query)   -- GROUPING SETS / ROLLUP / CUBE
  | distinct (q : Query)
  | union (all : Bool) (l r : Query)
  | sort (keys : List (Expr × Bool × Bool)) (q : Query)      -- (expr, desc, nullsFirst)
  | limit (n off : Nat) (q : Query)
inductive AggSpec where
  | mk (fn : AggFn) (distinct : Bool) (arg : Expr) (filter : Option Expr)
end

instance : Inhabited Expr := ⟨.lit .null⟩
instance : Inhabited Query := ⟨.values []⟩

/-- A database: table name, column count, rows. -/
abbrev Db := List (String × Nat × List Row)

def i64Ok (i : Int) : Bool := -9223372036854775808 ≤ i && i ≤ 9223372036854775807

/-! ### Three-valued logic and comparison -/

def and3 : Value → Value → Except Err Value
  | .bool false, _ => .ok (.bool false)
  | _, .bool false => .ok (.bool false)
  | .bool true, .bool true => .ok (.bool true)
  | .null, .bool true => .ok .null
  | .bool true, .null => .ok .null
  | .null, .null => .ok .null
  | _, _ => .error .type

def or3 : Value → Value → Except Err Value
  | .bool true, _ => .ok (.bool true)
  | _, .bool true => .ok (.bool true)
  | .bool false, .bool false => .ok (.bool false)
  | .null, .bool false => .ok .null
  | .bool false, .null => .ok .null
  | .null, .null => .ok .null
  | _, _ => .error .type

def not3 : Value → Except Err Value
  | .bool b => .ok (.bool !b)
  | .null => .ok .null
  | _ => .error .type

/-- Total order used for comparison operators on two non-null values of the same type. -/
def cmpVal : Value → Value → Except Err Ordering
  | .int a, .int b => .ok (compare a b)
  | .bool a, .bool b => .ok (compare a.toNat b.toNat)
  | .str a, .str b => .ok (compare a b)
  | _, _ => .error .type

def cmpOp (op : String) (a b : Value) : Except Err Value :=
  match a, b with
  | .null, _ => .ok .null
  | _, .null => .ok .null
  | a, b => do
    let o ← cmpVal a b
    let r := match op with
      | "=" => o == .eq
      | "<>" => o != .eq
      | "<" => o == .lt
      | "<=" => o != .gt
      | ">" => o == .gt
      | ">=" => o != .lt
      | _ => false
    pure (.bool r)

def arith (op : String) (a b : Value) : Except Err Value :=
  match a, b with
  | .null, _ => .ok .null
  | _, .null => .ok .null
  | .int x, .int y =>
    let r := match op with
      | "+" => x + y
      | "-" => x - y
      | _ => x * y
    if i64Ok r then .ok (.int r) else .error .overflow
  | _, _ => .error .type

/-- `IS NOT DISTINCT FROM`-style equality used for grouping, DISTINCT and UNION. -/
def rowEq (a b : Row) : Bool := a == b

def dedup : List Row → List Row
  | [] => []
  | r :: rs => r :: (dedup rs).filter (fun x => !rowEq x r)

/-- Ordering of a sort key column: NULL placement then value order, optional DESC. -/
def keyCmp (desc nullsFirst : Bool) (a b : Value) : Ordering :=
  match a, b with
  | .null, .null => .eq
  | .null, _ => if nullsFirst then .lt else .gt
  | _, .null => if nullsFirst then .gt else .lt
  | a, b =>
    let o := match cmpVal a b with
      | .ok o => o
      | .error _ => .eq
    if desc then o.swap else o

def keysCmp (spec : List (Bool × Bool)) (a b : List Value) : Ordering :=
  match spec, a, b with
  | (d, nf) :: ss, x :: xs, y :: ys =>
    match keyCmp d nf x y with
    | .eq => keysCmp ss xs ys
    | o => o
  | _, _, _ => .eq

/-- Stable insertion sort by a comparison function. -/
def insertBy (cmp : α → α → Ordering) (x : α) : List α → List α
  | [] => [x]
  | y :: ys => if cmp x y == .lt then x :: y :: ys else y :: insertBy cmp x ys

def sortBy (cmp : α → α → Ordering) (xs : List α) : List α :=
  xs.foldr (insertBy cmp) []

/-! ### Aggregates over the list of argument values of one group -/

def aggEval (fn : AggFn) (vals : List Value) (nrows : Nat) : Except Err Value :=
  let nn := vals.filter (· != .null)
  match fn with
  | .countStar => .ok (.int nrows)
  | .count => .ok (.int nn.length)
  | .sum =>
    if nn.isEmpty then .ok .null else
    nn.foldlM (fun acc v => match acc, v with
      | .int a, .int b => if i64Ok (a + b) then .ok (.int (a + b)) else .error .overflow
      | _, _ => .error .type) (.int 0)
  | .min =>
    match nn with
    | [] => .ok .null
    | v :: vs => vs.foldlM (fun acc x => do
        let o ← cmpVal x acc
        pure (if o == .lt then x else acc)) v
  | .max =>
    match nn with
    | [] => .ok .null
    | v :: vs => vs.foldlM (fun acc x => do
        let o ← cmpVal x acc
        pure (if o == .gt then x else acc)) v
  | .boolAnd => if nn.isEmpty then .ok .null else .ok (.bool (nn.all (· == .bool true)))
  | .boolOr => if nn.isEmpty then .ok .null else .ok (.bool (nn.any (· == .bool true)))

def dedupVals : List Value → List Value
  | [] => []
  | v :: vs => v :: (dedupVals vs).filter (· != v)

def lookupTable (db : Db) (t : String) : Option (List Row) :=
  (db.find? (·.1 == t)).map (·.2.2)

def lookupWidth (db : Db) (t : String) : Nat :=
  match db.find? (·.1 == t) with
  | some (_, w, _) => w
  | none => 0

/-! ### Evaluation (depth-fuelled mutual recursion) -/

mutual
def evalE (db : Db) : Nat → List Row → Row → Expr → Except Err Value
  | 0, _, _, _ => .error .fuel
  | f + 1, env, row, e =>
    match e with
    | .col i => match row[i]? with
      | some v => .ok v
      | none => .error .type
    | .ocol d i => match env[d]? with
      | some r => match r[i]? with
        | some v => .ok v
        | none => .error .type
      | none => .error .type
    | .lit v => .ok v
    | .bin op a b => do
      let x ← evalE db f env row a
      let y ← evalE db f env row b
      if op == "and" then and3 x y
      else if op == "or" then or3 x y
      else if op == "+" || op == "-" || op == "*" then arith op x y
      else if op == "isdistinct" then pure (.bool (x != y))          -- NULL-safe: never NULL
      else if op == "isnotdistinct" then pure (.bool (x == y))
      else cmpOp op x y
    | .not a => do not3 (← evalE db f env row a)
    | .neg a => do arith "-" (.int 0) (← evalE db f env row a)
    | .isNull a => do pure (.bool ((← evalE db f env row a) == .null))
    | .isNotNull a => do pure (.bool ((← evalE db f env row a) != .null))
    | .case whens els => evalCase db f env row whens els
    | .coalesce xs => evalCoalesce db f env row xs
    | .inList a xs => do
      let x ← evalE db f env row a
      let ys ← evalList db f env row xs
      inSem x ys
    | .between a lo hi => do
      let x ← evalE db f env row a
      let l ← evalE db f env row lo
      let h ← evalE db f env row hi
      and3 (← cmpOp ">=" x l) (← cmpOp "<=" x h)
    | .exists_ q => do
      let rs ← evalQ db f (row :: env) q
      pure (.bool (!rs.isEmpty))
    | .scalar q => do
      let rs ← evalQ db f (row :: env) q
      match rs with
      | [] => pure .null
      | [r] => match r with
        | [v] => pure v
        | _ => .error .type
      | _ => .error .card
    | .inSub a q => do
      let x ← evalE db f env row a
      let rs ← evalQ db f (row :: env) q
      inSem x (rs.map fun r => r.headD .null)
    | .notInSub a q => do
      let x ← evalE db f env row a
      let rs ← evalQ db f (row :: env) q
      not3 (← inSem x (rs.map fun r => r.headD .null))

def evalCase (db : Db) : Nat → List Row → Row → List (Expr × Expr) → Expr → Except Err Value
  | 0, _, _, _, _ => .error .fuel
  | f + 1, env, row, whens, els => do
    -- first WHEN that is TRUE decides; list iteration does not consume depth fuel
    let r ← whens.foldlM (fun (acc : Option Value) (wt : Expr × Expr) =>
      match acc with
      | some v => pure (some v)
      | none => do
        let c ← evalE db f env row wt.1
        if c == .bool true then do pure (some (← evalE db f env row wt.2)) else pure none) none
    match r with
    | some v => pure v
    | none => evalE db f env row els

def evalCoalesce (db : Db) : Nat → List Row → Row → List Expr → Except Err Value
  | 0, _, _, _ => .error .fuel
  | f + 1, env, row, xs => do
    let r ← xs.foldlM (fun (acc : Option Value) x =>
      match acc with
      | some v => pure (some v)
      | none => do
        let v ← evalE db f env row x
        pure (if v != .null then some v else none)) none
    pure (r.getD .null)

def evalList (db : Db) : Nat → List Row → Row → List Expr → Except Err (List Value)
  | 0, _, _, _ => .error .fuel
  | f + 1, env, row, xs => xs.mapM fun x => evalE db f env row x

/-- `x IN (ys)` in three-valued logic. -/
def inSem (x : Value) (ys : List Value) : Except Err Value :=
  ys.foldlM (fun acc y => do
    let e ← cmpOp "=" x y
    or3 acc e) (.bool false)

def evalRows (db : Db) : Nat → List Row → List (List Expr) → Except Err (List Row)
  | 0, _, _ => .error .fuel
  | f + 1, env, rows => rows.mapM fun r => evalList db f env [] r

/-- Rows of `rs` for which `p` is TRUE. -/
def filterRows (db : Db) : Nat → List Row → Expr → List Row → Except Err (List Row)
  | 0, _, _, _ => .error .fuel
  | f + 1, env, p, rs => rs.filterMapM fun r => do
      let c ← evalE db f env r p
      pure (if c == .bool true then some r else none)

def mapRows (db : Db) : Nat → List Row → List Expr → List Row → Except Err (List Row)
  | 0, _, _, _ => .error .fuel
  | f + 1, env, es, rs => rs.mapM fun r => evalList db f env r es

def evalAggs (db : Db) : Nat → List Row → List AggSpec → List Row → Except Err (List Value)
  | 0, _, _, _ => .error .fuel
  | f + 1, env, specs, rows => specs.mapM fun spec =>
    match spec with
    | .mk fn dist arg filt => do
      let rows' ← match filt with
        | none => pure rows
        | some p => filterRows db f env p rows
      let vals ← match fn with
        | .countStar => pure []
        | _ => do
          let vs ← mapRows db f env [arg] rows'
          pure (vs.map fun r => r.headD .null)
      let vals := if dist then dedupVals vals else vals
      aggEval fn vals rows'.length

def evalGroups (db : Db) : Nat → List Row → List AggSpec → List (Row × List Row) → Except Err (List Row)
  | 0, _, _, _ => .error .fuel
  | f + 1, env, specs, groups => groups.mapM fun (k, rows) => do
      let a ← evalAggs db f env specs rows
      pure (k ++ a)

/-- One result block per grouping set: keys outside the set are NULL in the output and do not
take part in the grouping. -/
def evalSets (db : Db) : Nat → List Row → List AggSpec → List (List Nat) → List Row → List Row → Except Err (List Row)
  | 0, _, _, _, _, _ => .error .fuel
  | f + 1, env, specs, sets, keyedAll, rs => do
    let blocks ← sets.mapM fun s => do
      let mask (k : Row) : Row := (k.zipIdx).map fun (v, i) => if s.contains i then v else .null
      let keyed := keyedAll.map mask
      let ks := dedup keyed
      let grouped := ks.map fun k => (k, (keyed.zip rs).filterMap fun (k', r) => if rowEq k k' then some r else none)
      -- dialect fact (DESIGN appendix F): over empty input the engine emits no row for any grouping
      -- set, including the empty one (PostgreSQL would emit the grand-total row)
      evalGroups db f env specs grouped
    pure blocks.flatten

def evalQ (db : Db) : Nat → List Row → Query → Except Err (List Row)
  | 0, _, _ => .error .fuel
  | f + 1, env, q =>
    match q with
    | .scan t => match lookupTable db t with
      | some rs => .ok rs
      | none => .error .unsupported
    | .values rows => evalRows db f env rows
    | .filter p q => do
      let rs ← evalQ db f env q
      filterRows db f env p rs
    | .project es q => do
      let rs ← evalQ db f env q
      mapRows db f env es rs
    | .join k on l r => do
      let ls ← evalQ db f env l
      let rs ← evalQ db f env r
      let rw := match rs with | x :: _ => x.length | [] => 0   -- width only needed for padding when rs non-empty
      let lw := match ls with | x :: _ => x.length | [] => 0
      match k with
      | .cross => pure (ls.flatMap fun a => rs.map fun b => a ++ b)
      | .inner => do
        let pairs := ls.flatMap fun a => rs.map fun b => a ++ b
        filterRows db f env on pairs
      | .left => do
        let out ← ls.mapM fun a => do
          let m ← filterRows db f env on (rs.map fun b => a ++ b)
          pure (if m.isEmpty then [a ++ List.replicate (widthOf db f env r rw) .null] else m)
        pure out.flatten
      | .right => do
        let out ← rs.mapM fun b => do
          let m ← filterRows db f env on (ls.map fun a => a ++ b)
          pure (if m.isEmpty then [List.replicate (widthOf db f env l lw) .null ++ b] else m)
        pure out.flatten
      | .semi => do
        let out ← ls.mapM fun a => do
          let m ← filterRows db f env on (rs.map fun b => a ++ b)
          pure (if m.isEmpty then [] else [a])
        pure out.flatten
      | .anti => do
        let out ← ls.mapM fun a => do
          let m ← filterRows db f env on (rs.map fun b => a ++ b)
          pure (if m.isEmpty then [a] else [])
        pure out.flatten
    | .agg groups aggs q => do
      let rs ← evalQ db f env q
      let keyed ← mapRows db f env groups rs
      let ks := dedup keyed
      if groups.isEmpty then do
        let a ← evalAggs db f env aggs rs
        pure [a]
      else
        let grouped := ks.map fun k => (k, (keyed.zip rs).filterMap fun (k', r) => if rowEq k k' then some r else none)
        evalGroups db f env aggs grouped
    | .aggSets groups sets aggs q => do
      let rs ← evalQ db f env q
      let keyedAll ← mapRows db f env groups rs
      evalSets db f env aggs sets keyedAll rs
    | .distinct q => do pure (dedup (← evalQ db f env q))
    | .union all l r => do
      let a ← evalQ db f env l
      let b ← evalQ db f env r
      pure (if all then a ++ b else dedup (a ++ b))
    | .sort keys q => do
      let rs ← evalQ db f env q
      let keyed ← mapRows db f env (keys.map (·.1)) rs
      let spec := keys.map fun (_, d, nf) => (d, nf)
      let sorted := sortBy (fun (a b : List Value × Row) => keysCmp spec a.1 b.1) (keyed.zip rs)
      pure (sorted.map (·.2))
    | .limit n off q => do
      let rs ← evalQ db f env q
      pure ((rs.drop off).take n)

/-- Output width of a query (used to pad outer joins when the other side is empty). -/
def widthOf (db : Db) : Nat → List Row → Query → Nat → Nat
  | 0, _, _, d => d
  | f + 1, env, q, d =>
    match q with
    | .scan t => lookupWidth db t
    | .values (r :: _) => r.length
    | .values [] => d
    | .filter _ q => widthOf db f env q d
    | .project es _ => es.length
    | .join k _ l r => match k with
      | .semi | .anti => widthOf db f env l d
      | _ => widthOf db f env l 0 + widthOf db f env r 0
    | .agg g a _ => g.length + a.length
    | .aggSets g _ a _ => g.length + a.length
    | .distinct q => widthOf db f env q d
    | .union _ l _ => widthOf db f env l d
    | .sort _ q => widthOf db f env q d
    | .limit _ _ q => widthOf db f env q d
end

end GlareModel.Sem
