/-
Parquet RLE / bit-packing hybrid decoder (`glaredb_ext_parquet/src/column/encoding/rle_bit_packed.rs`)
with the VLQ and bit-unpacking helpers of `column/bitutil.rs`, as a *resumable* decoder over an
explicit byte cursor. Every `*_unchecked` read of the Rust code is modelled by `none` when the
cursor has too few bytes (the Rust code would read out of bounds there).
-/
namespace GlareModel.Rle

/-- `read_unsigned_vlq`: 7 bits per byte, least significant group first; more than 10 bytes is an
error in the Rust code (`shift >= 64`). -/
def readVlq : List Nat → Nat → Nat → Option (Nat × List Nat)
  | [], _, _ => none
  | b :: rest, shift, acc =>
    let acc := acc + (b % 128) * 2 ^ shift
    if b < 128 then some (acc, rest)
    else if shift + 7 ≥ 64 then none
    else readVlq rest (shift + 7) acc

/-- Unsigned VLQ encoder (used by the round-trip theorem and the test generator). -/
def writeVlq (n : Nat) : List Nat :=
  if h : n < 128 then [n] else (n % 128 + 128) :: writeVlq (n / 128)
termination_by n
decreasing_by omega

structure St where
  bytes : List Nat
  width : Nat
  curVal : Nat := 0
  rleLeft : Nat := 0
  bpLeft : Nat := 0
  bitPos : Nat := 0
  deriving Repr, DecidableEq

/-- One bit-packed value of `w` bits starting at bit `pos` of the first byte (`bit_unpack` for a
single output slot): returns the value, the remaining bytes and the new bit position. -/
def unpack1 : Nat → List Nat → Nat → Nat → Nat → Option (Nat × List Nat × Nat)
  | 0, bytes, pos, _, acc => some (acc, bytes, pos)
  | need + 1, [], _, _, _ => if need + 1 = 0 then none else none
  | need + 1, b :: rest, pos, off, acc =>
    -- take one bit at a time: bit `pos` of `b`
    let bit := b / 2 ^ pos % 2
    let acc := acc + bit * 2 ^ off
    if pos + 1 = 8 then unpack1 need rest 0 (off + 1) acc
    else unpack1 need (b :: rest) (pos + 1) (off + 1) acc

/-- Little-endian value of the next `n` bytes (`read_next`'s RLE value). -/
def readLe : Nat → List Nat → Nat → Nat → Option (Nat × List Nat)
  | 0, bytes, _, acc => some (acc, bytes)
  | _ + 1, [], _, _ => none
  | n + 1, b :: rest, i, acc => readLe n rest (i + 1) (acc + b * 2 ^ (8 * i))

/-- `read_next`: run header. Requires byte alignment. -/
def readNext (s : St) : Option St :=
  if s.bitPos ≠ 0 then none else
  match readVlq s.bytes 0 0 with
  | none => none
  | some (ind, rest) =>
    if ind % 2 = 1 then some { s with bytes := rest, bpLeft := (ind / 2) * 8 }
    else
      match readLe ((s.width + 7) / 8) rest 0 0 with
      | none => none
      | some (v, rest') => some { s with bytes := rest', rleLeft := ind / 2, curVal := v }

/-- Decode one value (fetching run headers as needed; `fuel` bounds the number of empty runs
skipped, every header consumes at least one byte). -/
def read1 : Nat → St → Option (Nat × St)
  | 0, _ => none
  | fuel + 1, s =>
    if s.rleLeft > 0 then some (s.curVal, { s with rleLeft := s.rleLeft - 1 })
    else if s.bpLeft > 0 then
      if s.width = 0 then some (0, { s with bpLeft := s.bpLeft - 1 })
      else match unpack1 s.width s.bytes s.bitPos 0 0 with
        | none => none
        | some (v, rest, pos) => some (v, { s with bytes := rest, bitPos := pos, bpLeft := s.bpLeft - 1 })
    else match readNext s with
      | none => none
      | some s' => read1 fuel s'

/-- `RleBitPackedDecoder::read` of `n` values. -/
def readN : Nat → St → Option (List Nat × St)
  | 0, s => some ([], s)
  | n + 1, s =>
    match read1 (s.bytes.length + 2) s with
    | none => none
    | some (v, s') =>
      match readN n s' with
      | none => none
      | some (vs, s'') => some (v :: vs, s'')

/-- Writer for RLE runs only: `(count, value)` pairs. -/
def leBytes : Nat → Nat → List Nat
  | 0, _ => []
  | n + 1, v => (v % 256) :: leBytes n (v / 256)

def encodeRleRuns (width : Nat) : List (Nat × Nat) → List Nat
  | [] => []
  | (cnt, v) :: rest => writeVlq (cnt * 2) ++ leBytes ((width + 7) / 8) v ++ encodeRleRuns width rest

end GlareModel.Rle
