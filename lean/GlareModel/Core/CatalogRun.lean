import GlareModel.Core.Catalog

/-! Line-protocol front end of the catalog model: `case N cat <threads> <nsessions> ;; (sid stmt) ;; ...`
prints one outcome per statement, separated by ` | `. -/
namespace GlareModel.Catalog
open GlareModel GlareModel.Sem

def atomBool : Sexp → Bool
  | .atom "1" => true
  | .atom "true" => true
  | _ => false

/-- Names scanned by a query term, read off the s-expression (`(scan name)` at any depth). -/
partial def scansOf : Sexp → List String
  | .list [.atom "scan", .atom t] => [t]
  | .list xs => xs.flatMap scansOf
  | _ => []

/-- Parsed statement plus the observed leftover flag for CTAS (see `stepObs`). -/
def parseStmt : Sexp → Option (Stmt × Bool)
  | .list [.atom "create-schema", .atom s, ine] => some (.createSchema s (atomBool ine), false)
  | .list [.atom "drop-schema", .atom s, ie] => some (.dropSchema s (atomBool ie), false)
  | .list [.atom "create-table", .atom s, .atom n, ine, .atom w] => do
    pure (.createTable s n (atomBool ine) (← w.toNat?), false)
  | .list [.atom "create-view", .atom s, .atom n, .atom w, q] => do
    pure (.createView s n (← w.toNat?) (← parseQuery q) (scansOf q), false)
  | .list [.atom "drop", .atom s, .atom n, ie] => some (.dropObj s n (atomBool ie), false)
  | .list [.atom "insert", .atom s, .atom n, q] => do pure (.insert s n (← parseQuery q) (scansOf q), false)
  | .list [.atom "ctas", .atom s, .atom n, ine, .atom w, left, q] => do
    pure (.ctas s n (atomBool ine) (← w.toNat?) (← parseQuery q) (scansOf q), atomBool left)
  | .list [.atom "set", .atom v, isb, .atom x] => do pure (.setVar v (atomBool isb) (← x.toInt?), false)
  | .list [.atom "reset", .atom v] => some (.resetVar v, false)
  | .list [.atom "show", .atom v] => some (.showVar v, false)
  | .list [.atom "select", q] => do pure (.select (← parseQuery q) (scansOf q), false)
  | .list [.atom "list"] => some (.listObjs, false)
  | _ => none

def showPairs (ps : List (String × String)) : String :=
  ",".intercalate (ps.map fun (a, b) => a ++ "." ++ b)

def showOutcome : Outcome → String
  | .ok => "ok"
  | .err false => "err"
  | .err true => "err-rt"
  | .count n => s!"count {n}"
  | .rows rs => "rows " ++ rowsJson rs
  | .val true x => if x == 0 then "val false" else "val true"
  | .val false x => s!"val {x}"
  | .objs ss ts vs => s!"objs schemas={",".intercalate ss} tables={showPairs ts} views={showPairs vs}"

/-- The step the driver replays: the specification, except that a CTAS whose query fails at run
time follows the code-shaped `stepImpl` when the harness observed that the table was left behind. -/
def stepObs (threads : Int) (ss : List Sess) (sid : Nat) (st : Stmt) (left : Bool) : List Sess × Outcome :=
  stepAt left threads ss sid st

def runScript (payload : String) : String :=
  match payload.splitOn " ;; " with
  | hd :: stmts =>
    match hd.trimAscii.toString.splitOn " " with
    | [t, k] =>
      match t.toInt?, k.toNat? with
      | some threads, some nsess =>
        let init := List.replicate nsess Sess.init
        let (_, outs) := stmts.foldl (fun (acc : List Sess × List String) line =>
          let (ss, outs) := acc
          match Sexp.parse line with
          | some (.list [.atom sid, body]) =>
            match sid.toNat?, parseStmt body with
            | some i, some (st, left) =>
              let (ss', o) := stepObs threads ss i st left
              (ss', outs ++ [showOutcome o])
            | _, _ => (ss, outs ++ ["bad-stmt"])
          | _ => (ss, outs ++ ["bad-sexp"])) (init, [])
        " | ".intercalate outs
      | _, _ => "bad-header"
    | _ => "bad-header"
  | [] => "bad-case"

end GlareModel.Catalog
