/-
String functions on Unicode code points (`functions/scalar/builtin/string/*.rs`).
-/
namespace GlareModel.Str

def left (s : List Char) (n : Int) : List Char :=
  if n ≥ 0 then s.take n.toNat else s.take (s.length - (-n).toNat)

def right (s : List Char) (n : Int) : List Char :=
  if n ≥ 0 then s.drop (s.length - n.toNat) else s.drop (-n).toNat

/-- `substring(s, from)`, 1-based; positions before the first character are empty. -/
def substringFrom (s : List Char) (from_ : Int) : List Char :=
  if from_ < 1 then s else s.drop (from_ - 1).toNat

/-- `substring(s, from, count)`: positions before the first character count towards `count`. -/
def substring (s : List Char) (from_ count : Int) : List Char :=
  if from_ < 1 then s.take (count + from_ - 1).toNat
  else (s.drop (from_ - 1).toNat).take count.toNat

def repeat_ (s : List Char) (n : Int) : List Char :=
  (List.replicate n.toNat s).flatten

/-- `lpad(s, n, pad)`: truncate to `n` characters, or fill on the left by repeating `pad`. -/
def lpad (s : List Char) (n : Int) (pad : List Char) : List Char :=
  if pad.isEmpty then s
  else if (s.length : Int) > n then s.take n.toNat
  else
    let need := (n - s.length).toNat
    ((List.replicate (need / pad.length + 1) pad).flatten.take need) ++ s

def rpad (s : List Char) (n : Int) (pad : List Char) : List Char :=
  if pad.isEmpty then s
  else if n ≤ 0 then []
  else if (s.length : Int) > n then s.take n.toNat
  else
    let need := (n - s.length).toNat
    s ++ ((List.replicate (need / pad.length + 1) pad).flatten.take need)

/-- 1-based position of the first occurrence of `needle`, 0 if absent (`strpos`). -/
def strposAux (needle : List Char) : List Char → Nat → Nat
  | [], i => if needle.isEmpty then i else 0
  | h :: t, i => if needle.isPrefixOf (h :: t) then i else strposAux needle t (i + 1)

def strpos (s needle : List Char) : Nat := strposAux needle s 1

end GlareModel.Str
