/-
CSV record decoder: a byte-level state machine for a dialect (delimiter, quote) with
CR / LF / CRLF record terminators, quoted fields, doubled-quote escapes and skipped empty
lines — the behaviour of `csv_core::Reader` as configured by `DialectOptions::csv_core_reader`,
driven like `CsvDecoder::decode` (any chunking) and finished like `CsvReader::poll_pull`
(an empty input at end of stream completes the last record).
-/
namespace GlareModel.Csv

inductive St where
  | startRecord | startField | inField | inQuoted | quoteInQuoted
  deriving Repr, DecidableEq, Inhabited

structure Dec where
  st : St := .startRecord
  field : List Nat := []            -- current field, reversed
  fields : List (List Nat) := []    -- completed fields of the current record, reversed
  out : List (List (List Nat)) := [] -- completed records, reversed
  deriving Repr, Inhabited

def Dec.endField (s : Dec) : Dec :=
  { s with field := [], fields := s.field.reverse :: s.fields, st := .startField }

def Dec.endRecord (s : Dec) : Dec :=
  let s := s.endField
  { s with fields := [], out := s.fields.reverse :: s.out, st := .startRecord }

def isTerm (b : Nat) : Bool := b == 10 || b == 13

def step (delim quote : Nat) (s : Dec) (b : Nat) : Dec :=
  match s.st with
  | .startRecord =>
    if isTerm b then s                                    -- empty lines and the LF of CRLF are skipped
    else if b == quote then { s with st := .inQuoted }
    else if b == delim then s.endField
    else { s with field := b :: s.field, st := .inField }
  | .startField =>
    if isTerm b then s.endRecord
    else if b == quote then { s with st := .inQuoted }
    else if b == delim then s.endField
    else { s with field := b :: s.field, st := .inField }
  | .inField =>
    if isTerm b then s.endRecord
    else if b == delim then s.endField
    else { s with field := b :: s.field }
  | .inQuoted =>
    if b == quote then { s with st := .quoteInQuoted }
    else { s with field := b :: s.field }
  | .quoteInQuoted =>
    if b == quote then { s with field := b :: s.field, st := .inQuoted }
    else if isTerm b then s.endRecord
    else if b == delim then s.endField
    else { s with field := b :: s.field, st := .inField }

/-- `CsvDecoder::decode` on one chunk. -/
def decode (delim quote : Nat) (s : Dec) (chunk : List Nat) : Dec := chunk.foldl (step delim quote) s

/-- End of stream (empty input): a started record is completed. -/
def finish (s : Dec) : Dec :=
  match s.st with
  | .startRecord => s
  | _ => s.endRecord

def records (s : Dec) : List (List (List Nat)) := s.out.reverse

/-- Decode a whole file given as chunks. -/
def run (delim quote : Nat) (chunks : List (List Nat)) : List (List (List Nat)) :=
  records (finish (chunks.foldl (decode delim quote) {}))

end GlareModel.Csv
