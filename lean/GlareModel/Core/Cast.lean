import GlareModel.Core.Arith

/-
Code-shaped model of casts: `functions/cast/builtin/to_primitive.rs` (checked numeric
conversion), `to_decimal.rs` (`IntToDecimal`, `DecimalToDecimal` are in `Core/Arith.lean`),
`cast/parse.rs` (integer, decimal, boolean, date parsers) and `cast/format.rs`
(integer, decimal, boolean, date formatters).  Text is a `List Char`.
-/
namespace GlareModel.Cast
open GlareModel.Arith

/-- `PrimToPrim` between integer types: `NumCast::from`, `None` when out of range. -/
def intToInt (dst : IntTy) (v : Int) : Option Int :=
  if dst.inRange v then some v else none

/-! ## f64 → integer (`NumCast` from a float: truncate toward zero, range-checked) -/

/-- Exact value of a finite f64 bit pattern as `sign * mant * 2^exp`. `none` for NaN/±∞. -/
def f64Decode (bits : Nat) : Option (Bool × Nat × Int) :=
  let sign : Bool := bits / 2 ^ 63 % 2 == 1
  let e : Nat := bits / 2 ^ 52 % 2 ^ 11
  let m : Nat := bits % 2 ^ 52
  if e == 2047 then none
  else if e == 0 then some (sign, m, -1074)
  else some (sign, m + 2 ^ 52, (e : Int) - 1075)

/-- Truncation toward zero of `mant * 2^exp`. -/
def truncMag (m : Nat) (e : Int) : Nat :=
  if e ≥ 0 then m * 2 ^ e.toNat else m / 2 ^ (-e).toNat

def f64ToInt (dst : IntTy) (bits : Nat) : Option Int :=
  match f64Decode bits with
  | none => none
  | some (neg, m, e) =>
    let mag : Int := truncMag m e
    let v := if neg then -mag else mag
    if dst.inRange v then some v else none

/-! ## Integers ↔ text (`FromStr` / `Display`) -/

def digitChar (d : Nat) : Char := Char.ofNat (48 + d)

/-- Decimal digits, most significant first (at least one digit). -/
def natDigits (n : Nat) : List Nat :=
  if h : n < 10 then [n] else natDigits (n / 10) ++ [n % 10]
termination_by n
decreasing_by omega

def formatNat (n : Nat) : List Char := (natDigits n).map digitChar

def formatInt (v : Int) : List Char :=
  if v < 0 then '-' :: formatNat v.natAbs else formatNat v.natAbs

def digitVal (c : Char) : Option Nat :=
  if '0' ≤ c ∧ c ≤ '9' then some (c.toNat - 48) else none

/-- Parse a non-empty digit string. -/
def parseDigits : List Char → Option Nat
  | [] => none
  | cs => cs.foldl (fun acc c => match acc, digitVal c with
      | some a, some d => some (a * 10 + d)
      | _, _ => none) (some 0)

/-- Rust `iN::from_str` / `uN::from_str`: optional `+`, `-` only for signed types (for
unsigned a leading `-` is an invalid digit), at least one digit, nothing else, range-checked. -/
def parseInt (t : IntTy) (s : List Char) : Option Int :=
  match s with
  | '-' :: rest =>
    if t.signed then
      match parseDigits rest with
      | some n => if t.inRange (-(n : Int)) then some (-(n : Int)) else none
      | none => none
    else none
  | '+' :: rest =>
    match parseDigits rest with
    | some n => if t.inRange n then some (n : Int) else none
    | none => none
  | _ =>
    match parseDigits s with
    | some n => if t.inRange n then some (n : Int) else none
    | none => none

/-! ## Booleans -/
def formatBool (b : Bool) : List Char := if b then "true".toList else "false".toList
def parseBool (s : List Char) : Option Bool :=
  if s = "t".toList ∨ s = "true".toList ∨ s = "TRUE".toList ∨ s = "T".toList then some true
  else if s = "f".toList ∨ s = "false".toList ∨ s = "FALSE".toList ∨ s = "F".toList then some false
  else none

/-! ## Decimals ↔ text -/

/-- `DecimalFormatter`: sign, integer digits, and `scale` fraction digits (scale ≥ 0). -/
def formatDecimal (scale : Nat) (v : Int) : List Char :=
  let a := v.natAbs
  let ip := a / 10 ^ scale
  let fp := a % 10 ^ scale
  let fdigits := natDigits fp
  let frac := List.replicate (scale - fdigits.length) '0' ++ fdigits.map digitChar
  let body := if scale = 0 then formatNat ip else formatNat ip ++ '.' :: frac
  if v < 0 then '-' :: body else body

structure DecParse where
  val : Nat
  digits : Nat
  decimals : Nat
  deriving Repr

/-- `DecimalParser::parse` for a non-negative scale, branch for branch: leading zeros before the
point are skipped, fraction digits beyond `scale` are *dropped* (truncation, finding F23), at
least one digit is required and the zero-padded value must fit the precision (F21/F22/F32 fixes);
overflow of the accumulator returns `None` in the code — it can only happen with more than
`prec` digits, which is rejected here as well. -/
def parseDecimal (prec scale : Nat) (s : List Char) : Option Int :=
  let (neg, body) := match s with
    | '-' :: r => (true, r)
    | '+' :: r => (false, r)
    | r => (false, r)
  let rec intPart : List Char → Nat → Nat → Bool → Option (Nat × Nat × Bool × List Char)
    | [], v, d, any => some (v, d, any, [])
    | c :: cs, v, d, any =>
      if c = '.' then some (v, d, any, cs)
      else match digitVal c with
        | some k => if d = 0 ∧ k = 0 then intPart cs v d true else intPart cs (v * 10 + k) (d + 1) true
        | none => none
  let rec fracPart : List Char → Nat → Nat → Nat → Bool → Option (Nat × Nat × Nat × Bool)
    | [], v, d, f, any => some (v, d, f, any)
    | c :: cs, v, d, f, any =>
      match digitVal c with
      | some k => if f = scale then fracPart cs v d f true else fracPart cs (v * 10 + k) (d + 1) (f + 1) true
      | none => none
  match intPart body 0 0 false with
  | none => none
  | some (v, d, any, rest) =>
    match fracPart rest v d 0 any with
    | none => none
    | some (v, d, f, any) =>
      if !any then none
      else if d > prec then none
      else if v ≠ 0 ∧ d + (scale - f) > prec then none
      else
        let v := v * 10 ^ (scale - f)
        some (if neg then -(v : Int) else (v : Int))

/-! ## Dates (days since 1970-01-01 ↔ proleptic Gregorian civil date) -/

/-- Days from civil (Hinnant's algorithm), `m ∈ 1..12`, `d ∈ 1..31`. -/
def daysFromCivil (y : Int) (m d : Nat) : Int :=
  let y' := if m ≤ 2 then y - 1 else y
  let era := (if y' ≥ 0 then y' else y' - 399) / 400
  let yoe := y' - era * 400
  let mp : Int := if m > 2 then (m : Int) - 3 else (m : Int) + 9
  let doy := (153 * mp + 2) / 5 + (d : Int) - 1
  let doe := yoe * 365 + yoe / 4 - yoe / 100 + doy
  era * 146097 + doe - 719468

def civilFromDays (z : Int) : Int × Nat × Nat :=
  let z := z + 719468
  let era := (if z ≥ 0 then z else z - 146096) / 146097
  let doe := z - era * 146097
  let yoe := (doe - doe / 1460 + doe / 36524 - doe / 146096) / 365
  let y := yoe + era * 400
  let doy := doe - (365 * yoe + yoe / 4 - yoe / 100)
  let mp := (5 * doy + 2) / 153
  let d := doy - (153 * mp + 2) / 5 + 1
  let m := if mp < 10 then mp + 3 else mp - 9
  (if m ≤ 2 then y + 1 else y, m.toNat, d.toNat)

def isLeap (y : Int) : Bool := (y % 4 == 0 && y % 100 != 0) || y % 400 == 0
def daysInMonth (y : Int) (m : Nat) : Nat :=
  match m with
  | 1 | 3 | 5 | 7 | 8 | 10 | 12 => 31
  | 4 | 6 | 9 | 11 => 30
  | 2 => if isLeap y then 29 else 28
  | _ => 0

def pad (w : Nat) (cs : List Char) : List Char := List.replicate (w - cs.length) '0' ++ cs

/-- `Date32Formatter` (`%Y-%m-%d`) for years 0..9999. -/
def formatDate (days : Int) : List Char :=
  let (y, m, d) := civilFromDays days
  pad 4 (formatNat y.toNat) ++ '-' :: pad 2 (formatNat m) ++ '-' :: pad 2 (formatNat d)

/-- `Date32Parser` (`NaiveDate::from_str`) restricted to the canonical `YYYY-MM-DD` shape
with calendar validation. -/
def parseDate (s : List Char) : Option Int :=
  match s with
  | [y1, y2, y3, y4, '-', m1, m2, '-', d1, d2] =>
    match parseDigits [y1, y2, y3, y4], parseDigits [m1, m2], parseDigits [d1, d2] with
    | some y, some m, some d =>
      if 1 ≤ m ∧ m ≤ 12 ∧ 1 ≤ d ∧ d ≤ daysInMonth y m then some (daysFromCivil y m d) else none
    | _, _, _ => none
  | _ => none

end GlareModel.Cast
