/-
Minimal s-expression reader for the line protocol (queries, databases). Atoms are bare words
or double-quoted strings with `\"` and `\\` escapes.
-/
namespace GlareModel

inductive Sexp where
  | atom (s : String)
  | str (s : String)
  | list (xs : List Sexp)
  deriving Repr, Inhabited

namespace Sexp

partial def parseList (cs : List Char) (acc : List Sexp) : Option (List Sexp × List Char) :=
  match cs with
  | [] => none
  | ')' :: rest => some (acc.reverse, rest)
  | c :: rest =>
    if c == ' ' || c == '\n' || c == '\t' then parseList rest acc
    else if c == '(' then
      match parseList rest [] with
      | some (xs, rest') => parseList rest' (Sexp.list xs :: acc)
      | none => none
    else if c == '"' then
      let rec strLoop (cs : List Char) (buf : List Char) : Option (String × List Char) :=
        match cs with
        | [] => none
        | '\\' :: x :: r => strLoop r (x :: buf)
        | '"' :: r => some (String.ofList buf.reverse, r)
        | x :: r => strLoop r (x :: buf)
      match strLoop rest [] with
      | some (s, rest') => parseList rest' (Sexp.str s :: acc)
      | none => none
    else
      let rec atomLoop (cs : List Char) (buf : List Char) : String × List Char :=
        match cs with
        | [] => (String.ofList buf.reverse, [])
        | x :: r =>
          if x == ' ' || x == ')' || x == '(' || x == '\n' then (String.ofList buf.reverse, x :: r)
          else atomLoop r (x :: buf)
      let (a, rest') := atomLoop (c :: rest) []
      parseList rest' (Sexp.atom a :: acc)

/-- Parse one s-expression from a string. -/
def parse (s : String) : Option Sexp :=
  match parseList (s.toList ++ [')']) [] with
  | some ([x], _) => some x
  | _ => none

end Sexp
end GlareModel
