import GlareModel.Core.Sem

/-! Conversion of s-expressions (line protocol) into `Sem` terms, and JSON output of rows in
the same canonical cell format the harness prints. -/
namespace GlareModel.Sem
open GlareModel

def parseValue : Sexp → Option Value
  | .atom "null" => some .null
  | .atom "true" => some (.bool true)
  | .atom "false" => some (.bool false)
  | .atom a => a.toInt?.map .int
  | .str s => some (.str s)
  | _ => none

def parseJoinKind : String → Option JoinKind
  | "inner" => some .inner | "left" => some .left | "right" => some .right
  | "cross" => some .cross | "semi" => some .semi | "anti" => some .anti
  | _ => none

def parseAggFn : String → Option AggFn
  | "count_star" => some .countStar | "count" => some .count | "sum" => some .sum
  | "min" => some .min | "max" => some .max | "bool_and" => some .boolAnd | "bool_or" => some .boolOr
  | _ => none

mutual
partial def parseExpr : Sexp → Option Expr
  | .atom "null" => some (.lit .null)
  | .atom "true" => some (.lit (.bool true))
  | .atom "false" => some (.lit (.bool false))
  | .list [.atom "col", .atom i] => i.toNat?.map .col
  | .list [.atom "ocol", .atom d, .atom i] => do pure (.ocol (← d.toNat?) (← i.toNat?))
  | .list [.atom "int", .atom n] => n.toInt?.map fun i => .lit (.int i)
  | .list [.atom "str", .str s] => some (.lit (.str s))
  | .list [.atom "not", a] => do pure (.not (← parseExpr a))
  | .list [.atom "neg", a] => do pure (.neg (← parseExpr a))
  | .list [.atom "isnull", a] => do pure (.isNull (← parseExpr a))
  | .list [.atom "isnotnull", a] => do pure (.isNotNull (← parseExpr a))
  | .list [.atom "case", .list whens, els] => do
    let ws ← whens.mapM fun w => match w with
      | .list [c, t] => do pure (← parseExpr c, ← parseExpr t)
      | _ => none
    pure (.case ws (← parseExpr els))
  | .list (.atom "coalesce" :: xs) => do pure (.coalesce (← xs.mapM parseExpr))
  | .list [.atom "in", a, .list xs] => do pure (.inList (← parseExpr a) (← xs.mapM parseExpr))
  | .list [.atom "between", a, lo, hi] => do pure (.between (← parseExpr a) (← parseExpr lo) (← parseExpr hi))
  | .list [.atom "exists", q] => do pure (.exists_ (← parseQuery q))
  | .list [.atom "scalar", q] => do pure (.scalar (← parseQuery q))
  | .list [.atom "insub", a, q] => do pure (.inSub (← parseExpr a) (← parseQuery q))
  | .list [.atom "notinsub", a, q] => do pure (.notInSub (← parseExpr a) (← parseQuery q))
  | .list [.atom op, a, b] => do pure (.bin op (← parseExpr a) (← parseExpr b))
  | _ => none

partial def parseQuery : Sexp → Option Query
  | .list [.atom "scan", .atom t] => some (.scan t)
  | .list [.atom "values", .list rows] => do
    let rs ← rows.mapM fun r => match r with
      | .list es => es.mapM parseExpr
      | _ => none
    pure (.values rs)
  | .list [.atom "filter", p, q] => do pure (.filter (← parseExpr p) (← parseQuery q))
  | .list [.atom "project", .list es, q] => do pure (.project (← es.mapM parseExpr) (← parseQuery q))
  | .list [.atom "join", .atom k, on, l, r] => do
    pure (.join (← parseJoinKind k) (← parseExpr on) (← parseQuery l) (← parseQuery r))
  | .list [.atom "agg", .list gs, .list aggs, q] => do
    let as ← aggs.mapM fun a => match a with
      | .list [.atom fn, .atom d, arg, filt] => do
        let f ← match filt with
          | .atom "none" => pure none
          | e => (parseExpr e).map some
        pure (AggSpec.mk (← parseAggFn fn) (d == "distinct") (← parseExpr arg) f)
      | _ => none
    pure (.agg (← gs.mapM parseExpr) as (← parseQuery q))
  | .list [.atom "aggsets", .list gs, .list sets, .list aggs, q] => do
    let as ← aggs.mapM fun a => match a with
      | .list [.atom fn, .atom d, arg, filt] => do
        let f ← match filt with
          | .atom "none" => pure none
          | e => (parseExpr e).map some
        pure (AggSpec.mk (← parseAggFn fn) (d == "distinct") (← parseExpr arg) f)
      | _ => none
    let ss ← sets.mapM fun st => match st with
      | .list is => is.mapM fun i => match i with
        | .atom a => a.toNat?
        | _ => none
      | _ => none
    pure (.aggSets (← gs.mapM parseExpr) ss as (← parseQuery q))
  | .list [.atom "distinct", q] => do pure (.distinct (← parseQuery q))
  | .list [.atom "union", .atom a, l, r] => do pure (.union (a == "all") (← parseQuery l) (← parseQuery r))
  | .list [.atom "sort", .list keys, q] => do
    let ks ← keys.mapM fun k => match k with
      | .list [e, .atom d, .atom nf] => do pure (← parseExpr e, d == "desc", nf == "first")
      | _ => none
    pure (.sort ks (← parseQuery q))
  | .list [.atom "limit", .atom n, .atom off, q] => do pure (.limit (← n.toNat?) (← off.toNat?) (← parseQuery q))
  | _ => none
end

def parseDb : Sexp → Option Db
  | .list tables => tables.mapM fun t => match t with
    | .list [.atom name, .atom w, .list rows] => do
      let rs ← rows.mapM fun r => match r with
        | .list vs => vs.mapM parseValue
        | _ => none
      pure (name, ← w.toNat?, rs)
    | _ => none
  | _ => none

def jsonStr (s : String) : String :=
  "\"" ++ String.join (s.toList.map fun c =>
    if c == '"' then "\\\"" else if c == '\\' then "\\\\" else String.singleton c) ++ "\""

def cellJson : Value → String
  | .null => "null"
  | .int i => s!"\"{i}\""
  | .bool b => if b then "\"true\"" else "\"false\""
  | .str s => jsonStr ("s:" ++ s)

def rowsJson (rs : List Row) : String :=
  "[" ++ ", ".intercalate (rs.map fun r => "[" ++ ", ".intercalate (r.map cellJson) ++ "]") ++ "]"

def errName : Err → String
  | .overflow => "overflow" | .divZero => "divzero" | .type => "type" | .fuel => "fuel"
  | .card => "card" | .unsupported => "unsupported"

/-- `case N sem <db sexp> <query sexp>` (both on one line, separated by ` ;; `). -/
def runSem (payload : String) : String :=
  match payload.splitOn " ;; " with
  | [dbs, qs] =>
    match Sexp.parse dbs, Sexp.parse qs with
    | some d, some q =>
      match parseDb d, parseQuery q with
      | some db, some query =>
        match evalQ db 200 [] query with
        | .ok rows => "ok " ++ rowsJson rows
        | .error e => "err " ++ errName e
      | none, _ => "bad-db"
      | _, none => "bad-query"
    | _, _ => "bad-sexp"
  | _ => "bad-case"

end GlareModel.Sem
