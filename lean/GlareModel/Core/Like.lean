/-
LIKE: the denotation of a pattern (`likeMatch`, spec-shaped) and the code-shaped constant-pattern
rewrite of `optimizer/expr_rewrite/like.rs` (`classify` = can_str_compare / is_prefix_pattern /
is_suffix_pattern / is_contains_pattern, `rewriteEval` = what the rewritten expression computes).
Strings are lists of Unicode code points.
-/
namespace GlareModel.Like

/-- `%` any sequence (newlines included), `_` exactly one character, `\` makes the next
character literal (a trailing `\` is a literal backslash). -/
def likeMatch : List Char → List Char → Bool
  | [], s => s.isEmpty
  | ['\\'], s => s == ['\\']
  | '\\' :: c :: rest, s =>
    match s with
    | x :: xs => x == c && likeMatch rest xs
    | [] => false
  | '%' :: rest, s =>
    likeMatch rest s ||
      (match s with
       | _ :: xs => likeMatch ('%' :: rest) xs
       | [] => false)
  | '_' :: rest, s =>
    match s with
    | _ :: xs => likeMatch rest xs
    | [] => false
  | c :: rest, s =>
    match s with
    | x :: xs => x == c && likeMatch rest xs
    | [] => false
termination_by p s => (p.length, s.length)

inductive Kind where
  | equal | prefix | suffix | contains | general
  deriving Repr, DecidableEq

def hasWild (p : List Char) : Bool := p.contains '%' || p.contains '_'

/-- Order of the checks as in `LikeRewrite::rewrite`; any escape character leaves the pattern
to the general matcher (F13 repair). -/
def classify (p : List Char) : Kind :=
  if p.contains '\\' then .general
  else if !hasWild p then .equal
  else if p.contains '_' then .general
  else
    -- only '%' wildcards from here on
    let firstPct := p.idxOf '%'
    if firstPct == p.length - 1 then .prefix            -- single '%', at the end
    else if p.head? == some '%' && !(p.drop 1).contains '%' then .suffix
    else if p.length ≥ 2 && p.head? == some '%' && p.getLast? == some '%' &&
        !((p.drop 1).dropLast).contains '%' then .contains
    else .general

def trimPct (p : List Char) : List Char :=
  ((p.dropWhile (· == '%')).reverse.dropWhile (· == '%')).reverse

def isInfix (needle hay : List Char) : Bool :=
  match hay with
  | [] => needle.isEmpty
  | _ :: t => needle.isPrefixOf hay || isInfix needle t

/-- What the rewritten expression evaluates to (`=`, `starts_with`, `ends_with`, `contains`). -/
def rewriteEval (p s : List Char) : Bool :=
  match classify p with
  | .equal => s == p
  | .prefix => (trimPct p).isPrefixOf s
  | .suffix => (p.drop 1).isSuffixOf s
  | .contains => isInfix ((p.drop 1).dropLast) s
  | .general => likeMatch p s

end GlareModel.Like
