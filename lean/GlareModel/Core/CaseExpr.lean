/-
`CaseExpr`: code-shaped model of `PhysicalCaseExpr::eval` (`expr/physical/case_expr.rs`): the rows no
arm has taken yet are carried as a shrinking selection; every arm evaluates its condition on that
selection, evaluates its THEN only on the rows where the condition is TRUE and copies the results
to those rows' output positions (`copy_rows`); ELSE handles what is left.
-/
namespace GlareModel.CaseExpr
universe u v
variable {ρ : Type u} {β : Type v}

/-- One WHEN/THEN arm: the condition (NULL = `none`) and the result, as functions of the input row. -/
structure Arm (ρ : Type u) (β : Type v) where
  cond : ρ → Option Bool
  val : ρ → β

/-- Specification: the first arm whose condition is TRUE decides, otherwise ELSE. -/
def spec (arms : List (Arm ρ β)) (els : ρ → β) (r : ρ) : β :=
  match arms with
  | [] => els r
  | a :: rest => if a.cond r = some true then a.val r else spec rest els r

/-- `copy_rows(values.enumerate over the arm's selection -> dense output positions)`. -/
def scatter (out : List (Option β)) (writes : List (Nat × β)) : List (Option β) :=
  writes.foldl (fun o (w : Nat × β) => o.set w.1 (some w.2)) out

/-- The loop of `PhysicalCaseExpr::eval` (after the repair of F16): `cur` = the rows that no arm
has taken yet, each with its *dense* output position; every arm evaluates its condition on `cur`,
evaluates its THEN on the rows where it is TRUE and writes them to their output positions; the
rest falls through. ELSE handles what is left. -/
def evalLoop (els : ρ → β) : List (Arm ρ β) → List (Nat × ρ) → List (Option β) → List (Option β)
  | [], cur, out => scatter out (cur.map fun p => (p.1, els p.2))
  | a :: rest, cur, out =>
    let taken := cur.filter fun p => a.cond p.2 == some true
    let fall := cur.filter fun p => !(a.cond p.2 == some true)
    evalLoop els rest fall (scatter out (taken.map fun p => (p.1, a.val p.2)))

/-- Evaluate CASE over the batch `rows` under the selection `sel` (logical row ids, in output order). -/
def eval [Inhabited ρ] (arms : List (Arm ρ β)) (els : ρ → β) (rows : List ρ) (sel : List Nat) : List (Option β) :=
  let cur := (sel.zipIdx).map fun p => (p.2, rows.getD p.1 default)
  evalLoop els arms cur (List.replicate sel.length none)

/-- The loop of the pinned commit before the repair (finding F16): results were scattered to the
*physical* row index instead of the dense output position. -/
def evalPinned [Inhabited ρ] (arms : List (Arm ρ β)) (els : ρ → β) (rows : List ρ) (sel : List Nat) : List (Option β) :=
  evalLoop els arms (sel.map fun r => (r, rows.getD r default)) (List.replicate sel.length none)

end GlareModel.CaseExpr

