/-! # CSV type inference (`glaredb_ext_csv/src/schema.rs`, `CsvSchema::infer_from_records`)

Candidate types form a ladder Boolean < Int64 < Float64 < Timestamp < Utf8. Every column starts at
Boolean; each non-empty sampled value that the current candidate's parser rejects pushes the
candidate up the ladder until a parser accepts it (Timestamp accepts nothing at the pinned commit,
so it always falls through to Utf8). The first record is skipped while inferring and is declared a
header iff one of its fields is rejected by the final candidate of its column.

The value parsers are parameters (`okB`, `okI`, `okF`): theorems hold for whatever they accept. -/
namespace GlareModel.CsvInfer

inductive Cand where
  | boolean | int64 | float64 | timestamp | utf8
  deriving Repr, DecidableEq, Inhabited

def Cand.rank : Cand → Nat
  | .boolean => 0 | .int64 => 1 | .float64 => 2 | .timestamp => 3 | .utf8 => 4

structure Parsers where
  okB : String → Bool
  okI : String → Bool
  okF : String → Bool

/-- `CandidateType::is_valid`. -/
def isValid (p : Parsers) (c : Cand) (s : String) : Bool :=
  match c with
  | .boolean => p.okB s
  | .int64 => p.okI s
  | .float64 => p.okF s
  | .timestamp => false
  | .utf8 => true

/-- `CandidateType::update_from_input` (the recursion of the Rust code unrolled along the ladder). -/
def update (p : Parsers) (c : Cand) (s : String) : Cand :=
  if s.isEmpty then c
  else
    match c with
    | .boolean => if p.okB s then .boolean else if p.okI s then .int64 else if p.okF s then .float64 else .utf8
    | .int64 => if p.okI s then .int64 else if p.okF s then .float64 else .utf8
    | .float64 => if p.okF s then .float64 else .utf8
    | .timestamp => .utf8
    | .utf8 => .utf8

/-- The candidate of one column after the sampled values (first record already removed). -/
def inferCol (p : Parsers) (vals : List String) : Cand := vals.foldl (update p) .boolean

/-- The repaired inference (fix of F68): after the ladder, the final candidate is checked against
every non-empty sampled value and replaced by text when one does not fit. -/
def inferColFixed (p : Parsers) (vals : List String) : Cand :=
  let c := inferCol p vals
  if vals.all (fun v => v.isEmpty || isValid p c v) then c else .utf8

/-- Header decision: some field of the first record is rejected by its column's candidate. -/
def hasHeader (p : Parsers) (first : List String) (cands : List Cand) : Bool :=
  (first.zip cands).any fun (f, c) => !isValid p c f

/-- What the property asks for: the narrowest of boolean, integer, float, text whose parser accepts
every non-empty sampled value. -/
def narrowestFitting (p : Parsers) (vals : List String) : Cand :=
  let nonEmpty := vals.filter (fun s => !s.isEmpty)
  if nonEmpty.all p.okB then .boolean
  else if nonEmpty.all p.okI then .int64
  else if nonEmpty.all p.okF then .float64
  else .utf8

end GlareModel.CsvInfer
