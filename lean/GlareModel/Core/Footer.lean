/-
`Footer`: model of `MetaDataLoader::load_from_file` (`glaredb_ext_parquet/src/metadata/loader.rs`)
up to the point where the thrift metadata is decoded: file size check, the 8 footer bytes
(4-byte little-endian metadata length + magic), the buffer sized from the untrusted length, and the
seek to the start of the metadata. Bytes are natural numbers < 256.
-/
namespace GlareModel.Footer

def footerSize : Nat := 8
def minFileSize : Nat := 12
def magic : List Nat := [80, 65, 82, 49]        -- "PAR1"
def magicEnc : List Nat := [80, 65, 82, 69]     -- "PARE"

def le32 : List Nat → Nat
  | [a, b, c, d] => a + 256 * b + 65536 * c + 16777216 * d
  | _ => 0

inductive Res where
  /-- rejected with an error after allocating `alloc` bytes for the metadata buffer -/
  | err (alloc : Nat)
  /-- metadata of `len` bytes at offset `off`, read into a buffer of `alloc` bytes -/
  | ok (off len alloc : Nat)
  deriving Repr, DecidableEq, Inhabited

def Res.alloc : Res → Nat
  | .err a => a
  | .ok _ _ a => a

/-- `tail` = the last 8 bytes of a file of `size` bytes. `checked = false` is the pinned commit:
`read_buf.resize(metadata_len)` happens before the length is compared with anything; the seek to
`End(-(metadata_len + 8))` then fails when it points before the start of the file.
`checked = true` is the repaired loader: a length that does not fit in the file is rejected first. -/
def load (checked : Bool) (tail : List Nat) (size : Nat) : Res :=
  if size < minFileSize then .err 0
  else if tail.take 4 == magicEnc then .err 0
  else if tail.drop 4 != magic then .err 0
  else
    let len := le32 (tail.take 4)
    if checked && len + footerSize > size then .err 0
    else if len + footerSize > size then .err len        -- buffer already resized to `len`
    else .ok (size - footerSize - len) len len

end GlareModel.Footer
