/-
Code-shaped model of the normalised sort-key encoding of
`crates/glaredb_core/src/arrays/sort/sort_layout.rs`.

Bytes are natural numbers `< 256`; fixed-width values are carried as their raw
bit pattern (a natural number `< 2^(8*width)`), exactly what `to_bits` /
`to_be_bytes` see. Every definition follows the Rust function named next to it.
-/
namespace GlareModel.SortKey

/-- `to_be_bytes` of an `n`-byte unsigned value. -/
def beBytes : Nat → Nat → List Nat
  | 0, _ => []
  | n + 1, v => (v / 256 ^ n % 256) :: beBytes n (v % 256 ^ n)

/-- `comparable_encode_unsigned!`: big-endian bytes. -/
def encUnsigned (n : Nat) (bits : Nat) : List Nat := beBytes n bits

/-- `b[0] ^= 128` -/
def flipFirst : List Nat → List Nat
  | [] => []
  | b :: rest => (b ^^^ 128) :: rest

/-- `comparable_encode_signed!`: big-endian bytes of the two's complement
pattern with the sign bit flipped. -/
def encSigned (n : Nat) (bits : Nat) : List Nat := flipFirst (beBytes n bits)

/-- `(bits >> k)` on the signed reinterpretation of a `w`-bit pattern, read back
as unsigned (Rust: `(bits >> k) as uW`). -/
def asr (w k bits : Nat) : Nat :=
  if bits < 2 ^ (w - 1) then bits >>> k
  else (bits >>> k) + (2 ^ w - 2 ^ (w - k))

/-- `impl ComparableEncode for f16/f32/f64`:
`let v = bits ^ (((bits >> k) as uW) >> 1) as iW; v.encode(buf)`,
`k` is the shift written in the source for the width. -/
def encFloat (n k : Nat) (bits : Nat) : List Nat :=
  encSigned n (bits ^^^ (asr (8 * n) k bits >>> 1))

/-- Shift amounts as written in `sort_layout.rs` (f16: 15, f32: 31, f64: 63). -/
def floatShift (n : Nat) : Nat :=
  match n with
  | 2 => 15
  | 4 => 31
  | _ => 63

/-- `impl ComparableEncode for bool` (FALSE < TRUE). -/
def encBool (bits : Nat) : List Nat := if bits != 0 then [1] else [0]

/-- `impl ComparableEncode for Interval`: months, days, nanos with the signed encoding. -/
def encInterval (m d ns : Nat) : List Nat :=
  encSigned 4 m ++ encSigned 4 d ++ encSigned 8 ns

/-- `StringPrefix::new_from_buf`: first 12 bytes, zero padded. -/
def prefix12 (bs : List Nat) : List Nat :=
  (bs.take 12) ++ List.replicate (12 - (bs.take 12).length) 0

/-- `SortColumn::invert_if_desc`. -/
def invertIfDesc (desc : Bool) (bs : List Nat) : List Nat :=
  if desc then bs.map (fun b => 255 - b) else bs

inductive KType where
  | bool
  | uint (n : Nat)      -- n bytes
  | int (n : Nat)
  | float (n : Nat)
  | interval
  | utf8
  | binary
  deriving Repr, DecidableEq, Inhabited

inductive KVal where
  | null
  | bits (b : Nat)
  | iv (m d ns : Nat)
  | bytes (bs : List Nat)
  deriving Repr, DecidableEq, Inhabited

structure KCol where
  ty : KType
  desc : Bool
  nullsFirst : Bool
  deriving Repr, DecidableEq, Inhabited

/-- Encoded value width (`ENCODE_WIDTH`). -/
def KType.width : KType → Nat
  | .bool => 1
  | .uint n => n
  | .int n => n
  | .float n => n
  | .interval => 16
  | .utf8 => 12
  | .binary => 12

/-- Value bytes for a valid value (`v.encode(val_buf)`). A value of the wrong shape for
the type encodes as the type's default, like the NULL row. -/
def encValue : KType → KVal → List Nat
  | .bool, .bits b => encBool b
  | .uint n, .bits b => encUnsigned n b
  | .int n, .bits b => encSigned n b
  | .float n, .bits b => encFloat n (floatShift n) b
  | .interval, .iv m d ns => encInterval m d ns
  | .utf8, .bytes bs => prefix12 bs
  | .binary, .bytes bs => prefix12 bs
  | .bool, _ => encBool 0
  | .uint n, _ => encUnsigned n 0
  | .int n, _ => encSigned n 0
  | .float n, _ => encFloat n (floatShift n) 0
  | .interval, _ => encInterval 0 0 0
  | .utf8, _ => prefix12 []
  | .binary, _ => prefix12 []

def validByte (c : KCol) : Nat := if c.nullsFirst then 255 else 0
def invalidByte (c : KCol) : Nat := if c.nullsFirst then 0 else 255

/-- `write_scalar` / `write_binary_prefix` for one row of one column: validity byte,
then the value bytes (inverted when descending); a NULL row writes the default
value *without* inversion. -/
def encodeCol (c : KCol) (v : KVal) : List Nat :=
  match v with
  | .null => invalidByte c :: encValue c.ty .null
  | v => validByte c :: invertIfDesc c.desc (encValue c.ty v)

/-- The compared part of an encoded row: columns in order. -/
def encodeRow : List KCol → List KVal → List Nat
  | c :: cs, v :: vs => encodeCol c v ++ encodeRow cs vs
  | _, _ => []

/-- Byte-wise lexicographic "less than" (`memcmp < 0` on equal lengths; a proper
prefix is smaller). -/
def lexLt : List Nat → List Nat → Bool
  | [], [] => false
  | [], _ :: _ => true
  | _ :: _, [] => false
  | a :: as, b :: bs => a < b || (a == b && lexLt as bs)

/-! ## Spec-shaped order keys (what the property means)

`SortSpec` maps every value to a mathematical key; the declared order of a column is the
order of these keys: integers by value, floats by the IEEE total order (−NaN < −∞ < … < −0 <
+0 < … < +∞ < NaN, i.e. NaN above every number), `false < true`, intervals
lexicographically by (months, days, nanos), strings byte-wise. -/
namespace Spec

/-- Signed value of an `n`-byte two's complement pattern. -/
def toInt (n : Nat) (bits : Nat) : Int :=
  if bits < 256 ^ n / 2 then (bits : Int) else (bits : Int) - (256 ^ n : Nat)

/-- IEEE-754 total order as an integer: sign-magnitude to a linear scale with −0 below +0. -/
def floatOrd (n : Nat) (bits : Nat) : Int :=
  if bits < 256 ^ n / 2 then (bits : Int)
  else -((bits - 256 ^ n / 2 : Nat) : Int) - 1

inductive Key where
  | null
  | num (i : Int)
  | tuple (xs : List Int)
  | str (bs : List Nat)
  deriving Repr, DecidableEq, Inhabited

def key : KType → KVal → Key
  | _, .null => .null
  | .bool, .bits b => .num (if b != 0 then 1 else 0)
  | .uint _, .bits b => .num b
  | .int n, .bits b => .num (toInt n b)
  | .float n, .bits b => .num (floatOrd n b)
  | .interval, .iv m d ns => .tuple [toInt 4 m, toInt 4 d, toInt 8 ns]
  | .utf8, .bytes bs => .str bs
  | .binary, .bytes bs => .str bs
  | _, _ => .null

end Spec

def specKeyStr (t : KType) (v : KVal) : String :=
  match Spec.key t v with
  | .null => "N"
  | .num i => s!"i{i}"
  | .tuple xs => "t" ++ ",".intercalate (xs.map toString)
  | .str bs => "s" ++ String.join (bs.map fun b => s!"{b}.")

end GlareModel.SortKey

namespace GlareModel.SortKey

/-! ## The declared order of a column / a row (spec) -/
namespace Spec

def intsLt : List Int → List Int → Bool
  | a :: as, b :: bs => a < b || (a == b && intsLt as bs)
  | _, _ => false

/-- `a` sorts strictly before `b` under the column's declaration. -/
def colLt (c : KCol) : Key → Key → Bool
  | .null, .null => false
  | .null, _ => c.nullsFirst
  | _, .null => !c.nullsFirst
  | .num a, .num b => if c.desc then b < a else a < b
  | .tuple a, .tuple b => if c.desc then intsLt b a else intsLt a b
  | .str a, .str b => if c.desc then lexLt b a else lexLt a b
  | _, _ => false

/-- Lexicographic order of rows over the key columns. -/
def rowLt : List KCol → List KVal → List KVal → Bool
  | c :: cs, a :: as, b :: bs =>
    colLt c (key c.ty a) (key c.ty b) || (key c.ty a == key c.ty b && rowLt cs as bs)
  | _, _, _ => false

end Spec

/-- Values the engine can actually hold for a type (bit patterns within the width). -/
def WF : KType → KVal → Bool
  | _, .null => true
  | .bool, .bits _ => true
  | .uint n, .bits b => b < 256 ^ n
  | .int n, .bits b => 0 < n && b < 256 ^ n
  | .float n, .bits b => (n == 2 || n == 4 || n == 8) && b < 256 ^ n
  | .interval, .iv m d ns => m < 256 ^ 4 && d < 256 ^ 4 && ns < 256 ^ 8
  | .utf8, .bytes bs => bs.all (· < 256)
  | .binary, .bytes bs => bs.all (· < 256)
  | _, _ => false

def KType.fixedWidth : KType → Bool
  | .utf8 | .binary => false
  | _ => true

def rowWF : List KCol → List KVal → Bool
  | c :: cs, v :: vs => WF c.ty v && rowWF cs vs
  | [], [] => true
  | _, _ => false

end GlareModel.SortKey
