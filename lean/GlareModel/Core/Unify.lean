import GlareModel.Generated.CastTable
import GlareModel.Core.Arith
/-
`Unify`: model of the type unification of set-operation branches (`bind_setop.rs`, one column
pair) over the implicit-cast table generated from the running code, and of the result type of
decimal `+`/`-` as announced by the binder versus the type the physical planner produces.
-/
namespace GlareModel.Unify
open GlareModel.Generated

/-- `left_score >= right_score` on `Option<u32>` (`None` is smallest). -/
def optGe : Option Nat → Option Nat → Bool
  | _, none => true
  | none, some _ => false
  | some a, some b => a ≥ b

/-- One column of `SetOpBinder::bind` for branch types with different ids: `none` = "Cannot find
suitable cast type", otherwise the output type (the other branch is cast to it). -/
def unifyId (l r : TyId) : Option TyId :=
  let ls := implicitScore r l      -- cast right to left's type
  let rs := implicitScore l r      -- cast left to right's type
  if ls.isNone && rs.isNone then none
  else if optGe ls rs then some l else some r

def isSignedInt : TyId → Option Nat
  | .int8 => some 8 | .int16 => some 16 | .int32 => some 32 | .int64 => some 64 | .int128 => some 128
  | _ => none

def isUnsignedInt : TyId → Option Nat
  | .uInt8 => some 8 | .uInt16 => some 16 | .uInt32 => some 32 | .uInt64 => some 64 | .uInt128 => some 128
  | _ => none

def isFractional : TyId → Bool
  | .float16 | .float32 | .float64 | .decimal64 | .decimal128 => true
  | _ => false

/-- An implicit integer-to-integer cast never loses values: same signedness and not narrower, or
unsigned to a strictly wider signed type. -/
def intCastWidening (a b : TyId) : Bool :=
  match isSignedInt a, isUnsignedInt a, isSignedInt b, isUnsignedInt b with
  | some wa, _, some wb, _ => wa ≤ wb
  | _, some wa, _, some wb => wa ≤ wb
  | _, some wa, some wb, _ => wa < wb
  | some _, _, _, some _ => false
  | _, _, _, _ => true          -- not an int-to-int pair

/-! ### Decimal `+`/`-`: announced type vs. the type of the produced array

`ArithExpr` keeps the operands *after* the binder's casts to the result type together with the
announced `return_type`; the physical planner (`plan_as_scalar_function`) binds the function a
second time on those operands. `producedPinned` is what the pinned commit's second bind yields,
`producedFixed` what the repaired planner uses. -/

open GlareModel.Arith in
def announced (bits : Nat) (l r : NumTy) : Option DecTy := addSubType bits l r

open GlareModel.Arith in
def producedPinned (bits : Nat) (l r : NumTy) : Option DecTy :=
  (addSubType bits l r).bind fun t => addSubType bits (.dec t) (.dec t)

open GlareModel.Arith in
def producedFixed (bits : Nat) (l r : NumTy) : Option DecTy := announced bits l r

end GlareModel.Unify
