import GlareModel.Proofs.SortKeyCol

/-!
# C08 — ORDER BY yields a correctly sorted permutation; LIMIT/OFFSET the exact slice

Property theorems only (helper lemmas live in `Proofs/`). The code-shaped definitions are
in `Core/SortKey.lean` (model of `arrays/sort/sort_layout.rs`); the spec-shaped order is
`SortKey.Spec`. Every theorem quantifies over *all* values / rows / column lists.
-/
namespace GlareModel.Props.C08
open GlareModel.SortKey

/-- Key order embedding, one fixed-width column: byte comparison of the encoded column
equals the declared order (ASC/DESC × NULLS FIRST/LAST × NULL/non-NULL), for every
integer width and signedness, f16/f32/f64 (IEEE total order, NaN above +∞), booleans
(`false < true`) and intervals. -/
theorem key_col_embedding (c : KCol) (v1 v2 : KVal) (hf : c.ty.fixedWidth = true)
    (h1 : WF c.ty v1 = true) (h2 : WF c.ty v2 = true) :
    lexLt (encodeCol c v1) (encodeCol c v2) = Spec.colLt c (Spec.key c.ty v1) (Spec.key c.ty v2) :=
  encodeCol_lt c v1 v2 hf h1 h2

/-- Equal encoded column bytes ⇔ equal values (no two distinct values share a key, so the
byte comparison never reports a tie the declared order does not have). -/
theorem key_col_injective (c : KCol) (v1 v2 : KVal) (hf : c.ty.fixedWidth = true)
    (h1 : WF c.ty v1 = true) (h2 : WF c.ty v2 = true) :
    encodeCol c v1 = encodeCol c v2 ↔ Spec.key c.ty v1 = Spec.key c.ty v2 :=
  encodeCol_eq c v1 v2 hf h1 h2

/-- Key order embedding for any number of key columns. -/
theorem key_row_embedding (cols : List KCol) (r1 r2 : List KVal) (hf : allFixed cols = true)
    (h1 : rowWF cols r1 = true) (h2 : rowWF cols r2 = true) :
    lexLt (encodeRow cols r1) (encodeRow cols r2) = Spec.rowLt cols r1 r2 :=
  encodeRow_lt cols r1 r2 hf h1 h2

/-- Strings and binaries: the 12-byte zero-padded prefix never orders two values against the
full byte-wise order — including values sharing more than 12 bytes, containing 0x00 (same as
padding) or 0xFF; a prefix tie is left to the full comparison. -/
theorem string_prefix_sound (c : KCol) (a b : List Nat) (hs : c.ty = .utf8 ∨ c.ty = .binary)
    (ha : Bytes a) (hb : Bytes b)
    (h : lexLt (encodeCol c (.bytes a)) (encodeCol c (.bytes b)) = true) :
    Spec.colLt c (Spec.key c.ty (.bytes a)) (Spec.key c.ty (.bytes b)) = true :=
  encodeCol_str_sound c a b hs ha hb h

/-- The shift written in the source matters: with `bits >> 31` (the value the pinned commit
used for f64) the encoding is *not* monotone. Witness: 1.0000000002328304 < 1.0000000002328306
but their keys compare the other way. This is finding F1, repaired by a `fix:` commit. -/
theorem f64_shift31_not_monotone :
    ∃ a b, a < 256 ^ 8 ∧ b < 256 ^ 8 ∧ Spec.floatOrd 8 a < Spec.floatOrd 8 b ∧
      lexLt (encFloat 8 31 a) (encFloat 8 31 b) = false :=
  ⟨0x3FF00000000FFFFF, 0x3FF0000000100000, by decide, by decide, by decide, by decide⟩

/-- Finding F2: encoding `true ↦ 0, false ↦ 1` reverses the boolean order. -/
theorem bool_true_zero_reversed :
    lexLt [1] [0] = false ∧ Spec.colLt ⟨.bool, false, false⟩ (Spec.key .bool (.bits 0)) (Spec.key .bool (.bits 1)) = true :=
  ⟨by decide, by decide⟩

/-! Non-vacuity: the hypotheses are met by concrete non-trivial columns and rows. -/
example : allFixed [⟨.float 8, true, false⟩, ⟨.int 4, false, true⟩, ⟨.interval, false, false⟩] = true ∧
    rowWF [⟨.float 8, true, false⟩, ⟨.int 4, false, true⟩, ⟨.interval, false, false⟩]
      [.bits 0x7FF8000000000000, .null, .iv 1 0xFFFFFFFF 5] = true := by decide
example : lexLt (encodeCol ⟨.float 8, false, false⟩ (.bits 0x3FF00000000FFFFF))
    (encodeCol ⟨.float 8, false, false⟩ (.bits 0x3FF0000000100000)) = true := by decide

end GlareModel.Props.C08
