import GlareModel.Proofs.SortKeyCol
import GlareModel.Core.Merge

/-!
# C08 — ORDER BY yields a correctly sorted permutation; LIMIT/OFFSET the exact slice

Property theorems only (helper lemmas live in `Proofs/`). The code-shaped definitions are
in `Core/SortKey.lean` (model of `arrays/sort/sort_layout.rs`); the spec-shaped order is
`SortKey.Spec`. Every theorem quantifies over *all* values / rows / column lists.
-/
namespace GlareModel.Props.C08
open GlareModel.SortKey

/-- Key order embedding, one fixed-width column: byte comparison of the encoded column
equals the declared order (ASC/DESC × NULLS FIRST/LAST × NULL/non-NULL), for every
integer width and signedness, f16/f32/f64 (IEEE total order, NaN above +∞), booleans
(`false < true`) and intervals. -/
theorem key_col_embedding (c : KCol) (v1 v2 : KVal) (hf : c.ty.fixedWidth = true)
    (h1 : WF c.ty v1 = true) (h2 : WF c.ty v2 = true) :
    lexLt (encodeCol c v1) (encodeCol c v2) = Spec.colLt c (Spec.key c.ty v1) (Spec.key c.ty v2) :=
  encodeCol_lt c v1 v2 hf h1 h2

/-- Equal encoded column bytes ⇔ equal values (no two distinct values share a key, so the
byte comparison never reports a tie the declared order does not have). -/
theorem key_col_injective (c : KCol) (v1 v2 : KVal) (hf : c.ty.fixedWidth = true)
    (h1 : WF c.ty v1 = true) (h2 : WF c.ty v2 = true) :
    encodeCol c v1 = encodeCol c v2 ↔ Spec.key c.ty v1 = Spec.key c.ty v2 :=
  encodeCol_eq c v1 v2 hf h1 h2

/-- Key order embedding for any number of key columns. -/
theorem key_row_embedding (cols : List KCol) (r1 r2 : List KVal) (hf : allFixed cols = true)
    (h1 : rowWF cols r1 = true) (h2 : rowWF cols r2 = true) :
    lexLt (encodeRow cols r1) (encodeRow cols r2) = Spec.rowLt cols r1 r2 :=
  encodeRow_lt cols r1 r2 hf h1 h2

/-- Strings and binaries: the 12-byte zero-padded prefix never orders two values against the
full byte-wise order — including values sharing more than 12 bytes, containing 0x00 (same as
padding) or 0xFF; a prefix tie is left to the full comparison. -/
theorem string_prefix_sound (c : KCol) (a b : List Nat) (hs : c.ty = .utf8 ∨ c.ty = .binary)
    (ha : Bytes a) (hb : Bytes b)
    (h : lexLt (encodeCol c (.bytes a)) (encodeCol c (.bytes b)) = true) :
    Spec.colLt c (Spec.key c.ty (.bytes a)) (Spec.key c.ty (.bytes b)) = true :=
  encodeCol_str_sound c a b hs ha hb h

/-- The shift written in the source matters: with `bits >> 31` (the value the pinned commit
used for f64) the encoding is *not* monotone. Witness: 1.0000000002328304 < 1.0000000002328306
but their keys compare the other way. This is finding F1, repaired by a `fix:` commit. -/
theorem f64_shift31_not_monotone :
    ∃ a b, a < 256 ^ 8 ∧ b < 256 ^ 8 ∧ Spec.floatOrd 8 a < Spec.floatOrd 8 b ∧
      lexLt (encFloat 8 31 a) (encFloat 8 31 b) = false :=
  ⟨0x3FF00000000FFFFF, 0x3FF0000000100000, by decide, by decide, by decide, by decide⟩

/-- Finding F2: encoding `true ↦ 0, false ↦ 1` reverses the boolean order. -/
theorem bool_true_zero_reversed :
    lexLt [1] [0] = false ∧ Spec.colLt ⟨.bool, false, false⟩ (Spec.key .bool (.bits 0)) (Spec.key .bool (.bits 1)) = true :=
  ⟨by decide, by decide⟩

/-! Non-vacuity: the hypotheses are met by concrete non-trivial columns and rows. -/
example : allFixed [⟨.float 8, true, false⟩, ⟨.int 4, false, true⟩, ⟨.interval, false, false⟩] = true ∧
    rowWF [⟨.float 8, true, false⟩, ⟨.int 4, false, true⟩, ⟨.interval, false, false⟩]
      [.bits 0x7FF8000000000000, .null, .iv 1 0xFFFFFFFF 5] = true := by decide
example : lexLt (encodeCol ⟨.float 8, false, false⟩ (.bits 0x3FF00000000FFFFF))
    (encodeCol ⟨.float 8, false, false⟩ (.bits 0x3FF0000000100000)) = true := by decide

end GlareModel.Props.C08

/-! ## Merging sorted runs (Core/Merge.lean) -/

namespace GlareModel.Props.C08
open GlareModel.Merge
universe u
variable {α : Type u}

theorem merge_perm (le : α → α → Bool) (xs ys : List α) : (merge le xs ys).Perm (xs ++ ys) := by
  fun_induction merge le xs ys with
  | case1 ys => simp
  | case2 x xs => simp
  | case3 x xs y ys h ih => exact List.Perm.cons x ih
  | case4 x xs y ys h ih =>
    refine List.Perm.trans (List.Perm.cons y ih) ?_
    exact (List.perm_middle (a := y) (l₁ := x :: xs) (l₂ := ys)).symm

theorem mem_merge (le : α → α → Bool) (xs ys : List α) (a : α) : a ∈ merge le xs ys ↔ a ∈ xs ∨ a ∈ ys := by
  rw [(merge_perm le xs ys).mem_iff, List.mem_append]

/-- A total, transitive comparison: what the byte-wise comparison of normalised keys is (C08's
order-embedding theorems). -/
structure TotalPreorder (le : α → α → Bool) : Prop where
  total : ∀ a b, le a b = true ∨ le b a = true
  trans : ∀ a b c, le a b = true → le b c = true → le a c = true

theorem merge_sorted (le : α → α → Bool) (h : TotalPreorder le) (xs ys : List α)
    (hx : xs.Pairwise (fun a b => le a b = true)) (hy : ys.Pairwise (fun a b => le a b = true)) :
    (merge le xs ys).Pairwise (fun a b => le a b = true) := by
  fun_induction merge le xs ys with
  | case1 ys => exact hy
  | case2 x xs => exact hx
  | case3 x xs y ys hle ih =>
    have hx' := List.pairwise_cons.mp hx
    refine List.pairwise_cons.mpr ⟨?_, ih hx'.2 hy⟩
    intro a ha
    rcases (mem_merge le xs (y :: ys) a).mp ha with h1 | h2
    · exact hx'.1 a h1
    · rcases List.mem_cons.mp h2 with h3 | h4
      · subst h3; exact hle
      · exact h.trans x y a hle ((List.pairwise_cons.mp hy).1 a h4)
  | case4 x xs y ys hle ih =>
    have hy' := List.pairwise_cons.mp hy
    have hyx : le y x = true := by
      rcases h.total x y with h1 | h2
      · exact absurd h1 hle
      · exact h2
    refine List.pairwise_cons.mpr ⟨?_, ih hx hy'.2⟩
    intro a ha
    rcases (mem_merge le (x :: xs) ys a).mp ha with h1 | h2
    · rcases List.mem_cons.mp h1 with h3 | h4
      · subst h3; exact hyx
      · exact h.trans y x a hyx ((List.pairwise_cons.mp hx).1 a h4)
    · exact hy'.1 a h2

/-- **Any merge order gives a sorted permutation of all rows**: however the merge queue pairs up
the sorted runs (any binary tree, any number of runs), the final run is sorted and contains
exactly the rows of all runs. -/
theorem merge_tree_sorted_perm (le : α → α → Bool) (h : TotalPreorder le) (t : Tree α) (ht : t.RunsSorted le) :
    (t.eval le).Pairwise (fun a b => le a b = true) ∧ (t.eval le).Perm t.rows := by
  induction t with
  | run rows => exact ⟨ht, List.Perm.refl _⟩
  | node l r ihl ihr =>
    obtain ⟨hl, hr⟩ := ht
    obtain ⟨sl, pl⟩ := ihl hl
    obtain ⟨sr, pr⟩ := ihr hr
    refine ⟨merge_sorted le h _ _ sl sr, ?_⟩
    exact (merge_perm le _ _).trans (List.Perm.append pl pr)

theorem merge_take_general (le : α → α → Bool) (n : Nat) (xs ys : List α) (a b : Nat) (ha : n ≤ a) (hb : n ≤ b) :
    (merge le xs ys).take n = (merge le (xs.take a) (ys.take b)).take n := by
  induction n generalizing xs ys a b with
  | zero => simp
  | succ n ih =>
    obtain ⟨a', rfl⟩ : ∃ a', a = a' + 1 := ⟨a - 1, by omega⟩
    obtain ⟨b', rfl⟩ : ∃ b', b = b' + 1 := ⟨b - 1, by omega⟩
    cases xs with
    | nil =>
      cases ys with
      | nil => simp [merge]
      | cons y ys =>
        simp only [List.take_nil, merge]
        rw [List.take_take, Nat.min_eq_left (by omega)]
    | cons x xs =>
      cases ys with
      | nil =>
        simp only [List.take_nil, merge, List.take_succ_cons]
        rw [List.take_take, Nat.min_eq_left (by omega)]
      | cons y ys =>
        simp only [List.take_succ_cons, merge]
        split
        · simp only [List.take_succ_cons]
          congr 1
          have := ih xs (y :: ys) a' (b' + 1) (by omega) (by omega)
          simpa [List.take_succ_cons] using this
        · simp only [List.take_succ_cons]
          congr 1
          have := ih (x :: xs) ys (a' + 1) b' (by omega) (by omega)
          simpa [List.take_succ_cons] using this

/-- **Limit hint**: the first `n` rows of a merge only depend on the first `n` rows of each run, so
truncating every run to `n` rows before merging (what `limit_hint` does at every stage) never loses
one of the first `n` output rows. -/
theorem merge_take (le : α → α → Bool) (n : Nat) (xs ys : List α) :
    (merge le xs ys).take n = (merge le (xs.take n) (ys.take n)).take n :=
  merge_take_general le n xs ys n n (Nat.le_refl _) (Nat.le_refl _)

example : merge (fun a b : Nat => a ≤ b) [1, 4, 9] [2, 3, 10] = [1, 2, 3, 4, 9, 10] := by simp [merge]

end GlareModel.Props.C08
