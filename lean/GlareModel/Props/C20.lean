import GlareModel.Core.Like
import GlareModel.Core.Str

/-! # C20 — String functions are Unicode-correct; LIKE rewrites are equivalent -/
namespace GlareModel.Props.C20
open GlareModel.Like GlareModel.Str

/-- Characters that are neither wildcards nor the escape. -/
def plain (p : List Char) : Prop := ∀ c ∈ p, c ≠ '%' ∧ c ≠ '_' ∧ c ≠ '\\'

theorem likeMatch_plain_cons (c : Char) (rest s : List Char) (hc : c ≠ '%' ∧ c ≠ '_' ∧ c ≠ '\\') :
    likeMatch (c :: rest) s = match s with
      | x :: xs => x == c && likeMatch rest xs
      | [] => false := by
  rw [likeMatch.eq_def]
  split
  all_goals (try simp_all)
  all_goals (try (rename_i h; obtain ⟨rfl, rfl⟩ := h; rfl))

/-- Equality rewrite: a pattern without wildcards and escapes matches exactly itself. -/
theorem like_plain_is_equality (p s : List Char) (hp : plain p) : likeMatch p s = (s == p) := by
  induction p generalizing s with
  | nil => cases s <;> simp [likeMatch]
  | cons c rest ih =>
    have hc := hp c (List.mem_cons_self)
    have hrest : plain rest := fun x hx => hp x (List.mem_cons_of_mem _ hx)
    rw [likeMatch_plain_cons c rest s hc]
    cases s with
    | nil => simp
    | cons x xs =>
      simp only [ih xs hrest]
      by_cases e : x = c
      · subst e; simp
      · simp [e]

theorem likeMatch_pct_nil (s : List Char) : likeMatch ['%'] s = true := by
  induction s with
  | nil => simp [likeMatch]
  | cons x xs ih => rw [likeMatch.eq_def]; simp [likeMatch, ih]

/-- Prefix rewrite: `lits%` matches exactly the strings that start with `lits`. -/
theorem like_prefix (lits s : List Char) (hp : plain lits) :
    likeMatch (lits ++ ['%']) s = lits.isPrefixOf s := by
  induction lits generalizing s with
  | nil => simp [likeMatch_pct_nil]
  | cons c rest ih =>
    have hc := hp c (List.mem_cons_self)
    have hrest : plain rest := fun x hx => hp x (List.mem_cons_of_mem _ hx)
    rw [List.cons_append, likeMatch_plain_cons c _ s hc]
    cases s with
    | nil => simp
    | cons x xs =>
      simp only [ih xs hrest, List.isPrefixOf]
      by_cases e : x = c
      · subst e; simp
      · have : (c == x) = false := by simp [Ne.symm e]
        simp [e, this]

/-- `%` followed by a pattern: matches iff the rest matches some suffix of the string. -/
theorem likeMatch_pct (rest s : List Char) :
    likeMatch ('%' :: rest) s = (likeMatch rest s || match s with
      | _ :: xs => likeMatch ('%' :: rest) xs
      | [] => false) := by
  rw [likeMatch.eq_def]
  split
  all_goals (try simp_all)
  all_goals (try rfl)
  all_goals (try (rename_i h1 h2 h; exact absurd h.1.symm h1))

/-- Suffix rewrite: `%lits` matches exactly the strings that end with `lits`. -/
theorem like_suffix (lits s : List Char) (hp : plain lits) :
    likeMatch ('%' :: lits) s = lits.isSuffixOf s := by
  induction s with
  | nil =>
    rw [likeMatch_pct, like_plain_is_equality lits [] hp]
    cases lits <;> simp [List.isSuffixOf]
  | cons x xs ih =>
    rw [likeMatch_pct, like_plain_is_equality lits (x :: xs) hp]
    simp only [ih]
    -- lits is a suffix of x :: xs iff it is the whole list or a suffix of xs
    rw [Bool.eq_iff_iff]
    simp only [Bool.or_eq_true, beq_iff_eq, List.isSuffixOf_iff_suffix]
    constructor
    · rintro (h | h)
      · rw [h]; exact List.suffix_refl _
      · exact List.suffix_cons_iff.2 (Or.inr h)
    · intro h
      rcases List.suffix_cons_iff.1 h with h | h
      · exact Or.inl h.symm
      · exact Or.inr h

/-- Contains rewrite: `%lits%` matches exactly the strings that contain `lits`. -/
theorem like_contains (lits s : List Char) (hp : plain lits) :
    likeMatch ('%' :: lits ++ ['%']) s = isInfix lits s := by
  induction s with
  | nil =>
    rw [List.cons_append, likeMatch_pct, like_prefix lits [] hp]
    cases lits <;> simp [isInfix, List.isPrefixOf]
  | cons x xs ih =>
    rw [List.cons_append, likeMatch_pct, like_prefix lits (x :: xs) hp]
    rw [List.cons_append] at ih
    simp only [ih, isInfix]

/-- The absence of an escape is necessary: with the raw-pattern comparison the pinned commit
used, `'ab' LIKE 'a\b'` disagreed with the matcher (finding F13, repaired). -/
theorem escape_needs_general_matcher :
    likeMatch ['a', '\\', 'b'] ['a', 'b'] = true ∧ (['a', 'b'] == ['a', '\\', 'b']) = false := by
  constructor
  · simp [likeMatch]
  · decide

/-- `%` matches newlines (finding F13, repaired by the `(?s)` flag). -/
theorem pct_matches_newline : likeMatch ['a', '%'] ['a', '\n', 'b'] = true := by simp [likeMatch]

/-! String function laws on code points (every function returns a list of code points, hence
valid UTF-8 after encoding). -/

theorem left_right_split (s : List Char) (n : Nat) (h : n ≤ s.length) :
    left s n ++ right s (s.length - n : Nat) = s := by
  simp only [left, right, Int.natCast_nonneg, if_true, Int.toNat_natCast, ge_iff_le]
  have : s.length - (s.length - n) = n := by omega
  rw [this, List.take_append_drop]

theorem left_negative (s : List Char) (n : Nat) (hn : 0 < n) : left s (-(n : Int)) = s.take (s.length - n) := by
  unfold left
  have : ¬ (-(n : Int) ≥ 0) := by omega
  simp only [this, if_false, Int.neg_neg, Int.toNat_natCast]

theorem length_repeat (s : List Char) (n : Nat) : (repeat_ s n).length = n * s.length := by
  unfold repeat_
  simp only [Int.toNat_natCast]
  induction n with
  | zero => simp
  | succ k ih => simp [List.replicate_succ, ih, Nat.succ_mul, Nat.add_comm]

theorem reverse_reverse (s : List Char) : s.reverse.reverse = s := List.reverse_reverse s

theorem substring_length_le (s : List Char) (f c : Int) : (substring s f c).length ≤ s.length := by
  unfold substring; split <;> simp <;> omega

example : plain ['a', 'é', '.'] := by intro c hc; simp at hc; rcases hc with rfl | rfl | rfl <;> decide

end GlareModel.Props.C20
