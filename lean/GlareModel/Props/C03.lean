import GlareModel.Core.Sem
/-! # C03 — Results are independent of partitions, batch size and join algorithm

`limitRun` models `PhysicalLimit::poll_execute` (`execution/operators/limit.rs`): shared
`remaining_offset` / `remaining_count`, one batch per step, three branches. -/
namespace GlareModel.Props.C03

structure LimitSt where
  remOffset : Nat
  remCount : Nat
  deriving Repr, DecidableEq

/-- One `poll_execute` on a batch `xs`: skip the offset, then emit up to the remaining count. -/
def limitStep (s : LimitSt) (xs : List α) : LimitSt × List α :=
  if s.remOffset ≥ xs.length then
    -- whole batch is skipped
    ({ s with remOffset := s.remOffset - xs.length }, [])
  else
    let ys := xs.drop s.remOffset
    let out := ys.take s.remCount
    ({ remOffset := 0, remCount := s.remCount - out.length }, out)

/-- Feed the batches in order, concatenating the outputs. -/
def limitRun (s : LimitSt) : List (List α) → List α
  | [] => []
  | b :: bs =>
    let (s', out) := limitStep s b
    out ++ limitRun s' bs

/-- **Any batching gives the slice**: however the input is cut into batches (any sizes, including
empty batches and batches that straddle the offset or the limit), the single-partition limit
operator outputs exactly `(input.drop offset).take count`. -/
theorem limitRun_spec (bs : List (List α)) (s : LimitSt) :
    limitRun s bs = (bs.flatten.drop s.remOffset).take s.remCount := by
  induction bs generalizing s with
  | nil => simp [limitRun]
  | cons b bs ih =>
    simp only [limitRun, limitStep, List.flatten_cons]
    split
    · rename_i h
      rw [ih, List.drop_append, List.drop_eq_nil_of_le h]
      simp
    · rename_i h
      have h' : s.remOffset - b.length = 0 := by omega
      rw [ih, List.drop_append, h', List.take_append]
      simp only [List.drop_zero, List.length_take, List.length_drop]
      congr 2
      omega

/-- Corollary: the output never depends on where the batch boundaries fall. -/
theorem limit_batching_independent (bs cs : List (List α)) (s : LimitSt) (h : bs.flatten = cs.flatten) :
    limitRun s bs = limitRun s cs := by
  rw [limitRun_spec, limitRun_spec, h]

/-- The number of rows a LIMIT emits depends only on how many rows arrive, not on which partition's
batch is served first: the operator state is shared by all partitions, so a multi-partition run is
`limitRun` on the batches in arrival order, whatever that order is. -/
theorem limit_length (bs : List (List α)) (s : LimitSt) :
    (limitRun s bs).length = min s.remCount (bs.flatten.length - s.remOffset) := by
  rw [limitRun_spec]
  simp [List.length_take, List.length_drop]

theorem limit_count_schedule_independent (bs cs : List (List α)) (s : LimitSt)
    (h : bs.flatten.length = cs.flatten.length) :
    (limitRun s bs).length = (limitRun s cs).length := by
  rw [limit_length, limit_length, h]

/-- Every row a LIMIT emits is a row it received (it never invents or duplicates rows: the output
is a contiguous slice of the arrival order). -/
theorem limit_sublist (bs : List (List α)) (s : LimitSt) :
    (limitRun s bs).Sublist bs.flatten := by
  rw [limitRun_spec]
  exact (List.take_sublist _ _).trans (List.drop_sublist _ _)

example : limitRun ⟨2, 3⟩ [[1, 2, 3], [], [4, 5], [6, 7, 8]] = [3, 4, 5] := by decide

/-- `scan_inner` after the repair of F36: a stored chunk is handed out in slices of at most
`capacity.max(1)` rows; `chunk_row_offset` is the length of what has been handed out. -/
def sliceChunk (cap : Nat) (xs : List α) : List (List α) :=
  if h : xs.length ≤ max cap 1 then [xs]
  else xs.take (max cap 1) :: sliceChunk cap (xs.drop (max cap 1))
termination_by xs.length
decreasing_by
  simp only [List.length_drop]
  have : 1 ≤ max cap 1 := Nat.le_max_right _ _
  omega

/-- The batches a scan produces for a list of stored chunks. -/
def scanBatches (cap : Nat) (chunks : List (List α)) : List (List α) := chunks.flatMap (sliceChunk cap)

theorem sliceChunk_flatten (cap : Nat) (xs : List α) : (sliceChunk cap xs).flatten = xs := by
  induction h : xs.length using Nat.strongRecOn generalizing xs with
  | _ n ih =>
    rw [sliceChunk]
    split
    · simp
    · rename_i hlt
      have h1 : 1 ≤ max cap 1 := Nat.le_max_right _ _
      have := ih (xs.drop (max cap 1)).length (by simp only [List.length_drop]; omega) (xs.drop (max cap 1)) rfl
      simp [this]

theorem sliceChunk_le (cap : Nat) (xs : List α) : ∀ b ∈ sliceChunk cap xs, b.length ≤ max cap 1 := by
  induction h : xs.length using Nat.strongRecOn generalizing xs with
  | _ n ih =>
    rw [sliceChunk]
    split
    · rename_i hle
      intro b hb
      simp at hb
      subst hb
      exact hle
    · rename_i hlt
      have h1 : 1 ≤ max cap 1 := Nat.le_max_right _ _
      intro b hb
      rcases List.mem_cons.mp hb with hb | hb
      · subst hb
        simp [List.length_take]
        omega
      · exact ih (xs.drop (max cap 1)).length (by simp only [List.length_drop]; omega) (xs.drop (max cap 1)) rfl b hb

/-- **A scan returns every stored row exactly once, in order, in batches no larger than the output
capacity** - whatever the sizes of the stored chunks and whatever batch size wrote them. -/
theorem scan_batches_spec (cap : Nat) (chunks : List (List α)) :
    (scanBatches cap chunks).flatten = chunks.flatten ∧ ∀ b ∈ scanBatches cap chunks, b.length ≤ max cap 1 := by
  constructor
  · unfold scanBatches
    induction chunks with
    | nil => simp
    | cons c cs ih => simp [List.flatMap_cons, sliceChunk_flatten, ih]
  · intro b hb
    unfold scanBatches at hb
    obtain ⟨c, _, hbc⟩ := List.mem_flatMap.mp hb
    exact sliceChunk_le cap c b hbc

/-- The scan of the pinned commit returned each chunk whole: with a chunk of five rows and an output
capacity of two it produced a batch of five rows (the operator downstream then indexed past its
buffers: F36). -/
theorem unsliced_scan_exceeds_capacity :
    ∃ b ∈ ([[1, 2, 3, 4, 5]] : List (List Nat)), ¬ b.length ≤ 2 := ⟨[1, 2, 3, 4, 5], by simp, by decide⟩

example : scanBatches 2 [[1, 2, 3, 4, 5], [], [6]] = [[1, 2], [3, 4], [5], [], [6]] := by
  simp [scanBatches, sliceChunk]

end GlareModel.Props.C03
