import GlareModel.Core.Sem
/-! # C02 — The optimizer never changes what a query returns (rewrite laws, stated on `Sem`) -/
namespace GlareModel.Props.C02
open GlareModel.Sem

def ov : Option Bool → Value
  | none => .null
  | some b => .bool b

/-- Conjunction splitting used by filter pushdown: a row passes `p AND q` iff it passes `p` and passes `q`
(three-valued: only TRUE passes). -/
theorem and_passes_iff (a b : Option Bool) :
    (and3 (ov a) (ov b) = .ok (.bool true)) ↔ (ov a = .bool true ∧ ov b = .bool true) := by
  rcases a with _ | _ | _ <;> rcases b with _ | _ | _ <;> simp [and3, ov]

/-- Absorption: `x OR (x AND y)` is `x` in three-valued logic — *not* `x AND y`, which is what the
pinned commit's distributive-OR rewrite produces (known finding F35). -/
theorem or_absorption (x y : Option Bool) :
    (do or3 (ov x) (← and3 (ov x) (ov y))) = .ok (ov x) := by
  rcases x with _ | _ | _ <;> rcases y with _ | _ | _ <;> rfl

/-- Witness that the rewrite `x OR (x AND y) ↦ x AND y` changes results. -/
theorem distributive_or_rewrite_unsound :
    ∃ x y : Option Bool, (do or3 (ov x) (← and3 (ov x) (ov y))) ≠ and3 (ov x) (ov y) :=
  ⟨some true, some false, by simp [ov, and3, or3, bind, Except.bind]⟩

/-- Distribution that the rewrite is meant to implement: `(x AND y) OR (x AND z) = x AND (y OR z)`. -/
theorem and_or_distrib (x y z : Option Bool) :
    (do or3 (← and3 (ov x) (ov y)) (← and3 (ov x) (ov z))) = (do and3 (ov x) (← or3 (ov y) (ov z))) := by
  rcases x with _ | _ | _ <;> rcases y with _ | _ | _ <;> rcases z with _ | _ | _ <;> rfl

end GlareModel.Props.C02
