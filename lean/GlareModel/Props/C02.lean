import GlareModel.Core.Sem
/-! # C02 — The optimizer never changes what a query returns (rewrite laws, stated on `Sem`) -/
namespace GlareModel.Props.C02
open GlareModel.Sem

def ov : Option Bool → Value
  | none => .null
  | some b => .bool b

/-- Conjunction splitting used by filter pushdown: a row passes `p AND q` iff it passes `p` and passes `q`
(three-valued: only TRUE passes). -/
theorem and_passes_iff (a b : Option Bool) :
    (and3 (ov a) (ov b) = .ok (.bool true)) ↔ (ov a = .bool true ∧ ov b = .bool true) := by
  rcases a with _ | _ | _ <;> rcases b with _ | _ | _ <;> simp [and3, ov]

/-- Absorption: `x OR (x AND y)` is `x` in three-valued logic — *not* `x AND y`, which is what the
pinned commit's distributive-OR rewrite produces (known finding F35). -/
theorem or_absorption (x y : Option Bool) :
    (do or3 (ov x) (← and3 (ov x) (ov y))) = .ok (ov x) := by
  rcases x with _ | _ | _ <;> rcases y with _ | _ | _ <;> rfl

/-- Witness that the rewrite `x OR (x AND y) ↦ x AND y` changes results. -/
theorem distributive_or_rewrite_unsound :
    ∃ x y : Option Bool, (do or3 (ov x) (← and3 (ov x) (ov y))) ≠ and3 (ov x) (ov y) :=
  ⟨some true, some false, by simp [ov, and3, or3, bind, Except.bind]⟩

/-- Distribution that the rewrite is meant to implement: `(x AND y) OR (x AND z) = x AND (y OR z)`. -/
theorem and_or_distrib (x y z : Option Bool) :
    (do or3 (← and3 (ov x) (ov y)) (← and3 (ov x) (ov z))) = (do and3 (ov x) (← or3 (ov y) (ov z))) := by
  rcases x with _ | _ | _ <;> rcases y with _ | _ | _ <;> rcases z with _ | _ | _ <;> rfl

/-! ## Plan-level rewrite laws

The optimizer passes (`filter_pushdown`, `limit_pushdown`, `column_prune`, `redundant_groups`, join
reordering) are justified by the following identities over bags represented as lists, for arbitrary
row types and arbitrary predicates (a predicate is the Boolean "evaluates to TRUE"). Inner, cross,
left outer and semi joins are written out as the nested loops that define them. -/

variable {A B C : Type}

def cross (l : List A) (r : List B) : List (A × B) := l.flatMap fun a => r.map fun b => (a, b)

def innerJoin (on : A → B → Bool) (l : List A) (r : List B) : List (A × B) :=
  l.flatMap fun a => (r.filter (on a)).map fun b => (a, b)

def leftJoin (on : A → B → Bool) (l : List A) (r : List B) : List (A × Option B) :=
  l.flatMap fun a =>
    let m := r.filter (on a)
    if m.isEmpty then [(a, none)] else m.map fun b => (a, some b)

def semiJoin (on : A → B → Bool) (l : List A) (r : List B) : List A := l.filter fun a => r.any (on a)

def antiJoin (on : A → B → Bool) (l : List A) (r : List B) : List A := l.filter fun a => !r.any (on a)

/-- A filter over a cross product is the inner join on that predicate (cross join + WHERE becomes a
comparison join). -/
theorem filter_cross_eq_inner (on : A → B → Bool) (l : List A) (r : List B) :
    (cross l r).filter (fun p => on p.1 p.2) = innerJoin on l r := by
  unfold cross innerJoin
  induction l with
  | nil => simp
  | cons a as ih =>
    simp only [List.flatMap_cons, List.filter_append, ih]
    congr 1
    rw [List.filter_map]
    rfl

/-- Filter pushdown through an inner join: a predicate on the left input alone can be applied
before the join. -/
theorem filter_push_inner_left (on : A → B → Bool) (p : A → Bool) (l : List A) (r : List B) :
    (innerJoin on l r).filter (fun x => p x.1) = innerJoin on (l.filter p) r := by
  unfold innerJoin
  induction l with
  | nil => simp
  | cons a as ih =>
    simp only [List.flatMap_cons, List.filter_append, ih, List.filter_cons]
    by_cases hp : p a = true
    · simp only [hp, if_true, List.flatMap_cons]
      congr 1
      rw [List.filter_map]
      simp [Function.comp_def, hp]
    · have hp' : p a = false := by simpa using hp
      simp only [hp', Bool.false_eq_true, if_false]
      rw [List.filter_map]
      simp [Function.comp_def, hp']

/-- ... and a predicate on the right input alone can be applied to the right input. -/
theorem filter_push_inner_right (on : A → B → Bool) (q : B → Bool) (l : List A) (r : List B) :
    (innerJoin on l r).filter (fun x => q x.2) = innerJoin on l (r.filter q) := by
  unfold innerJoin
  induction l with
  | nil => simp
  | cons a as ih =>
    simp only [List.flatMap_cons, List.filter_append, ih]
    congr 1
    rw [List.filter_map]
    simp only [Function.comp_def, List.filter_filter]
    congr 1
    apply List.filter_congr
    intro b _
    exact Bool.and_comm _ _

/-- Filter pushdown through a LEFT join is sound for predicates on the preserved (left) side. -/
theorem filter_push_left_join_left (on : A → B → Bool) (p : A → Bool) (l : List A) (r : List B) :
    (leftJoin on l r).filter (fun x => p x.1) = leftJoin on (l.filter p) r := by
  unfold leftJoin
  induction l with
  | nil => simp
  | cons a as ih =>
    simp only [List.flatMap_cons, List.filter_append, ih, List.filter_cons]
    by_cases hp : p a = true
    · simp only [hp, if_true, List.flatMap_cons]
      congr 1
      split
      · simp [hp]
      · rw [List.filter_map]; simp [Function.comp_def, hp]
    · have hp' : p a = false := by simpa using hp
      simp only [hp', Bool.false_eq_true, if_false]
      split
      · simp [hp']
      · rw [List.filter_map]; simp [Function.comp_def, hp']

/-- ... but a predicate on the NULL-extended (right) side must stay above the join: pushing it into
the right input turns rows that the filter removes into NULL-extended rows. -/
theorem filter_push_left_join_right_unsound :
    let on : Nat → Nat → Bool := fun a b => a == b
    let q : Nat → Bool := fun b => b != 1
    (leftJoin on [1] [1]).filter (fun x => match x.2 with | some b => q b | none => false) = [] ∧
      (leftJoin on [1] ([1].filter q)).filter (fun x => match x.2 with | some b => q b | none => true) = [(1, none)] := by
  decide

/-- Filter pushdown through semi and anti joins (EXISTS / NOT EXISTS): a predicate on the outer
rows commutes with the join. -/
theorem filter_push_semi (on : A → B → Bool) (p : A → Bool) (l : List A) (r : List B) :
    (semiJoin on l r).filter p = semiJoin on (l.filter p) r := by
  unfold semiJoin
  rw [List.filter_filter, List.filter_filter]
  apply List.filter_congr
  intro a _
  exact Bool.and_comm _ _

theorem filter_push_anti (on : A → B → Bool) (p : A → Bool) (l : List A) (r : List B) :
    (antiJoin on l r).filter p = antiJoin on (l.filter p) r := by
  unfold antiJoin
  rw [List.filter_filter, List.filter_filter]
  apply List.filter_congr
  intro a _
  exact Bool.and_comm _ _

/-- Conjuncts can be applied one after the other, in either order (filter splitting and selection
reordering). -/
theorem filter_and_split (p q : A → Bool) (l : List A) :
    l.filter (fun a => p a && q a) = (l.filter q).filter p := by
  rw [List.filter_filter]

theorem filter_comm (p q : A → Bool) (l : List A) : (l.filter p).filter q = (l.filter q).filter p := by
  rw [List.filter_filter, List.filter_filter]
  apply List.filter_congr
  intro a _
  exact Bool.and_comm _ _

/-- LIMIT pushdown through a projection: limiting before or after a row-wise projection is the
same (the projection is a map). -/
theorem limit_push_project (f : A → B) (n off : Nat) (l : List A) :
    ((l.map f).drop off).take n = ((l.drop off).take n).map f := by
  rw [List.map_take, List.map_drop]

/-- ... but LIMIT does not commute with a filter: limiting first loses rows the filter would keep. -/
theorem limit_push_filter_unsound :
    (([1, 2, 3].filter (fun x => x != 1)).take 1 = [2]) ∧ (([1, 2, 3].take 1).filter (fun x => x != 1) = []) := by
  decide

/-- Column pruning: a projection of a projection is the projection of the composition (unused
columns need not be computed). -/
theorem project_project (f : A → B) (g : B → C) (l : List A) : (l.map f).map g = l.map (g ∘ f) := by
  simp [List.map_map]

/-- A filter that only reads projected-away-or-not columns commutes with the projection when it is
expressed on the input (predicate pushdown through projections). -/
theorem filter_push_project (f : A → B) (p : B → Bool) (l : List A) :
    (l.map f).filter p = (l.filter (p ∘ f)).map f := by
  rw [List.filter_map]

/-- EXISTS and NOT EXISTS split the outer rows: every outer row is in exactly one of the semi join
and the anti join (so `NOT EXISTS` may be planned as the complement of `EXISTS` and vice versa). -/
theorem semi_anti_partition {A B : Type} (on : A → B → Bool) (l : List A) (r : List B) :
    (semiJoin on l r ++ antiJoin on l r).Perm l ∧
      (semiJoin on l r).length + (antiJoin on l r).length = l.length := by
  unfold semiJoin antiJoin
  constructor
  · exact List.filter_append_perm _ l
  · induction l with
    | nil => simp
    | cons a as ih =>
      simp only [List.filter_cons]
      cases h : r.any (on a) <;> simp [h] <;> omega

/-- An inner join on a condition that is never TRUE is empty, and a semi join against an empty right
side is empty (constant-FALSE filters short-circuit the plan). -/
theorem inner_join_false {A B : Type} (l : List A) (r : List B) : innerJoin (fun _ _ => false) l r = [] := by
  unfold innerJoin
  induction l with
  | nil => simp
  | cons a as ih => simp [List.flatMap_cons, ih]

theorem semi_join_empty_right {A B : Type} (on : A → B → Bool) (l : List A) : semiJoin on l ([] : List B) = [] := by
  simp [semiJoin]

theorem anti_join_empty_right {A B : Type} (on : A → B → Bool) (l : List A) : antiJoin on l ([] : List B) = l := by
  simp [antiJoin]

/-! ### Join reordering -/

theorem flatMap_append_perm_aux {A C : Type} (g h : A → List C) (l : List A) :
    (l.flatMap fun a => g a ++ h a).Perm (l.flatMap g ++ l.flatMap h) := by
  induction l with
  | nil => simp
  | cons a as ih =>
    simp only [List.flatMap_cons]
    -- (g a ++ h a) ++ X  ~  (g a ++ G) ++ (h a ++ H)   where X ~ G ++ H
    have h1 : ((g a ++ h a) ++ (as.flatMap fun a => g a ++ h a)).Perm ((g a ++ h a) ++ (as.flatMap g ++ as.flatMap h)) :=
      List.Perm.append_left _ ih
    refine h1.trans ?_
    -- g a ++ (h a ++ (G ++ H)) ~ g a ++ (G ++ (h a ++ H))
    rw [List.append_assoc, List.append_assoc]
    refine List.Perm.append_left _ ?_
    rw [← List.append_assoc, ← List.append_assoc]
    exact List.Perm.append_right _ List.perm_append_comm

theorem flatMap_singleton_eq_map {A C : Type} (f : A → C) (l : List A) : (l.flatMap fun b => [f b]) = l.map f := by
  induction l with
  | nil => simp
  | cons b bs ih => simp [List.flatMap_cons, ih]

/-- Swapping the two inputs of a cross product gives the same pairs (as a bag). -/
theorem cross_comm {A B : Type} (l : List A) (r : List B) :
    ((cross r l).map fun p => (p.2, p.1)).Perm (cross l r) := by
  unfold cross
  induction l with
  | nil =>
    simp only [List.flatMap_nil]
    induction r with
    | nil => simp
    | cons b bs ih => simpa [List.flatMap_cons] using ih
  | cons a as ih =>
    simp only [List.flatMap_cons]
    -- left: map swap (r.flatMap fun b => (b,a) :: as.map (b,·))
    have hl : (List.map (fun p : B × A => (p.2, p.1)) (r.flatMap fun b => (a :: as).map fun x => (b, x)))
        = r.flatMap (fun b => [(a, b)] ++ as.map fun x => (x, b)) := by
      rw [List.map_flatMap]
      congr 1
      funext b
      simp [List.map_map, Function.comp_def]
    rw [hl]
    refine (flatMap_append_perm_aux (fun b => [(a, b)]) (fun b => as.map fun x => (x, b)) r).trans ?_
    have e1 : (r.flatMap fun b => [(a, b)]) = r.map fun b => (a, b) := flatMap_singleton_eq_map (fun b => (a, b)) r
    rw [e1]
    refine List.Perm.append_left _ ?_
    have hr : (List.map (fun p : B × A => (p.2, p.1)) (r.flatMap fun b => as.map fun x => (b, x)))
        = r.flatMap (fun b => as.map fun x => (x, b)) := by
      rw [List.map_flatMap]
      congr 1
      funext b
      simp [List.map_map, Function.comp_def]
    rw [← hr]
    exact ih

/-- **Inner joins commute** (the law behind join reordering): swapping the inputs and the condition
gives the same bag of pairs. -/
theorem inner_join_comm {A B : Type} (on : A → B → Bool) (l : List A) (r : List B) :
    ((innerJoin (fun b a => on a b) r l).map fun p => (p.2, p.1)).Perm (innerJoin on l r) := by
  rw [← filter_cross_eq_inner, ← filter_cross_eq_inner]
  have h := List.Perm.filter (fun p : A × B => on p.1 p.2) (cross_comm l r)
  rw [List.filter_map] at h
  exact h

/-- The matched part of a LEFT join is the inner join, in the same order... -/
theorem left_join_matched_part {A B : Type} (on : A → B → Bool) (l : List A) (r : List B) :
    (leftJoin on l r).filterMap (fun p => p.2.map fun b => (p.1, b)) = innerJoin on l r := by
  unfold leftJoin innerJoin
  induction l with
  | nil => simp
  | cons a as ih =>
    simp only [List.flatMap_cons, List.filterMap_append, ih]
    congr 1
    cases h : (r.filter (on a)) with
    | nil => simp
    | cons b bs => simp [List.filterMap_map, Function.comp_def]

/-- ... and its NULL-extended rows are exactly the rows of the anti join (the outer rows without a
match), each once. -/
theorem left_join_unmatched_part {A B : Type} (on : A → B → Bool) (l : List A) (r : List B) :
    (leftJoin on l r).filterMap (fun p => if p.2.isNone then some p.1 else none) = antiJoin on l r := by
  unfold leftJoin antiJoin
  induction l with
  | nil => simp
  | cons a as ih =>
    simp only [List.flatMap_cons, List.filterMap_append, ih, List.filter_cons]
    cases h : (r.filter (on a)) with
    | nil =>
      have hany : r.any (on a) = false := by
        rw [List.any_eq_false]
        intro b hb hon
        have : b ∈ r.filter (on a) := List.mem_filter.mpr ⟨hb, hon⟩
        rw [h] at this
        cases this
      simp [hany]
    | cons b bs =>
      have hany : r.any (on a) = true := by
        rw [List.any_eq_true]
        have : b ∈ r.filter (on a) := by rw [h]; exact List.mem_cons_self ..
        exact ⟨b, (List.mem_filter.mp this).1, (List.mem_filter.mp this).2⟩
      simp [hany, List.filterMap_map, Function.comp_def]

end GlareModel.Props.C02
