import GlareModel.Core.Arith

/-!
# C12 — Integer and decimal arithmetic is exact or fails; never wraps or crashes
-/
namespace GlareModel.Props.C12
open GlareModel.Arith

/-- Every native integer operator of the model is exact whenever it yields a value, and the
value is representable in the operand type (all widths, both signednesses, all operands). -/
theorem int_ops_exact (t : IntTy) (a b v : Int) :
    (natAdd t a b = .val v → v = a + b ∧ t.inRange v = true) ∧
    (natSub t a b = .val v → v = a - b ∧ t.inRange v = true) ∧
    (natMul t a b = .val v → v = a * b ∧ t.inRange v = true) ∧
    (natDiv t a b = .val v → b ≠ 0 ∧ v = Int.tdiv a b ∧ t.inRange v = true) ∧
    (natNeg t a = .val v → v = -a ∧ t.inRange v = true) := by
  refine ⟨?_, ?_, ?_, ?_, ?_⟩ <;> intro h
  all_goals
    simp only [natAdd, natSub, natMul, natDiv, natNeg, exactOr] at h
    (try split at h) <;> (try split at h) <;> simp_all

/-- An operator traps exactly when the mathematical result is not representable (or the
divisor is zero): nothing representable is ever rejected. -/
theorem int_trap_iff (t : IntTy) (a b : Int) :
    (natAdd t a b = .trap .overflow ↔ t.inRange (a + b) = false) ∧
    (natSub t a b = .trap .overflow ↔ t.inRange (a - b) = false) ∧
    (natMul t a b = .trap .overflow ↔ t.inRange (a * b) = false) ∧
    (natDiv t a b = .trap .divZero ↔ b = 0) := by
  refine ⟨?_, ?_, ?_, ?_⟩
  all_goals
    simp only [natAdd, natSub, natMul, natDiv, exactOr]
    split <;> (try split) <;> simp_all

/-- The full statement of C12 for integer `+` ("overflow is an *error*") is false of the code
at the pinned commit: the model, like the code, has no error outcome, it traps
(panic in debug builds, wrap-around in release builds). Witness `127 + 1 : Int8`. Known finding F3. -/
theorem int_add_overflow_is_not_an_error :
    binop "+" (.int ⟨8, true⟩) 127 (.int ⟨8, true⟩) 1 = .trap .overflow := by decide

/-- What a release build returns on that input: the wrapped value, which is wrong. -/
theorem int8_wrap_witness : (IntTy.wrap ⟨8, true⟩ (127 + 1)) = -128 := by decide

/-- SUM is a homomorphism over any split of its input: updating partition-wise and merging
gives the same state as one pass, whenever no step overflows. -/
theorem sum_split (t : IntTy) (xs ys : List Int) (a b : SumSt)
    (ha : sumFold t sumInit xs = some a) (hb : sumFold t sumInit ys = some b) (m : SumSt)
    (hm : sumMerge t a b = some m) :
    m.sum = xs.sum + ys.sum ∧ m.valid = (!xs.isEmpty || !ys.isEmpty) := by
  have key : ∀ (zs : List Int) (s r : SumSt), sumFold t s zs = some r →
      r.sum = s.sum + zs.sum ∧ r.valid = (s.valid || !zs.isEmpty) := by
    intro zs
    induction zs with
    | nil => intro s r h; simp [sumFold] at h; subst h; simp
    | cons z zs ih =>
      intro s r h
      simp only [sumFold, sumUpdate] at h
      split at h
      · rename_i s' hs
        split at hs
        · simp only [Option.some.injEq] at hs
          subst hs
          have := ih _ _ h
          simp only [List.sum_cons, List.isEmpty_cons, Bool.not_false, Bool.or_true]
          constructor
          · rw [this.1]; simp [Int.add_assoc]
          · rw [this.2]; simp
        · cases hs
      · cases h
  have h1 := key xs sumInit a ha
  have h2 := key ys sumInit b hb
  simp only [sumMerge] at hm
  split at hm
  · simp only [Option.some.injEq] at hm
    subst hm
    simp [h1, h2, sumInit]
  · cases hm

/-- SUM never returns a wrong total: a finalized value is the exact sum of the inputs. -/
theorem sum_exact (t : IntTy) (xs : List Int) (s : SumSt) (v : Int)
    (h : sumFold t sumInit xs = some s) (hv : sumFinalize s = some v) : v = xs.sum ∧ t.inRange v = true ∧ xs ≠ [] := by
  have key : ∀ (zs : List Int) (s r : SumSt), sumFold t s zs = some r →
      r.sum = s.sum + zs.sum ∧ r.valid = (s.valid || !zs.isEmpty) ∧ (zs ≠ [] → t.inRange r.sum = true) := by
    intro zs
    induction zs with
    | nil => intro s r h; simp [sumFold] at h; subst h; simp
    | cons z zs ih =>
      intro s r h
      simp only [sumFold, sumUpdate] at h
      split at h
      · rename_i s' hs
        split at hs
        · rename_i hr
          simp only [Option.some.injEq] at hs
          subst hs
          have := ih _ _ h
          refine ⟨?_, ?_, ?_⟩
          · rw [this.1]; simp [Int.add_assoc]
          · rw [this.2.1]; simp
          · intro _
            cases zs with
            | nil => simp [sumFold] at h; subst h; exact hr
            | cons w ws => exact this.2.2 (by simp)
        · cases hs
      · cases h
  have := key xs sumInit s h
  simp only [sumFinalize] at hv
  split at hv
  · rename_i hvalid
    simp only [Option.some.injEq] at hv
    subst hv
    have hne : xs ≠ [] := by
      intro e; subst e
      simp [sumInit] at this
      rw [this.2] at hvalid
      cases hvalid
    exact ⟨by simpa [sumInit] using this.1, this.2.2 hne, hne⟩
  · cases hv

/-- Decimal `+`/`-` result type (`common_add_sub_decimal_type_info`): the scale is the larger
operand scale and the precision never exceeds the maximum of the width. -/
theorem addSub_type_bounds (bits : Nat) (l r : NumTy) (rt : DecTy) (h : addSubType bits l r = some rt) :
    rt.prec ≤ maxPrec bits ∧ rt.bits = bits ∧
      (∀ lp ls rp rs, metaOf bits l = some (lp, ls) → metaOf bits r = some (rp, rs) → rt.scale = max ls rs) := by
  simp only [addSubType] at h
  split at h
  · rename_i lp ls rp rs hl hr
    simp only [Option.some.injEq] at h
    subst h
    refine ⟨Nat.min_le_right _ _, rfl, ?_⟩
    intro lp' ls' rp' rs' h1 h2
    rw [hl] at h1; rw [hr] at h2
    simp only [Option.some.injEq, Prod.mk.injEq] at h1 h2
    rw [h1.2, h2.2]
  · cases h

/-- Rescaling to a larger scale is exact (multiplication by a power of ten) and the result
respects the target precision. -/
theorem rescale_up_exact (src dst : DecTy) (v r : Int) (hs : src.scale < dst.scale)
    (h : rescale src dst v = some r) :
    r = v * (10 ^ (dst.scale - src.scale).toNat : Nat) ∧ validPrec r dst.prec = true := by
  obtain ⟨hc, hp⟩ := rescale_some h
  refine ⟨?_, hp⟩
  have hd : src.scale - dst.scale < 0 := by omega
  have e : (-(src.scale - dst.scale)) = dst.scale - src.scale := by omega
  simp only [rescaleCore, hd, if_true, e] at hc
  split at hc
  · simp only [Option.some.injEq] at hc
    exact hc.symm
  · cases hc

/-! Non-vacuity. -/
example : natAdd ⟨64, true⟩ 9223372036854775806 1 = .val 9223372036854775807 := by decide
example : sumFold ⟨64, true⟩ sumInit [1, 2, 3] = some ⟨6, true⟩ := by decide
example : addSubType 64 (.dec ⟨64, 9, 3⟩) (.int ⟨32, true⟩) = some ⟨64, 14, 3⟩ := by decide

end GlareModel.Props.C12
