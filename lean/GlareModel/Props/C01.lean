import GlareModel.Core.Sem

/-! # C01 — SELECT results equal SQL bag semantics (theorems about `Sem`) -/
namespace GlareModel.Props.C01
open GlareModel.Sem

def ov : Option Bool → Value
  | none => .null
  | some b => .bool b

/-- Three-valued AND / OR are commutative on the whole truth domain {TRUE, FALSE, NULL}. -/
theorem kleene_comm (a b : Option Bool) :
    and3 (ov a) (ov b) = and3 (ov b) (ov a) ∧ or3 (ov a) (ov b) = or3 (ov b) (ov a) := by
  rcases a with _ | _ | _ <;> rcases b with _ | _ | _ <;> exact ⟨rfl, rfl⟩

/-- De Morgan in three-valued logic. -/
theorem kleene_de_morgan (a b : Option Bool) :
    (and3 (ov a) (ov b) >>= not3) = (do or3 (← not3 (ov a)) (← not3 (ov b))) := by
  rcases a with _ | _ | _ <;> rcases b with _ | _ | _ <;> rfl

end GlareModel.Props.C01
