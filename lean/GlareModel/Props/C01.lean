import GlareModel.Core.Sem

/-! # C01 — SELECT results equal SQL bag semantics (theorems about `Sem`) -/
namespace GlareModel.Props.C01
open GlareModel.Sem

def ov : Option Bool → Value
  | none => .null
  | some b => .bool b

/-- Three-valued AND / OR are commutative on the whole truth domain {TRUE, FALSE, NULL}. -/
theorem kleene_comm (a b : Option Bool) :
    and3 (ov a) (ov b) = and3 (ov b) (ov a) ∧ or3 (ov a) (ov b) = or3 (ov b) (ov a) := by
  rcases a with _ | _ | _ <;> rcases b with _ | _ | _ <;> exact ⟨rfl, rfl⟩

/-- De Morgan in three-valued logic. -/
theorem kleene_de_morgan (a b : Option Bool) :
    (and3 (ov a) (ov b) >>= not3) = (do or3 (← not3 (ov a)) (← not3 (ov b))) := by
  rcases a with _ | _ | _ <;> rcases b with _ | _ | _ <;> rfl

/-! ## What the reference semantics `Sem` says, operator by operator

The correspondence check compares the engine with `Sem` on generated queries; these theorems pin
down, for every database, environment and input, what `Sem` itself computes for the relational
operators, so that "equal to Sem" has a meaning one can read: WHERE keeps exactly the TRUE rows,
UNION ALL is bag union, LIMIT/OFFSET is the exact slice, DISTINCT keeps one copy of every row, the
cross product has |L|*|R| rows, ORDER BY permutes. -/

instance : LawfulBEq Value where
  rfl := by
    intro a
    cases a with
    | null => rfl
    | int i => show (decide (i = i)) = true; simp
    | bool b => cases b <;> rfl
    | str s => show (decide (s = s)) = true; simp
  eq_of_beq := by
    intro a b h
    cases a <;> cases b <;>
      first
        | rfl
        | exact absurd (show false = true from h) (by decide)
        | exact congrArg _ (of_decide_eq_true h)

theorem beq_bool_true (c : Value) : (c == Value.bool true) = true ↔ c = .bool true := by simp

/-- TRUE, and nothing else (not NULL, not FALSE, not an error), lets a row through. -/
def passes (x : Except Err Value) : Bool :=
  match x with
  | .ok v => v == .bool true
  | .error _ => false

/-- The row-wise step of `filterRows`. -/
def keepRow (db : Db) (f : Nat) (env : List Row) (p : Expr) (r : Row) : Except Err (Option Row) := do
  let c ← evalE db f env r p
  pure (if c == .bool true then some r else none)

theorem filterRows_eq (db : Db) (f : Nat) (env : List Row) (p : Expr) (rs : List Row) :
    filterRows db (f + 1) env p rs = rs.filterMapM (keepRow db f env p) := rfl

/-- **WHERE keeps exactly the rows whose predicate is TRUE**: when filtering succeeds, the output is
the input filtered by "the predicate evaluates to TRUE" (order and multiplicity preserved; NULL and
FALSE rows are dropped), and no row's predicate raised an error. -/
theorem filterRows_spec (db : Db) (f : Nat) (env : List Row) (p : Expr) (rs out : List Row)
    (h : filterRows db (f + 1) env p rs = .ok out) :
    out = rs.filter (fun r => passes (evalE db f env r p)) ∧ ∀ r ∈ rs, ∃ v, evalE db f env r p = .ok v := by
  rw [filterRows_eq] at h
  induction rs generalizing out with
  | nil =>
    simp only [List.filterMapM_nil, pure, Except.pure, Except.ok.injEq] at h
    subst h; simp
  | cons r rs ih =>
    rw [List.filterMapM_cons] at h
    cases hc : evalE db f env r p with
    | error e => simp [keepRow, hc, bind, Except.bind] at h
    | ok c =>
      cases hrest : List.filterMapM (keepRow db f env p) rs with
      | error e =>
        by_cases ht : (c == Value.bool true) = true <;>
          simp [keepRow, hc, hrest, ht, bind, Except.bind, pure, Except.pure] at h
      | ok rest =>
        have hih := ih rest hrest
        have hall : ∀ x ∈ r :: rs, ∃ v, evalE db f env x p = .ok v := by
          intro x hx
          rcases List.mem_cons.mp hx with h1 | h2
          · exact ⟨c, h1 ▸ hc⟩
          · exact hih.2 x h2
        by_cases ht : (c == Value.bool true) = true
        · simp only [keepRow, hc, hrest, ht, bind, Except.bind, pure, Except.pure, if_true, Except.ok.injEq] at h
          subst h
          exact ⟨by simp [List.filter_cons, passes, hc, (beq_iff_eq.mp ht), hih.1], hall⟩
        · have hf : (c == Value.bool true) = false := by simpa using ht
          simp only [keepRow, hc, hrest, hf, bind, Except.bind, pure, Except.pure, Bool.false_eq_true, if_false, Except.ok.injEq] at h
          subst h
          exact ⟨by simp [List.filter_cons, passes, hc, hf, hih.1], hall⟩

/-- A filter node is "evaluate the input, then keep the TRUE rows". -/
theorem evalQ_filter (db : Db) (f : Nat) (env : List Row) (p : Expr) (q : Query) :
    evalQ db (f + 1) env (.filter p q) = (do let rs ← evalQ db f env q; filterRows db f env p rs) := by
  simp [evalQ]

/-- UNION ALL is bag union: the concatenation of both results (every row with its multiplicity). -/
theorem evalQ_union_all (db : Db) (f : Nat) (env : List Row) (l r : Query) (a b : List Row)
    (ha : evalQ db f env l = .ok a) (hb : evalQ db f env r = .ok b) :
    evalQ db (f + 1) env (.union true l r) = .ok (a ++ b) := by
  simp [evalQ, ha, hb, bind, Except.bind, pure, Except.pure]

/-- LIMIT n OFFSET m is the exact slice of its input. -/
theorem evalQ_limit (db : Db) (f : Nat) (env : List Row) (n off : Nat) (q : Query) (rs : List Row)
    (h : evalQ db f env q = .ok rs) : evalQ db (f + 1) env (.limit n off q) = .ok ((rs.drop off).take n) := by
  simp [evalQ, h, bind, Except.bind, pure, Except.pure]

/-- DISTINCT keeps exactly one copy of every row that occurs. -/
theorem mem_dedup (rs : List Row) (r : Row) : r ∈ dedup rs ↔ r ∈ rs := by
  induction rs with
  | nil => simp [dedup]
  | cons x xs ih =>
    simp only [dedup, List.mem_cons, List.mem_filter, ih]
    constructor
    · rintro (h | ⟨h, _⟩)
      · exact Or.inl h
      · exact Or.inr h
    · rintro (h | h)
      · exact Or.inl h
      · by_cases hx : r = x
        · exact Or.inl hx
        · exact Or.inr ⟨h, by simp [rowEq, hx]⟩

theorem dedup_nodup (rs : List Row) : (dedup rs).Nodup := by
  induction rs with
  | nil => simp [dedup]
  | cons x xs ih =>
    simp only [dedup]
    refine List.nodup_cons.mpr ⟨?_, List.Nodup.sublist List.filter_sublist ih⟩
    intro h
    have := (List.mem_filter.mp h).2
    simp [rowEq] at this

/-- The cross product has |L| * |R| rows. -/
theorem cross_join_length (db : Db) (f : Nat) (env : List Row) (l r : Query) (a b : List Row) (on : Expr)
    (ha : evalQ db f env l = .ok a) (hb : evalQ db f env r = .ok b) :
    ∃ out, evalQ db (f + 1) env (.join .cross on l r) = .ok out ∧ out.length = a.length * b.length := by
  refine ⟨a.flatMap fun x => b.map fun y => x ++ y, by simp [evalQ, ha, hb, bind, Except.bind, pure, Except.pure], ?_⟩
  clear ha
  induction a with
  | nil => simp
  | cons x xs ih => rw [List.flatMap_cons, List.length_append, ih]; simp [Nat.succ_mul, Nat.add_comm]

/-- ORDER BY returns a permutation of its input (the stable insertion sort of `Sem`). -/
theorem sortBy_perm {α : Type} (cmp : α → α → Ordering) (xs : List α) : (sortBy cmp xs).Perm xs := by
  have hins : ∀ (x : α) (l : List α), (insertBy cmp x l).Perm (x :: l) := by
    intro x l
    induction l with
    | nil => simp [insertBy]
    | cons y ys ih =>
      simp only [insertBy]
      split
      · exact List.Perm.refl _
      · exact (List.Perm.cons y ih).trans (List.Perm.swap x y ys)
  unfold sortBy
  induction xs with
  | nil => simp
  | cons x xs ih => exact (hins x _).trans (List.Perm.cons x ih)

end GlareModel.Props.C01
