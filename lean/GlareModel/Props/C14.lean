import GlareModel.Core.Catalog
import GlareModel.Core.Collection
/-! # C14 — Catalog and table contents equal the sequential effect of DDL/DML

Theorems about `Core/Catalog.lean` (statement step functions) and `Core/Collection.lean`
(append / flush / scan of the shared segment list, the parallel claim protocol). -/
namespace GlareModel.Props.C14
open GlareModel GlareModel.Catalog GlareModel.Collection

/-! ## Parallel scan: every segment index is claimed exactly once (any number of scanners, any schedule) -/

/-- Invariant of the claim protocol: claimed indices together with the scanners' pending `next`
indices are exactly `0 .. counter-1`, each once. -/
theorem claims_perm (n : Nat) (sched : List Nat) :
    let c := sched.foldl claim (Claims.init n)
    (c.log ++ c.next).Perm (List.range c.counter) := by
  suffices h : ∀ (c : Claims), (c.log ++ c.next).Perm (List.range c.counter) →
      ((sched.foldl claim c).log ++ (sched.foldl claim c).next).Perm (List.range (sched.foldl claim c).counter) by
    exact h _ (by simp [Claims.init])
  induction sched with
  | nil => intro c h; simpa using h
  | cons j js ih =>
    intro c h
    apply ih
    unfold claim
    cases hj : c.next[j]? with
    | none => simpa using h
    | some i =>
      simp only
      have hlt : j < c.next.length := by
        rcases List.getElem?_eq_some_iff.mp hj with ⟨hlt, _⟩; exact hlt
      have hi : c.next[j] = i := by
        rcases List.getElem?_eq_some_iff.mp hj with ⟨_, h2⟩; exact h2
      -- next = take j ++ [i] ++ drop (j+1); set j v = take j ++ [v] ++ drop (j+1)
      have hsplit : c.next = c.next.take j ++ i :: c.next.drop (j + 1) := by
        rw [← hi, ← List.drop_eq_getElem_cons hlt, List.take_append_drop]
      have hset : c.next.set j c.counter = c.next.take j ++ c.counter :: c.next.drop (j + 1) := by
        rw [List.set_eq_take_append_cons_drop]; simp [hlt]
      rw [hset, List.range_succ]
      have h' : (c.log ++ (c.next.take j ++ i :: c.next.drop (j + 1))).Perm (List.range c.counter) := by
        rw [← hsplit]; exact h
      -- rearrange: log ++ [i] ++ take ++ counter :: drop  ~  (log ++ take ++ i :: drop) ++ [counter]
      refine List.Perm.trans ?_ (List.Perm.append_right [c.counter] h')
      simp only [List.append_assoc]
      apply List.Perm.append_left
      -- [i] ++ (take ++ counter :: drop) ~ take ++ i :: drop ++ [counter]
      have : ([i] ++ (c.next.take j ++ c.counter :: c.next.drop (j + 1))).Perm
          (c.next.take j ++ (i :: c.next.drop (j + 1) ++ [c.counter])) := by
        simp only [List.singleton_append]
        refine List.Perm.trans (List.perm_middle.symm) ?_
        apply List.Perm.append_left
        refine List.Perm.trans ?_ (List.perm_append_singleton _ _).symm
        exact List.Perm.swap ..
      simpa using this

/-- No index is claimed twice. -/
theorem claims_nodup (n : Nat) (sched : List Nat) :
    (sched.foldl claim (Claims.init n)).log.Nodup := by
  have h := claims_perm n sched
  have hn : (List.range (sched.foldl claim (Claims.init n)).counter).Nodup := List.nodup_range
  have := (h.nodup_iff).mpr hn
  exact (List.nodup_append.mp this).1

/-- When every scanner has stopped (its next index is past the `S` segments of the collection),
every segment index below `S` has been claimed: with `claims_nodup`, each exactly once. -/
theorem claims_complete (n : Nat) (sched : List Nat) (S : Nat) (hn : 0 < n)
    (hstop : ∀ i ∈ (sched.foldl claim (Claims.init n)).next, S ≤ i) :
    ∀ k, k < S → k ∈ (sched.foldl claim (Claims.init n)).log := by
  intro k hk
  have h := claims_perm n sched
  generalize hc : sched.foldl claim (Claims.init n) = c at *
  -- the number of scanners never changes, so `next` is non-empty
  have hlen : ∀ (sched : List Nat) (c0 : Claims), (sched.foldl claim c0).next.length = c0.next.length := by
    intro sched
    induction sched with
    | nil => intro c0; rfl
    | cons j js ih =>
      intro c0
      rw [List.foldl_cons, ih]
      unfold claim
      cases c0.next[j]? <;> simp
  have hne : c.next ≠ [] := by
    have := hlen sched (Claims.init n)
    rw [hc] at this
    intro h0
    rw [h0] at this
    simp [Claims.init] at this
    omega
  obtain ⟨i, hi⟩ := List.exists_mem_of_ne_nil _ hne
  have hiS := hstop i hi
  have hic : i ∈ List.range c.counter := (h.mem_iff).mp (List.mem_append_right _ hi)
  have hkc : k ∈ List.range c.counter := by
    rw [List.mem_range] at hic ⊢; omega
  have hk' : k ∈ c.log ++ c.next := (h.mem_iff).mpr hkc
  rcases List.mem_append.mp hk' with h1 | h2
  · exact h1
  · have := hstop k h2; omega

example : (([0, 1, 0, 0, 1].foldl claim (Claims.init 2)).log) = [0, 1, 2, 4, 3] := by decide

/-! ## Appending keeps every row, in order -/

theorem pushRow_flatten (cap : Nat) (chunks : Segment) (r : Nat) :
    (pushRow cap chunks r).flatten = chunks.flatten ++ [r] := by
  unfold pushRow
  cases h : chunks.getLast? with
  | none =>
    have : chunks = [] := List.getLast?_eq_none_iff.mp h
    simp [this]
  | some last =>
    obtain ⟨ys, hys⟩ := List.getLast?_eq_some_iff.mp h
    subst hys
    simp only [List.dropLast_concat]
    split <;> simp

theorem appendBatch_flatten (cap : Nat) (chunks : Segment) (rows : List Nat) :
    (appendBatch cap chunks rows).flatten = chunks.flatten ++ rows := by
  unfold appendBatch
  have key : ∀ (rows : List Nat) (cs : Segment), (rows.foldl (pushRow cap) cs).flatten = cs.flatten ++ rows := by
    intro rows
    induction rows with
    | nil => intro cs; simp
    | cons r rs ih => intro cs; rw [List.foldl_cons, ih, pushRow_flatten]; simp
  rw [key]
  split <;> simp_all

/-! ## Snapshot scans: segments published after the scan state was created are never read -/

/-- Appends and flushes only add segments at the end: the first `L` segments never change. -/
theorem prefix_stable (s : St) (op : Op) (L : Nat) (hL : L ≤ s.segments.length) :
    (Collection.step s op).1.segments.take L = s.segments.take L := by
  have hflush : ∀ (s : St) (i : Nat), L ≤ s.segments.length → (flushApp s i).segments.take L = s.segments.take L := by
    intro s i hL
    unfold flushApp
    split
    · rfl
    · split
      · rfl
      · simp [List.take_append_of_le_length hL]
  cases op with
  | append i rows =>
    simp only [Collection.step, appendOp]
    split
    · rfl
    · split
      · rw [hflush _ _ (by simpa using hL)]
      · rfl
  | flush i => exact hflush s i hL
  | scan j =>
    simp only [Collection.step, scanOp]
    split <;> rfl
  | mkSeq n snap => rfl
  | mkPar n snap => rfl

/-- What one `scan` call of a scan state with snapshot bound `L` can return: nothing, or a chunk
of one of the first `L` segments — provided the segment it is currently reading is below the
bound (`curOk`), which `scanLoop` itself maintains. -/
def curOk (L : Nat) (sc : ScanSt) : Prop := ∀ k, sc.cur = some k → k < L

theorem scanLoop_snapshot (segments : List Segment) (L : Nat) (fuel : Nat) (counter : Nat) (sc : ScanSt)
    (hlim : sc.limit = some L) (hcur : curOk L sc) :
    let r := scanLoop segments counter fuel sc
    r.1.limit = some L ∧ curOk L r.1 ∧
      (r.2.2 = [] ∨ ∃ k, k < L ∧ r.2.2 ∈ segments.getD k []) := by
  induction fuel generalizing counter sc with
  | zero => simp [scanLoop, hlim, hcur]
  | succ fuel ih =>
    unfold scanLoop
    cases hc : sc.cur with
    | none =>
      simp only [hlim]
      cases hseg : segments[sc.nextIdx]? with
      | none => simp [hlim, hcur]
      | some seg =>
        simp only
        by_cases hv : sc.nextIdx < L
        · simp only [hv, decide_true, if_true]
          apply ih
          · simpa using hlim
          · intro k hk
            simp at hk
            omega
        · simp [hv, hlim, hcur]
    | some k =>
      simp only
      have hk : k < L := hcur k hc
      cases hch : (segments.getD k [])[sc.chunkIdx]? with
      | some c =>
        refine ⟨by simpa using hlim, ?_, Or.inr ⟨k, hk, ?_⟩⟩
        · intro k' hk'
          simp only at hk'
          have : k = k' := by simpa using hk'
          exact this ▸ hk
        · exact List.mem_of_getElem? hch
      | none =>
        apply ih
        · simpa using hlim
        · intro k' hk'
          simp at hk'

/-- A scan state created with a snapshot bound reads only rows that were published before it was
created, whatever appends/flushes/other scans happen in between: the rows it returns come from
the first `L` segments, and those never change (`prefix_stable`). This is the model-level content
of "INSERT ... SELECT reads the table as it was when the statement started". -/
theorem snapshot_scan_reads_prefix (s : St) (j : Nat) (sc : ScanSt) (L : Nat)
    (hj : s.scans[j]? = some sc) (hlim : sc.limit = some L) (hcur : curOk L sc) :
    (scanOp s j).2 = [] ∨ ∃ k, k < L ∧ (scanOp s j).2 ∈ s.segments.getD k [] := by
  unfold scanOp
  rw [hj]
  exact (scanLoop_snapshot s.segments L _ s.counter sc hlim hcur).2.2

/-- Without the bound the property fails (the behaviour of the pinned commit before the `fix:`
commit): a scan that appends what it reads — `INSERT INTO t SELECT * FROM t` — reads its own
append once the appender flushes (segment size 1 here; 16 chunks x 2048 rows in the engine). -/
theorem live_scan_reads_own_append :
    run { segSize := 1, chunkCap := 1, segments := [[[7]]], apps := [[]] }
      [.mkSeq 1 false, .scan 0, .append 0 [7], .scan 0, .append 0 [7], .scan 0]
      = [[], [7], [], [7], [], [7]] := by decide

/-- With the bound the same interleaving stops after the snapshot. -/
theorem snapshot_scan_stops :
    run { segSize := 1, chunkCap := 1, segments := [[[7]]], apps := [[]] }
      [.mkSeq 1 true, .scan 0, .append 0 [7], .scan 0, .append 0 [7], .scan 0]
      = [[], [7], [], [], [], []] := by decide

/-! ## Catalog: sequential effect of statements -/

/-- **A statement that fails changes nothing** (specification step): catalog, table contents and
settings after an error are the state before the statement. -/
theorem spec_failed_stmt_changes_nothing (t : Int) (s : Sess) (st : Stmt) (b : Bool)
    (h : (Catalog.step t s st).2 = .err b) : (Catalog.step t s st).1 = s := by
  cases st <;> simp only [Catalog.step] at h ⊢ <;> (repeat' split at h) <;> simp_all

/-- The code-shaped step agrees with the specification on every statement except
`CREATE TABLE AS`. -/
theorem impl_eq_spec_unless_ctas (t : Int) (s : Sess) (st : Stmt)
    (h : ∀ sn n ine w q refs, st ≠ .ctas sn n ine w q refs) : stepImpl t s st = Catalog.step t s st := by
  cases st <;> first | rfl | (exact absurd rfl (h _ _ _ _ _ _))

/-- ... and for `CREATE TABLE AS` the only difference is the table left behind by a run-time
failure of the query: the catalog gains the empty table although the statement reports an error
(the behaviour observed on the pinned commit; known finding). -/
theorem impl_ctas_runtime_failure_leaves_table (t : Int) (s : Sess) (sn n : String) (ine : Bool) (w : Nat)
    (q : Sem.Query) (refs : List String) (sc : Schema) (e : Sem.Err)
    (hs : findSchema s sn = some sc) (hn : sc.find n = none)
    (hq : evalOn s q refs = .error e) (he : isRuntime e = true) :
    stepImpl t s (.ctas sn n ine w q refs) = (addObj s sn n (.table w []), .err true) := by
  simp [stepImpl, hs, hn, hq, he]

def failingQuery : Sem.Query :=
  .agg [] [.mk .sum false (.col 0) none] (.values [[.lit (.int 9223372036854775807)], [.lit (.int 9223372036854775807)]])

/-- The full property is false of the code-shaped step: a failing statement changes the catalog
(witness replayed on the engine by the check's probe; known finding). The specification step on
the same input leaves nothing behind. -/
theorem impl_failed_ctas_changes_catalog :
    ((stepImpl 4 Sess.init (.ctas "temp" "c" false 1 failingQuery [])).2 matches .err true) = true ∧
    (lookup (stepImpl 4 Sess.init (.ctas "temp" "c" false 1 failingQuery [])).1 "temp" "c").isSome = true ∧
    (lookup (Catalog.step 4 Sess.init (.ctas "temp" "c" false 1 failingQuery [])).1 "temp" "c").isSome = false := by
  decide

/-- Statements that only read never change the state. -/
theorem reads_are_pure (t : Int) (s : Sess) (q : Sem.Query) (v : String) :
    (Catalog.step t s (.select q [])).1 = s ∧ (Catalog.step t s (.showVar v)).1 = s ∧ (Catalog.step t s .listObjs).1 = s := by
  refine ⟨?_, ?_, rfl⟩
  · simp only [Catalog.step]; split <;> rfl
  · simp only [Catalog.step]; split <;> rfl

/-- Temporary objects and settings of one session are invisible to the others: a statement run on
session `i` leaves every other session's state untouched. -/
theorem other_sessions_untouched (impl : Bool) (t : Int) (ss : List Sess) (i j : Nat) (st : Stmt) (hij : i ≠ j) :
    (stepAt impl t ss i st).1[j]? = ss[j]? := by
  unfold stepAt
  split
  · rfl
  · simp [List.getElem?_set_ne hij]

/-- `IF NOT EXISTS` on an existing name is a no-op that succeeds. -/
theorem create_table_if_not_exists_idempotent (t : Int) (s : Sess) (sn n : String) (w : Nat) (sc : Schema) (o : Obj)
    (hs : findSchema s sn = some sc) (hn : sc.find n = some o) :
    Catalog.step t s (.createTable sn n true w) = (s, .ok) := by
  simp [Catalog.step, hs, hn]

/-- After a successful DROP the name no longer resolves (until it is created again). -/
theorem drop_then_lookup_none (s : Sess) (sn n : String) : lookup (removeObj s sn n) sn n = none := by
  unfold lookup findSchema removeObj updSchema
  simp only [List.find?_map]
  have hp : ((fun (x : Schema) => x.name == sn) ∘ fun (sc : Schema) =>
      if sc.name == sn then { sc with objs := sc.objs.filter (·.1 != n) } else sc) = fun x => x.name == sn := by
    funext sc
    simp only [Function.comp]
    split <;> rfl
  rw [hp]
  cases h : s.schemas.find? (fun x => x.name == sn) with
  | none => rfl
  | some sc =>
    have hname : (sc.name == sn) = true := by simpa using List.find?_some h
    simp only [Option.map_some, Option.bind_some, hname, if_true, Schema.find]
    have : (sc.objs.filter (·.1 != n)).find? (·.1 == n) = none := by
      rw [List.find?_eq_none]
      intro p hp
      have := (List.mem_filter.mp hp).2
      simp_all
    simp [this]

theorem drop_existing_succeeds (t : Int) (s : Sess) (sn n : String) (o : Obj) (ie : Bool) (h : lookup s sn n = some o) :
    Catalog.step t s (.dropObj sn n ie) = (removeObj s sn n, .ok) := by
  have hs : ∃ sc, findSchema s sn = some sc := by
    unfold lookup at h
    cases hf : findSchema s sn with
    | none => simp [hf] at h
    | some sc => exact ⟨sc, rfl⟩
  obtain ⟨sc, hsc⟩ := hs
  simp [Catalog.step, h, hsc]

/-- An INSERT evaluates its source on the state *before* the statement and appends exactly those
rows to the target; the reported count is their number. -/
theorem insert_reads_prestate (t : Int) (s : Sess) (sn n : String) (q : Sem.Query) (refs : List String) (w : Nat) (old new : List Sem.Row)
    (ht : lookup s sn n = some (.table w old)) (hq : evalOn s q refs = .ok new) :
    Catalog.step t s (.insert sn n q refs) = (setRows s sn n (old ++ new), .count new.length) := by
  simp [Catalog.step, ht, hq]

/-- SET followed by RESET restores the default. -/
theorem set_reset_roundtrip (t : Int) (s s1 s2 : Sess) (v : String) (b : Bool) (x : Int)
    (h1 : setVar t s v b x = some s1) (h2 : resetVar t s1 v = some s2) :
    getVar t s2 v = ((settings t).find? (·.name == v)).map fun st => (st.isBool, st.dflt) := by
  unfold setVar at h1
  unfold resetVar at h2
  unfold getVar
  cases hst : (settings t).find? (·.name == v) with
  | none => simp [hst] at h1
  | some st =>
    simp only [hst] at h1 h2 ⊢
    cases h2
    have : ((s1.vars.filter fun p => p.1 != v).find? fun p => p.1 == v) = none := by
      rw [List.find?_eq_none]
      intro p hp
      have := (List.mem_filter.mp hp).2
      simp_all
    simp [this]

/-- A SET outside the allowed range is rejected and (by `spec_failed_stmt_changes_nothing`)
changes nothing. -/
theorem set_out_of_range_rejected (t : Int) (s : Sess) :
    (Catalog.step t s (.setVar "partitions" false 0)).2 = .err false ∧
    (Catalog.step t s (.setVar "batch_size" false 8193)).2 = .err false := by
  constructor <;> simp [Catalog.step, setVar, settings, List.find?]

end GlareModel.Props.C14
