import GlareModel.Core.Layout
import GlareModel.Props.C04
/-! # C16 — No query makes the engine's unsafe code touch memory it does not own (partial)

What a Lean model can carry: every offset the row code computes is in bounds and every aggregate
state is placed at an aligned offset, for every column list / state list; and (from C04) the phase
barrier that the `// SAFETY` comments of the hash join rely on. Nothing here is about Rust's
memory model itself. -/
namespace GlareModel.Props.C16
open GlareModel GlareModel.Layout

/-! ## Row layout -/

theorem offsetsFrom_length (s : Nat) (ws : List Nat) : (offsetsFrom s ws).length = ws.length := by
  induction ws generalizing s with
  | nil => rfl
  | cons w ws ih => simp [offsetsFrom, ih]

/-- Column `i` lies inside `[start, start + total width)`: its offset plus its width never passes
the end of the row. -/
theorem offsetsFrom_field_in_row (s : Nat) (ws : List Nat) (i : Nat) (hi : i < ws.length) :
    s ≤ (offsetsFrom s ws).getD i 0 ∧ (offsetsFrom s ws).getD i 0 + ws.getD i 0 ≤ s + ws.sum := by
  induction ws generalizing s i with
  | nil => simp at hi
  | cons w ws ih =>
    cases i with
    | zero => simp [offsetsFrom]
    | succ i =>
      have := ih (s + w) i (by simpa using hi)
      simp only [offsetsFrom, List.getD_cons_succ, List.sum_cons]
      omega

/-- **Every field is inside its row**: for every column list and every column index, the bytes
`[offset, offset + width)` lie after the validity bitmap and before `row_width`. -/
theorem field_in_row (ws : List Nat) (i : Nat) (hi : i < ws.length) :
    (rowLayout ws).validityWidth ≤ (rowLayout ws).offsets.getD i 0 ∧
    (rowLayout ws).offsets.getD i 0 + ws.getD i 0 ≤ (rowLayout ws).rowWidth := by
  simpa [rowLayout] using offsetsFrom_field_in_row (bitmapBytes ws.length) ws i hi

/-- **Every cell is inside the buffer**: `byte_offset(row, col) + width ≤ buffer_size(rows)` for
every `row < rows`. -/
theorem cell_in_buffer (ws : List Nat) (rows row i : Nat) (hr : row < rows) (hi : i < ws.length) :
    byteOffset (rowLayout ws) row i + ws.getD i 0 ≤ (rowLayout ws).rowWidth * rows := by
  have h := (field_in_row ws i hi).2
  unfold byteOffset
  have : (rowLayout ws).rowWidth * row + (rowLayout ws).rowWidth ≤ (rowLayout ws).rowWidth * rows := by
    rw [← Nat.mul_succ]; exact Nat.mul_le_mul_left _ hr
  omega

/-- Consecutive fields do not overlap. -/
theorem offsetsFrom_disjoint (s : Nat) (ws : List Nat) (i : Nat) (hi : i + 1 < ws.length) :
    (offsetsFrom s ws).getD i 0 + ws.getD i 0 = (offsetsFrom s ws).getD (i + 1) 0 := by
  induction ws generalizing s i with
  | nil => simp at hi
  | cons w ws ih =>
    cases i with
    | zero =>
      cases ws with
      | nil => simp at hi
      | cons w2 ws2 => simp [offsetsFrom]
    | succ i =>
      have := ih (s + w) i (by simpa using hi)
      simpa [offsetsFrom] using this

/-- The validity bit of every column fits in the validity bytes. -/
theorem validity_bit_fits (n i : Nat) (hi : i < n) : i / 8 < bitmapBytes n := by
  unfold bitmapBytes; omega

/-! ## Aggregate layout -/

theorem alignLen_ge (len a : Nat) (ha : 0 < a) : len ≤ alignLen len a := by
  unfold alignLen
  have h := Nat.div_add_mod (len + a - 1) a
  have hm := Nat.mod_lt (len + a - 1) ha
  have : a * ((len + a - 1) / a) = (len + a - 1) / a * a := Nat.mul_comm _ _
  omega

theorem alignLen_mod (len a : Nat) : alignLen len a % a = 0 := by
  unfold alignLen; exact Nat.mul_mod_left _ _

/-- Every aggregate state starts at a multiple of the base alignment, states do not overlap, and
the end offset is not before the last state's end. -/
theorem aggOffsets_spec (base : Nat) (hb : 0 < base) (off : Nat) (hoff : off % base = 0) (states : List (Nat × Nat)) :
    (∀ o ∈ (aggOffsets base off states).1, o % base = 0) ∧
    off ≤ (aggOffsets base off states).2 ∧
    (aggOffsets base off states).1.length = states.length := by
  induction states generalizing off with
  | nil => simp [aggOffsets]
  | cons st rest ih =>
    obtain ⟨size, al⟩ := st
    have h := ih (alignLen (off + size) base) (alignLen_mod _ _)
    have hge := alignLen_ge (off + size) base hb
    simp only [aggOffsets]
    refine ⟨?_, ?_, ?_⟩
    · intro o ho
      rcases List.mem_cons.mp ho with h1 | h2
      · subst h1; exact hoff
      · exact h.1 o h2
    · omega
    · simp [h.2.2]

/-- A state of `size` bytes at position `k` ends before the next state begins (or before the end). -/
theorem aggOffsets_disjoint (base : Nat) (hb : 0 < base) (off : Nat) (states : List (Nat × Nat)) (k : Nat)
    (hk : k < states.length) :
    (aggOffsets base off states).1.getD k 0 + (states.getD k (0, 1)).1 ≤
      ((aggOffsets base off states).1.getD (k + 1) ((aggOffsets base off states).2)) := by
  induction states generalizing off k with
  | nil => simp at hk
  | cons st rest ih =>
    obtain ⟨size, al⟩ := st
    cases k with
    | zero =>
      have hge := alignLen_ge (off + size) base hb
      cases rest with
      | nil => simp [aggOffsets]; omega
      | cons r2 rs => simp [aggOffsets]; omega
    | succ k =>
      have := ih (alignLen (off + size) base) k (by simpa using hk)
      simpa [aggOffsets] using this

theorem foldl_max_ge (l : List Nat) (init : Nat) : init ≤ l.foldl max init ∧ ∀ x ∈ l, x ≤ l.foldl max init := by
  induction l generalizing init with
  | nil => simp
  | cons a as ih =>
    have h := ih (max init a)
    simp only [List.foldl_cons]
    refine ⟨by omega, ?_⟩
    intro x hx
    rcases List.mem_cons.mp hx with h1 | h2
    · subst h1; omega
    · exact h.2 x h2

theorem getD_mem {α : Type} (l : List α) (k : Nat) (d : α) (h : k < l.length) : l.getD k d ∈ l := by
  induction l generalizing k with
  | nil => simp at h
  | cons a as ih =>
    cases k with
    | zero => simp
    | succ k => simpa using Or.inr (ih k (by simpa using h))

/-- **Aggregate states are placed at aligned offsets**: for every list of state descriptors whose
alignments are powers of two (so each divides the maximum), every state offset is a multiple of
that state's own alignment, and the row width is a multiple of the base alignment - so with an
aligned buffer every state of every row is aligned. -/
theorem agg_states_aligned (groupsWidth : Nat) (states : List (Nat × Nat))
    (hdiv : ∀ s ∈ states, s.2 ∣ (aggLayout groupsWidth states).baseAlign) :
    (∀ k, k < states.length → (aggLayout groupsWidth states).offsets.getD k 0 % (states.getD k (0, 1)).2 = 0) ∧
    (aggLayout groupsWidth states).rowWidth % (aggLayout groupsWidth states).baseAlign = 0 := by
  have hbase : 0 < (states.map (·.2)).foldl max 1 := by
    have := (foldl_max_ge (states.map (·.2)) 1).1; omega
  refine ⟨?_, ?_⟩
  · intro k hk
    have hspec := aggOffsets_spec _ hbase (alignLen groupsWidth ((states.map (·.2)).foldl max 1)) (alignLen_mod _ _) states
    have hlen : k < (aggLayout groupsWidth states).offsets.length := by
      simp only [aggLayout]; rw [hspec.2.2]; exact hk
    have hmem : (aggLayout groupsWidth states).offsets.getD k 0 ∈ (aggLayout groupsWidth states).offsets :=
      getD_mem _ k 0 hlen
    have hmod := hspec.1 _ hmem
    have hs : states.getD k (0, 1) ∈ states := getD_mem _ k (0, 1) hk
    have hd := hdiv _ hs
    simp only [aggLayout] at hd hmod ⊢
    exact Nat.mod_eq_zero_of_dvd (Nat.dvd_trans hd (Nat.dvd_of_mod_eq_zero hmod))
  · simp only [aggLayout]; exact alignLen_mod _ _

example : (rowLayout [8, 4, 16, 1]).offsets = [1, 9, 13, 29] ∧ (rowLayout [8, 4, 16, 1]).rowWidth = 30 := by decide
example : (aggLayout 9 [(8, 8), (24, 16), (1, 1)]).offsets = [16, 32, 64] ∧ (aggLayout 9 [(8, 8), (24, 16), (1, 1)]).rowWidth = 80 := by decide

/-! ## Phase exclusion (from C04) -/

/-- The barrier that separates build / probe / drain of the hash join never lets a partition pass
before every partition has arrived: the flag implies that the countdown reached zero. -/
theorem phase_gate (n : Nat) (acts : List Proto.BAct) :
    (Proto.brun (Proto.Barrier.init n) acts).flag = true → (Proto.brun (Proto.Barrier.init n) acts).remaining = 0 :=
  (C04.barrier_inv_reachable n acts).flag_zero

end GlareModel.Props.C16
