import GlareModel.Core.Sem
/-! # C06 — Joins return exactly the defined pairs and unmatched rows

Abstract model of the two join algorithms over arbitrary row types: the nested-loop join is the
definition; the hash join partitions the build side by an *arbitrary* hash function and probes
only the bucket of the probe key. A NULL key is `none` and matches nothing. -/
namespace GlareModel.Props.C06

variable {L R K : Type} [DecidableEq K]

def keyMatch (a b : Option K) : Bool :=
  match a, b with
  | some x, some y => x == y
  | _, _ => false

/-- Definition: all pairs whose keys are both non-NULL and equal, in probe-major order. -/
def nlJoin (kl : L → Option K) (kr : R → Option K) (ls : List L) (rs : List R) : List (L × R) :=
  ls.flatMap fun l => (rs.filter fun r => keyMatch (kl l) (kr r)).map fun r => (l, r)

/-- Bucket of the build side for a hash value (chain order = build order). -/
def bucket (h : K → Nat) (kr : R → Option K) (rs : List R) (hv : Nat) : List R :=
  rs.filter fun r => match kr r with
    | some k => h k == hv
    | none => false

/-- Hash join: a probe row with a NULL key matches nothing; otherwise only its bucket is compared. -/
def hashJoin (h : K → Nat) (kl : L → Option K) (kr : R → Option K) (ls : List L) (rs : List R) : List (L × R) :=
  ls.flatMap fun l =>
    match kl l with
    | none => []
    | some k => ((bucket h kr rs (h k)).filter fun r => keyMatch (some k) (kr r)).map fun r => (l, r)

/-- **The hash join equals the nested-loop join for every hash function** (collisions, constant
hashes, NULL keys, duplicates, empty sides included). -/
theorem hash_eq_nl (h : K → Nat) (kl : L → Option K) (kr : R → Option K) (ls : List L) (rs : List R) :
    hashJoin h kl kr ls rs = nlJoin kl kr ls rs := by
  unfold hashJoin nlJoin
  congr 1
  funext l
  cases hk : kl l with
  | none => simp [keyMatch]
  | some k =>
    simp only [bucket, List.filter_filter]
    congr 1
    apply List.filter_congr
    intro r _
    cases hr : kr r with
    | none => simp [keyMatch]
    | some k' =>
      simp only [keyMatch]
      by_cases e : k = k'
      · subst e; simp
      · simp [e]

/-- A NULL key on either side never produces a pair. -/
theorem null_key_matches_nothing (kl : L → Option K) (kr : R → Option K) (ls : List L) (rs : List R)
    (p : L × R) (hp : p ∈ nlJoin kl kr ls rs) : kl p.1 ≠ none ∧ kr p.2 ≠ none := by
  simp only [nlJoin, List.mem_flatMap, List.mem_map, List.mem_filter] at hp
  obtain ⟨l, _, r, ⟨_, hm⟩, rfl⟩ := hp
  simp only [keyMatch] at hm
  split at hm <;> simp_all

/-- LEFT join: matched pairs, and each unmatched probe row exactly once with a NULL partner. -/
def leftJoin (kl : L → Option K) (kr : R → Option K) (ls : List L) (rs : List R) : List (L × Option R) :=
  ls.flatMap fun l =>
    let m := rs.filter fun r => keyMatch (kl l) (kr r)
    if m.isEmpty then [(l, none)] else m.map fun r => (l, some r)

/-- Every probe row appears in a LEFT join; unmatched ones exactly once. -/
theorem left_join_preserves (kl : L → Option K) (kr : R → Option K) (ls : List L) (rs : List R) :
    (leftJoin kl kr ls rs).length = (nlJoin kl kr ls rs).length +
      (ls.filter fun l => (rs.filter fun r => keyMatch (kl l) (kr r)).isEmpty).length := by
  induction ls with
  | nil => simp [leftJoin, nlJoin]
  | cons l ls ih =>
    simp only [leftJoin, nlJoin, List.flatMap_cons, List.length_append, List.filter_cons] at ih ⊢
    by_cases he : (rs.filter fun r => keyMatch (kl l) (kr r)).isEmpty
    · simp only [he, if_true, List.length_cons, List.length_nil]
      have : (rs.filter fun r => keyMatch (kl l) (kr r)) = [] := List.isEmpty_iff.mp he
      simp only [this, List.map_nil, List.length_nil]
      omega
    · simp only [he, if_false, List.length_map, Bool.false_eq_true]
      omega

example : hashJoin (fun _ : Nat => 0) (fun l : Nat × Nat => if l.1 = 0 then none else some l.1) (fun r : Nat => some r)
    [(1, 10), (0, 11), (2, 12), (1, 13)] [1, 2, 1] = [((1, 10), 1), ((1, 10), 1), ((2, 12), 2), ((1, 13), 1), ((1, 13), 1)] := by decide

end GlareModel.Props.C06
