import GlareModel.Core.Sem
import GlareModel.Core.Drain
import GlareModel.Props.C11
/-! # C06 — Joins return exactly the defined pairs and unmatched rows

Abstract model of the two join algorithms over arbitrary row types: the nested-loop join is the
definition; the hash join partitions the build side by an *arbitrary* hash function and probes
only the bucket of the probe key. A NULL key is `none` and matches nothing. -/
namespace GlareModel.Props.C06

variable {L R K : Type} [DecidableEq K]

def keyMatch (a b : Option K) : Bool :=
  match a, b with
  | some x, some y => x == y
  | _, _ => false

/-- Definition: all pairs whose keys are both non-NULL and equal, in probe-major order. -/
def nlJoin (kl : L → Option K) (kr : R → Option K) (ls : List L) (rs : List R) : List (L × R) :=
  ls.flatMap fun l => (rs.filter fun r => keyMatch (kl l) (kr r)).map fun r => (l, r)

/-- Bucket of the build side for a hash value (chain order = build order). -/
def bucket (h : K → Nat) (kr : R → Option K) (rs : List R) (hv : Nat) : List R :=
  rs.filter fun r => match kr r with
    | some k => h k == hv
    | none => false

/-- Hash join: a probe row with a NULL key matches nothing; otherwise only its bucket is compared. -/
def hashJoin (h : K → Nat) (kl : L → Option K) (kr : R → Option K) (ls : List L) (rs : List R) : List (L × R) :=
  ls.flatMap fun l =>
    match kl l with
    | none => []
    | some k => ((bucket h kr rs (h k)).filter fun r => keyMatch (some k) (kr r)).map fun r => (l, r)

/-- **The hash join equals the nested-loop join for every hash function** (collisions, constant
hashes, NULL keys, duplicates, empty sides included). -/
theorem hash_eq_nl (h : K → Nat) (kl : L → Option K) (kr : R → Option K) (ls : List L) (rs : List R) :
    hashJoin h kl kr ls rs = nlJoin kl kr ls rs := by
  unfold hashJoin nlJoin
  congr 1
  funext l
  cases hk : kl l with
  | none => simp [keyMatch]
  | some k =>
    simp only [bucket, List.filter_filter]
    congr 1
    apply List.filter_congr
    intro r _
    cases hr : kr r with
    | none => simp [keyMatch]
    | some k' =>
      simp only [keyMatch]
      by_cases e : k = k'
      · subst e; simp
      · simp [e]

/-- A NULL key on either side never produces a pair. -/
theorem null_key_matches_nothing (kl : L → Option K) (kr : R → Option K) (ls : List L) (rs : List R)
    (p : L × R) (hp : p ∈ nlJoin kl kr ls rs) : kl p.1 ≠ none ∧ kr p.2 ≠ none := by
  simp only [nlJoin, List.mem_flatMap, List.mem_map, List.mem_filter] at hp
  obtain ⟨l, _, r, ⟨_, hm⟩, rfl⟩ := hp
  simp only [keyMatch] at hm
  split at hm <;> simp_all

/-- LEFT join: matched pairs, and each unmatched probe row exactly once with a NULL partner. -/
def leftJoin (kl : L → Option K) (kr : R → Option K) (ls : List L) (rs : List R) : List (L × Option R) :=
  ls.flatMap fun l =>
    let m := rs.filter fun r => keyMatch (kl l) (kr r)
    if m.isEmpty then [(l, none)] else m.map fun r => (l, some r)

/-- Every probe row appears in a LEFT join; unmatched ones exactly once. -/
theorem left_join_preserves (kl : L → Option K) (kr : R → Option K) (ls : List L) (rs : List R) :
    (leftJoin kl kr ls rs).length = (nlJoin kl kr ls rs).length +
      (ls.filter fun l => (rs.filter fun r => keyMatch (kl l) (kr r)).isEmpty).length := by
  induction ls with
  | nil => simp [leftJoin, nlJoin]
  | cons l ls ih =>
    simp only [leftJoin, nlJoin, List.flatMap_cons, List.length_append, List.filter_cons] at ih ⊢
    by_cases he : (rs.filter fun r => keyMatch (kl l) (kr r)).isEmpty
    · simp only [he, if_true, List.length_cons, List.length_nil]
      have : (rs.filter fun r => keyMatch (kl l) (kr r)) = [] := List.isEmpty_iff.mp he
      simp only [this, List.map_nil, List.length_nil]
      omega
    · simp only [he, if_false, List.length_map, Bool.false_eq_true]
      omega

example : hashJoin (fun _ : Nat => 0) (fun l : Nat × Nat => if l.1 = 0 then none else some l.1) (fun r : Nat => some r)
    [(1, 10), (0, 11), (2, 12), (1, 13)] [1, 2, 1] = [((1, 10), 1), ((1, 10), 1), ((2, 12), 2), ((1, 13), 1), ((1, 13), 1)] := by decide

end GlareModel.Props.C06

/-! ## Draining the build side: every kept row exactly once (Core/Drain.lean) -/

namespace GlareModel.Props.C06
open GlareModel.Scan GlareModel.Drain
universe u
variable {α : Type u}

/-- The rows a drain keeps, in order. -/
def kept (keep : Bool → Bool) (l : List (Row α)) : List α := (l.filter fun r => keep r.2).map (·.1)

theorem kept_append (keep : Bool → Bool) (a b : List (Row α)) : kept keep (a ++ b) = kept keep a ++ kept keep b := by
  simp [kept]

/-- What one pass over (the rest of) a block does. -/
theorem scanBlock_spec (keep : Bool → Bool) (rows : List (Row α)) (i need : Nat) (hn : 0 < need) :
    match scanBlock keep rows i need with
    | (got, none) => got = kept keep rows ∧ got.length < need
    | (got, some next) => ∃ j, j ≤ rows.length ∧ next = i + j ∧ got = kept keep (rows.take j) ∧ got.length = need := by
  induction rows generalizing i need with
  | nil => simp [scanBlock, kept, hn]
  | cons r rest ih =>
    obtain ⟨v, m⟩ := r
    simp only [scanBlock]
    by_cases hk : keep m = true
    · simp only [hk, if_true]
      by_cases h1 : need = 1
      · simp only [h1, if_true]
        exact ⟨1, by simp, rfl, by simp [kept, hk], rfl⟩
      · simp only [h1, if_false]
        have := ih (i + 1) (need - 1) (by omega)
        revert this
        cases hsb : scanBlock keep rest (i + 1) (need - 1) with
        | mk got nx =>
          cases nx with
          | none =>
            intro h
            simp only at h ⊢
            exact ⟨by simp [kept, hk, h.1, List.filter_cons], by simp; omega⟩
          | some next =>
            intro h
            simp only at h ⊢
            obtain ⟨j, hj, hnext, hgot, hlen⟩ := h
            exact ⟨j + 1, by simp; omega, by omega, by simp [kept, hk, hgot, List.filter_cons], by simp; omega⟩
    · have hk' : keep m = false := by simpa using hk
      simp only [hk', Bool.false_eq_true, if_false]
      have := ih (i + 1) need hn
      revert this
      cases hsb : scanBlock keep rest (i + 1) need with
      | mk got nx =>
        cases nx with
        | none =>
          intro h
          simp only at h ⊢
          exact ⟨by simp [kept, hk', h.1, List.filter_cons], h.2⟩
        | some next =>
          intro h
          simp only at h ⊢
          obtain ⟨j, hj, hnext, hgot, hlen⟩ := h
          exact ⟨j + 1, by simp; omega, by omega, by simp [kept, hk', hgot, List.filter_cons], hlen⟩

/-- Unfolding `step_by` on a dropped list by index: the element at `k` (if any), then the stride from `k + P`. -/
theorem stepBy_drop (P : Nat) (hP : 0 < P) (xs : List α) (k : Nat) :
    stepBy P (xs.drop k) = match xs[k]? with
      | none => []
      | some x => x :: stepBy P (xs.drop (k + P)) := by
  cases h : xs[k]? with
  | none =>
    have : xs.length ≤ k := by simpa using h
    simp [List.drop_eq_nil_of_le this, stepBy]
  | some x =>
    have hk : k < xs.length := by
      rcases List.getElem?_eq_some_iff.mp h with ⟨hk, _⟩; exact hk
    have hx : xs[k] = x := by
      rcases List.getElem?_eq_some_iff.mp h with ⟨_, hx⟩; exact hx
    rw [List.drop_eq_getElem_cons hk, stepBy, hx]
    have e : k + 1 + (P - 1) = k + P := by omega
    rw [List.drop_drop, e]

/-- The rows partition `p` still has to look at from cursor `c`: the rest of the current block, then
every `P`-th block after it. -/
def remaining (blocks : List (List (Row α))) (P : Nat) (c : Cursor) : List (Row α) :=
  ((blocks[c.block]?).getD []).drop c.row ++ (stepBy P (blocks.drop (c.block + P))).flatten

theorem remaining_start (blocks : List (List (Row α))) (P : Nat) (hP : 0 < P) (b : Nat) :
    remaining blocks P { block := b, row := 0 } = (stepBy P (blocks.drop b)).flatten := by
  unfold remaining
  rw [stepBy_drop P hP blocks b]
  cases h : blocks[b]? with
  | none =>
    have hl : blocks.length ≤ b := by simpa using h
    simp [List.drop_eq_nil_of_le (show blocks.length ≤ b + P by omega), stepBy]
  | some x => simp

theorem remaining_nil_of_le (blocks : List (List (Row α))) (P : Nat) (c : Cursor) (h : blocks.length ≤ c.block) :
    remaining blocks P c = [] := by
  unfold remaining
  have hb : blocks[c.block]? = none := by simpa using h
  simp [hb, List.drop_eq_nil_of_le (show blocks.length ≤ c.block + P by omega), stepBy]

/-- One `load_row_ptrs` call (with enough fuel to walk over the remaining blocks): the rows it pushes
followed by what the new cursor still has to yield are exactly what the old cursor had to yield; and
the batch is full, or the partition is exhausted. -/
theorem loadRows_spec (keep : Bool → Bool) (blocks : List (List (Row α))) (P : Nat) (hP : 0 < P)
    (fuel : Nat) (c : Cursor) (need : Nat) (hn : 0 < need) (hf : blocks.length < c.block + fuel * P) :
    let r := loadRows keep blocks P fuel c need
    r.1 ++ kept keep (remaining blocks P r.2) = kept keep (remaining blocks P c) ∧
      (r.1.length = need ∨ (r.1.length < need ∧ kept keep (remaining blocks P r.2) = [])) := by
  induction fuel generalizing c need with
  | zero =>
    have hrem := remaining_nil_of_le blocks P c (by simp at hf; omega)
    simp [loadRows, hrem, kept, hn]
  | succ fuel ih =>
    simp only [loadRows]
    cases hb : blocks[c.block]? with
    | none =>
      have hl : blocks.length ≤ c.block := by simpa using hb
      have hrem := remaining_nil_of_le blocks P c hl
      simp [hrem, kept, hn]
    | some b =>
      simp only
      have hspec := scanBlock_spec keep (b.drop c.row) c.row need hn
      revert hspec
      cases hsb : scanBlock keep (b.drop c.row) c.row need with
      | mk got nx =>
        cases nx with
        | some next =>
          intro h
          obtain ⟨j, hj, hnext, hgot, hlen⟩ := h
          simp only
          refine ⟨?_, Or.inl hlen⟩
          unfold remaining
          simp only [hb, Option.getD_some, kept_append]
          rw [← List.append_assoc]
          congr 1
          rw [hgot, hnext, ← kept_append]
          congr 1
          rw [← List.drop_drop, List.take_append_drop]
        | none =>
          intro h
          obtain ⟨hgot, hlt⟩ := h
          simp only
          by_cases hfuel : blocks.length < (c.block + P) + fuel * P
          · have := ih { block := c.block + P, row := 0 } (need - got.length) (by omega) hfuel
            simp only at this
            obtain ⟨h1, h2⟩ := this
            refine ⟨?_, ?_⟩
            · rw [List.append_assoc, h1]
              rw [remaining_start blocks P hP (c.block + P)]
              unfold remaining
              simp only [hb, Option.getD_some, kept_append, hgot]
            · rcases h2 with h2 | h2
              · left; simp only [List.length_append]; omega
              · right; refine ⟨by simp only [List.length_append]; omega, h2.2⟩
          · -- out of fuel can only happen past the last block
            exfalso
            have : (fuel + 1) * P = fuel * P + P := by rw [Nat.succ_mul]
            omega

/-- Draining a partition batch by batch (`drain_next` until it returns nothing) yields exactly the kept
rows of its blocks, in order, whatever the output batch capacity: the cursor never skips a row when a
batch fills up in the middle of a block and never re-reads one. -/
theorem drainAll_flatten (keep : Bool → Bool) (blocks : List (List (Row α))) (P cap : Nat) (hP : 0 < P) (hcap : 0 < cap)
    (fuel : Nat) (c : Cursor) (hf : (kept keep (remaining blocks P c)).length < fuel) :
    (drainAll keep blocks P cap fuel c).flatten = kept keep (remaining blocks P c) := by
  induction fuel generalizing c with
  | zero => omega
  | succ fuel ih =>
    simp only [drainAll]
    have hfuel : blocks.length < c.block + (blocks.length + 1) * P := by
      have : blocks.length + 1 ≤ (blocks.length + 1) * P := Nat.le_mul_of_pos_right _ hP
      omega
    obtain ⟨h1, h2⟩ := loadRows_spec keep blocks P hP (blocks.length + 1) c cap hcap hfuel
    -- (h1, h2 are already in simplified form)
    split
    · rename_i hempty
      have he : (loadRows keep blocks P (blocks.length + 1) c cap).1 = [] := by simpa using hempty
      rw [he] at h1 h2
      rcases h2 with h2 | h2
      · exfalso; simp only [List.length_nil] at h2; omega
      · rw [← h1, h2.2]; simp
    · rename_i hne
      have hpos : 0 < (loadRows keep blocks P (blocks.length + 1) c cap).1.length := by
        cases hl : (loadRows keep blocks P (blocks.length + 1) c cap).1 with
        | nil => simp [hl] at hne
        | cons x xs => simp
      have hlen : (kept keep (remaining blocks P c)).length =
          (loadRows keep blocks P (blocks.length + 1) c cap).1.length + (kept keep (remaining blocks P (loadRows keep blocks P (blocks.length + 1) c cap).2)).length := by
        rw [← h1, List.length_append]
      simp only [List.flatten_cons]
      rw [ih _ (by omega), h1]

theorem stepBy_sublist (P : Nat) (xs : List α) : (stepBy P xs).Sublist xs := by
  fun_induction stepBy P xs with
  | case1 => exact List.Sublist.refl _
  | case2 x xs ih => exact List.Sublist.cons_cons x (ih.trans (List.drop_sublist _ _))

theorem flatten_length_le_of_sublist {l1 l2 : List (List α)} (h : l1.Sublist l2) : l1.flatten.length ≤ l2.flatten.length := by
  induction h with
  | slnil => simp
  | cons a _ ih => simp only [List.flatten_cons, List.length_append]; omega
  | cons_cons a _ ih => simp only [List.flatten_cons, List.length_append]; omega

theorem kept_flatMap_flatten (keep : Bool → Bool) (ps : List Nat) (f : Nat → List (List (Row α))) :
    kept keep (ps.flatMap f).flatten = ps.flatMap fun p => kept keep (f p).flatten := by
  induction ps with
  | nil => simp [kept]
  | cons p ps ih => simp only [List.flatMap_cons, List.flatten_append, kept_append, ih]

/-- **Every unmatched build row is emitted exactly once**: for every partition count `P ≥ 1`, every
output batch capacity and every block layout of the build side, draining all partitions (each one
its blocks `p, p+P, p+2P, ...`, batch by batch) yields a permutation of the rows the drain keeps
(unmatched rows for LEFT, all rows for MARK) - none lost at a block or batch boundary, none twice. -/
theorem drain_exactly_once (keep : Bool → Bool) (blocks : List (List (Row α))) (P cap : Nat) (hP : 0 < P) (hcap : 0 < cap) :
    ((List.range P).flatMap fun p =>
        (drainAll keep blocks P cap (blocks.flatten.length + 1) { block := p, row := 0 }).flatten).Perm
      (kept keep blocks.flatten) := by
  have hrows : ∀ p, (drainAll keep blocks P cap (blocks.flatten.length + 1) { block := p, row := 0 }).flatten
      = kept keep (skipStep P p blocks).flatten := by
    intro p
    have hrem := remaining_start blocks P hP p
    rw [drainAll_flatten keep blocks P cap hP hcap _ _ ?_, hrem]
    · rfl
    · -- fuel: the kept rows of a sub-stream are at most all rows
      rw [hrem]
      have h1 : (kept keep (stepBy P (blocks.drop p)).flatten).length ≤ (stepBy P (blocks.drop p)).flatten.length := by
        unfold kept; rw [List.length_map]; exact List.length_filter_le _ _
      have h2 : (stepBy P (blocks.drop p)).flatten.length ≤ blocks.flatten.length := by
        have hsub : (stepBy P (blocks.drop p)).Sublist blocks :=
          (stepBy_sublist P (blocks.drop p)).trans (List.drop_sublist _ _)
        exact flatten_length_le_of_sublist hsub
      omega
  have hperm := (C11.skipStep_queues_partition P hP blocks).flatten
  have := (hperm.filter (fun r => keep r.2)).map (·.1)
  refine List.Perm.trans (List.Perm.of_eq ?_) this
  have hk := kept_flatMap_flatten keep (List.range P) (fun p => skipStep P p blocks)
  unfold kept at hk
  rw [hk]
  apply C11.flatMap_congr_mem
  intro p _
  rw [hrows p]; rfl

example : drainAll (fun m => !m) [[(1, false), (2, true), (3, false)], [(4, false)], [(5, false), (6, false)]] 2 2 8 { block := 0, row := 0 }
    = [[1, 3], [5, 6]] := by decide

section NotDistinct
variable {L R K : Type} [DecidableEq K]

/-- `IS NOT DISTINCT FROM` on nullable keys: NULL matches NULL. -/
def keyMatchND (a b : Option K) : Bool := decide (a = b)

def nlJoinND (kl : L → Option K) (kr : R → Option K) (ls : List L) (rs : List R) : List (L × R) :=
  ls.flatMap fun l => (rs.filter fun r => keyMatchND (kl l) (kr r)).map fun r => (l, r)

/-- Hash join keyed on an `IS NOT DISTINCT FROM` condition: NULL keys are hashed like any other value
(`hh` hashes the nullable key) and the row matcher compares with `keyMatchND`. -/
def hashJoinND (hh : Option K → Nat) (kl : L → Option K) (kr : R → Option K) (ls : List L) (rs : List R) : List (L × R) :=
  ls.flatMap fun l =>
    ((rs.filter fun r => hh (kr r) == hh (kl l)).filter fun r => keyMatchND (kl l) (kr r)).map fun r => (l, r)

/-- **Hashing on an IS NOT DISTINCT FROM key is sound for every hash function**: the hash join
returns exactly the nested-loop join's pairs, NULL keys matching NULL keys (the join back of a
decorrelated subquery is planned this way since the repair of F37). -/
theorem hash_eq_nl_not_distinct (hh : Option K → Nat) (kl : L → Option K) (kr : R → Option K) (ls : List L) (rs : List R) :
    hashJoinND hh kl kr ls rs = nlJoinND kl kr ls rs := by
  unfold hashJoinND nlJoinND
  congr 1
  funext l
  simp only [List.filter_filter]
  congr 1
  apply List.filter_congr
  intro r _
  by_cases e : kl l = kr r
  · simp [keyMatchND, e]
  · simp [keyMatchND, e]

/-- NULL keys do match each other under IS NOT DISTINCT FROM (and never under `=`). -/
theorem null_keys_match_not_distinct :
    nlJoinND (fun x : Option Nat => x) (fun y : Option Nat => y) [none, some 1] [none, some 2] = [(none, none)] ∧
      nlJoin (fun x : Option Nat => x) (fun y : Option Nat => y) [none, some 1] [none, some 2] = [] := by decide

end NotDistinct

end GlareModel.Props.C06
