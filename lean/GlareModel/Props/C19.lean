import GlareModel.Core.Varint
import GlareModel.Core.Footer
import GlareModel.Core.Csv
import GlareModel.Core.Rle
import GlareModel.Props.C10
/-! # C19 — Malformed Parquet/CSV input fails cleanly, never crashes or hangs (partial)

What the models can carry: the footer loader never reads outside the file and (after the repair)
never sizes a buffer from an untrusted length larger than the file; the CSV decoder is a total
function whose output never exceeds its input; the RLE/bit-packed decoder reports a truncated
stream instead of over-reading (Props/C10). -/
namespace GlareModel.Props.C19
open GlareModel

/-! ## Parquet footer -/
open Footer in
/-- An accepted footer designates a metadata slice that lies inside the file, directly before the
8 footer bytes. -/
theorem footer_ok_in_file (c : Bool) (tail : List Nat) (size off len alloc : Nat)
    (h : load c tail size = .ok off len alloc) : off + len + footerSize = size ∧ alloc = len := by
  unfold load at h
  split at h
  · simp at h
  · split at h
    · simp at h
    · split at h
      · simp at h
      · simp only at h
        split at h
        · simp at h
        · split at h
          · simp at h
          · rename_i hle
            simp only [Res.ok.injEq] at h
            obtain ⟨rfl, rfl, rfl⟩ := h
            refine ⟨?_, rfl⟩
            simp only [footerSize] at hle ⊢
            omega

open Footer in
/-- The repaired loader never allocates more than the file holds, whatever the length field says. -/
theorem footer_checked_alloc_le_size (tail : List Nat) (size : Nat) : (load true tail size).alloc ≤ size := by
  unfold load
  split
  · simp [Res.alloc]
  · split
    · simp [Res.alloc]
    · split
      · simp [Res.alloc]
      · simp only [Bool.true_and]
        split
        · simp [Res.alloc]
        · rename_i hle
          simp only [decide_eq_true_eq] at hle
          split
          · rename_i h2; exact absurd h2 hle
          · simp only [Res.alloc, footerSize] at hle ⊢
            omega

open Footer in
/-- The pinned commit sized the buffer from the untrusted length before validating it: a 12-byte
file can ask for 4 GiB (finding F12; repaired by a `fix:` commit). -/
theorem footer_unchecked_alloc_unbounded :
    (load false [255, 255, 255, 255, 80, 65, 82, 49] 12).alloc = 4294967295 ∧
    (load true [255, 255, 255, 255, 80, 65, 82, 49] 12) = .err 0 := by decide

open Footer in
/-- Every outcome is an error or an in-file slice: there is no third case (totality). -/
theorem footer_total (c : Bool) (tail : List Nat) (size : Nat) :
    (∃ a, load c tail size = .err a) ∨ (∃ off len a, load c tail size = .ok off len a) := by
  cases h : load c tail size with
  | err a => exact Or.inl ⟨a, rfl⟩
  | ok off len a => exact Or.inr ⟨off, len, a, rfl⟩

/-! ## CSV: the decoder is total and its output is bounded by its input -/

open Csv in
def weight (s : Dec) : Nat :=
  s.field.length + (s.fields.map List.length).sum + (s.out.map fun r => (r.map List.length).sum).sum

open Csv in
theorem step_weight_le (d q : Nat) (s : Dec) (b : Nat) : weight (step d q s b) ≤ weight s + 1 := by
  unfold step
  cases s.st <;> simp only <;> (repeat' split) <;>
    simp [weight, Dec.endField, Dec.endRecord, List.sum_cons, List.length_reverse] <;> omega

open Csv in
/-- Decoding any byte string (invalid UTF-8, unterminated quotes, NUL bytes, ...) never fails - the
decoder is a total function - and the bytes it holds never exceed the bytes it was given. -/
theorem decode_weight_le (d q : Nat) (s : Dec) (chunk : List Nat) :
    weight (decode d q s chunk) ≤ weight s + chunk.length := by
  unfold decode
  induction chunk generalizing s with
  | nil => simp
  | cons b bs ih =>
    rw [List.foldl_cons]
    have h1 := step_weight_le d q s b
    have h2 := ih (step d q s b)
    simp only [List.length_cons]
    omega

/-! ## RLE / bit-packed hybrid: truncated input is reported (from C10) -/

example : Rle.readN 9 { bytes := [3, 255], width := 1 } = none := by decide

/-! ## Thrift varints (`thrift.rs`, `read_vlq`; model `Core/Varint.lean`, tied by `gvh varint`) -/
section Varints
open GlareModel.Varint

/-- The repaired reader never evaluates a shift of 64 or more, on any input. -/
theorem vlq_checked_never_overflows (acc shift consumed : Nat) (bytes : List Nat) :
    ∀ s, readVlqFrom true acc shift consumed bytes ≠ .shiftOverflow s := by
  induction bytes generalizing acc shift consumed with
  | nil => intro s; simp [readVlqFrom]
  | cons b bs ih =>
    intro s
    simp only [readVlqFrom]
    split
    · simp
    · split
      · simp
      · exact ih _ _ _ s

/-- A successfully read varint consumed at most ten bytes and at most what was there. -/
theorem vlq_consumed_bound (c : Bool) (acc shift consumed : Nat) (bytes : List Nat) (v n : Nat)
    (hs : shift = 7 * consumed)
    (h : readVlqFrom c acc shift consumed bytes = .ok v n) : n ≤ 10 ∧ n ≤ consumed + bytes.length ∧ v < 2 ^ 64 := by
  induction bytes generalizing acc shift consumed with
  | nil => simp [readVlqFrom] at h
  | cons b bs ih =>
    simp only [readVlqFrom] at h
    split at h
    · split at h <;> simp at h
    · rename_i hsh
      split at h
      · injection h with h1 h2
        subst h1 h2
        refine ⟨by omega, by simp, ?_⟩
        exact Nat.mod_lt _ (by decide)
      · have := ih _ (shift + 7) (consumed + 1) (by omega) h
        simp only [List.length_cons]
        omega

theorem vlq_total_from (acc shift consumed : Nat) (bytes : List Nat) :
    (∃ v n, readVlqFrom true acc shift consumed bytes = .ok v n) ∨ readVlqFrom true acc shift consumed bytes = .eof ∨
      readVlqFrom true acc shift consumed bytes = .tooLong := by
  induction bytes generalizing acc shift consumed with
  | nil => simp [readVlqFrom]
  | cons b bs ih =>
    simp only [readVlqFrom]
    split
    · simp
    · split
      · exact Or.inl ⟨_, _, rfl⟩
      · exact ih _ _ _

/-- The reader is total: every byte string gives a value, end of input, or (repaired) "too long". -/
theorem vlq_total (bytes : List Nat) :
    (∃ v n, readVlq true bytes = .ok v n) ∨ readVlq true bytes = .eof ∨ readVlq true bytes = .tooLong :=
  vlq_total_from 0 0 0 bytes

/-- The pinned commit on eleven continuation bytes: the eleventh shift is by 70 (F62). -/
theorem vlq_unchecked_overflows :
    readVlq false (List.replicate 11 0x80) = .shiftOverflow 70 := by decide

example : readVlq true [0xAC, 0x02] = .ok 300 2 := by decide
example : readVlq true (List.replicate 11 0x80) = .tooLong := by decide

end Varints

end GlareModel.Props.C19
