import GlareModel.Core.Footer
import GlareModel.Core.Csv
import GlareModel.Core.Rle
import GlareModel.Props.C10
/-! # C19 — Malformed Parquet/CSV input fails cleanly, never crashes or hangs (partial)

What the models can carry: the footer loader never reads outside the file and (after the repair)
never sizes a buffer from an untrusted length larger than the file; the CSV decoder is a total
function whose output never exceeds its input; the RLE/bit-packed decoder reports a truncated
stream instead of over-reading (Props/C10). -/
namespace GlareModel.Props.C19
open GlareModel

/-! ## Parquet footer -/
open Footer in
/-- An accepted footer designates a metadata slice that lies inside the file, directly before the
8 footer bytes. -/
theorem footer_ok_in_file (c : Bool) (tail : List Nat) (size off len alloc : Nat)
    (h : load c tail size = .ok off len alloc) : off + len + footerSize = size ∧ alloc = len := by
  unfold load at h
  split at h
  · simp at h
  · split at h
    · simp at h
    · split at h
      · simp at h
      · simp only at h
        split at h
        · simp at h
        · split at h
          · simp at h
          · rename_i hle
            simp only [Res.ok.injEq] at h
            obtain ⟨rfl, rfl, rfl⟩ := h
            refine ⟨?_, rfl⟩
            simp only [footerSize] at hle ⊢
            omega

open Footer in
/-- The repaired loader never allocates more than the file holds, whatever the length field says. -/
theorem footer_checked_alloc_le_size (tail : List Nat) (size : Nat) : (load true tail size).alloc ≤ size := by
  unfold load
  split
  · simp [Res.alloc]
  · split
    · simp [Res.alloc]
    · split
      · simp [Res.alloc]
      · simp only [Bool.true_and]
        split
        · simp [Res.alloc]
        · rename_i hle
          simp only [decide_eq_true_eq] at hle
          split
          · rename_i h2; exact absurd h2 hle
          · simp only [Res.alloc, footerSize] at hle ⊢
            omega

open Footer in
/-- The pinned commit sized the buffer from the untrusted length before validating it: a 12-byte
file can ask for 4 GiB (finding F12; repaired by a `fix:` commit). -/
theorem footer_unchecked_alloc_unbounded :
    (load false [255, 255, 255, 255, 80, 65, 82, 49] 12).alloc = 4294967295 ∧
    (load true [255, 255, 255, 255, 80, 65, 82, 49] 12) = .err 0 := by decide

open Footer in
/-- Every outcome is an error or an in-file slice: there is no third case (totality). -/
theorem footer_total (c : Bool) (tail : List Nat) (size : Nat) :
    (∃ a, load c tail size = .err a) ∨ (∃ off len a, load c tail size = .ok off len a) := by
  cases h : load c tail size with
  | err a => exact Or.inl ⟨a, rfl⟩
  | ok off len a => exact Or.inr ⟨off, len, a, rfl⟩

/-! ## CSV: the decoder is total and its output is bounded by its input -/

open Csv in
def weight (s : Dec) : Nat :=
  s.field.length + (s.fields.map List.length).sum + (s.out.map fun r => (r.map List.length).sum).sum

open Csv in
theorem step_weight_le (d q : Nat) (s : Dec) (b : Nat) : weight (step d q s b) ≤ weight s + 1 := by
  unfold step
  cases s.st <;> simp only <;> (repeat' split) <;>
    simp [weight, Dec.endField, Dec.endRecord, List.sum_cons, List.length_reverse] <;> omega

open Csv in
/-- Decoding any byte string (invalid UTF-8, unterminated quotes, NUL bytes, ...) never fails - the
decoder is a total function - and the bytes it holds never exceed the bytes it was given. -/
theorem decode_weight_le (d q : Nat) (s : Dec) (chunk : List Nat) :
    weight (decode d q s chunk) ≤ weight s + chunk.length := by
  unfold decode
  induction chunk generalizing s with
  | nil => simp
  | cons b bs ih =>
    rw [List.foldl_cons]
    have h1 := step_weight_le d q s b
    have h2 := ih (step d q s b)
    simp only [List.length_cons]
    omega

/-! ## RLE / bit-packed hybrid: truncated input is reported (from C10) -/

example : Rle.readN 9 { bytes := [3, 255], width := 1 } = none := by decide

end GlareModel.Props.C19
