import GlareModel.Core.Sem
import GlareModel.Core.CaseExpr

/-! # C05 — Scalar operators follow their definition on all values, whatever the vector shape

Model of the vectorised binary executor (`arrays/executor/scalar/binary.rs`): an array is a
physical buffer, a validity mask indexed by *logical* row and a selection mapping logical rows to
buffer positions (flat = identity, constant = all zeros, dictionary = arbitrary). The executor has
an all-valid fast path and a per-row validity path. -/
namespace GlareModel.Props.C05
open GlareModel.Sem

structure Vec (α : Type) where
  data : List α
  valid : List Bool      -- by logical row
  sel : List Nat         -- logical row ↦ index into `data`

/-- Logical value of row `i`. -/
def Vec.get [Inhabited α] (v : Vec α) (i : Nat) : Option α :=
  if v.valid.getD i true then some (v.data.getD (v.sel.getD i 0) default) else none

def Vec.allValid (v : Vec α) : Bool := v.valid.all id

def liftNull (f : α → β → γ) : Option α → Option β → Option γ
  | some a, some b => some (f a b)
  | _, _ => none

/-- Fast path: no validity checks at all. -/
def fastPath [Inhabited α] [Inhabited β] (f : α → β → γ) (a : Vec α) (b : Vec β) (rows : List Nat) : List (Option γ) :=
  rows.map fun i => some (f (a.data.getD (a.sel.getD i 0) default) (b.data.getD (b.sel.getD i 0) default))

/-- Validity path: a row is computed only when both inputs are valid, otherwise NULL. -/
def validityPath [Inhabited α] [Inhabited β] (f : α → β → γ) (a : Vec α) (b : Vec β) (rows : List Nat) : List (Option γ) :=
  rows.map fun i =>
    if a.valid.getD i true && b.valid.getD i true then
      some (f (a.data.getD (a.sel.getD i 0) default) (b.data.getD (b.sel.getD i 0) default))
    else none

def binaryExec [Inhabited α] [Inhabited β] (f : α → β → γ) (a : Vec α) (b : Vec β) (rows : List Nat) : List (Option γ) :=
  if a.allValid && b.allValid then fastPath f a b rows else validityPath f a b rows

theorem getD_of_all {l : List Bool} (h : l.all id = true) (i : Nat) : l.getD i true = true := by
  induction l generalizing i with
  | nil => simp
  | cons x xs ih =>
    simp only [List.all_cons, Bool.and_eq_true, id] at h
    cases i with
    | zero => simpa using h.1
    | succ k => simpa using ih h.2 k

/-- **The executor is a map over logical values**: for every vector shape (flat, constant,
dictionary-selected, any validity) and every batch selection, the output is
`liftNull f (a[i]) (b[i])` for each selected row — so the value cannot depend on the
representation, and the fast path agrees with the validity path. -/
theorem executor_is_map [Inhabited α] [Inhabited β] (f : α → β → γ) (a : Vec α) (b : Vec β) (rows : List Nat) :
    binaryExec f a b rows = rows.map fun i => liftNull f (a.get i) (b.get i) := by
  unfold binaryExec
  split
  · rename_i h
    simp only [Bool.and_eq_true] at h
    unfold fastPath
    apply List.map_congr_left
    intro i _
    have h1 := getD_of_all h.1 i
    have h2 := getD_of_all h.2 i
    simp only [List.getD_eq_getElem?_getD] at h1 h2
    simp [Vec.get, liftNull, h1, h2]
  · unfold validityPath
    apply List.map_congr_left
    intro i _
    simp only [Vec.get]
    cases ha : a.valid.getD i true <;> cases hb : b.valid.getD i true <;> simp [liftNull]

/-- NOT does not turn NULL into TRUE (so `WHERE NOT p` drops rows where `p` is NULL). -/
theorem not_null_is_null : not3 .null = .ok .null := rfl

/-- Kleene truth tables (whole domain). -/
theorem kleene_tables :
    and3 (.bool false) .null = .ok (.bool false) ∧ and3 .null (.bool false) = .ok (.bool false) ∧
    and3 (.bool true) .null = .ok .null ∧ or3 (.bool true) .null = .ok (.bool true) ∧
    or3 .null (.bool true) = .ok (.bool true) ∧ or3 (.bool false) .null = .ok .null ∧
    and3 .null .null = .ok .null ∧ or3 .null .null = .ok .null := by
  refine ⟨rfl, rfl, rfl, rfl, rfl, rfl, rfl, rfl⟩

example : binaryExec (· + ·) (⟨[10, 20], [true, false, true], [0, 1, 1]⟩ : Vec Nat) ⟨[5], [true, true, true], [0, 0, 0]⟩ [0, 1, 2]
    = [some 15, none, some 25] := by decide

end GlareModel.Props.C05

/-! ## CASE: nested selections and scatter (Core/CaseExpr.lean) -/

namespace GlareModel.Props.C05
open GlareModel.CaseExpr
universe u v
variable {ρ : Type u} {β : Type v}

theorem scatter_length (out : List (Option β)) (ws : List (Nat × β)) : (scatter out ws).length = out.length := by
  unfold scatter
  induction ws generalizing out with
  | nil => rfl
  | cons w ws ih => simp [ih]

/-- A position that is not written keeps its value. -/
theorem scatter_getD_of_not_mem (out : List (Option β)) (ws : List (Nat × β)) (i : Nat) (h : ∀ w ∈ ws, w.1 ≠ i) :
    (scatter out ws).getD i none = out.getD i none := by
  unfold scatter
  induction ws generalizing out with
  | nil => rfl
  | cons w ws ih =>
    simp only [List.foldl_cons]
    rw [ih _ (fun x hx => h x (List.mem_cons_of_mem _ hx))]
    have hne : w.1 ≠ i := h w (List.mem_cons_self ..)
    simp [List.getD_eq_getElem?_getD, List.getElem?_set_ne hne]

/-- A position written exactly once (positions are distinct) holds the written value. -/
theorem scatter_getD_of_mem (out : List (Option β)) (ws : List (Nat × β)) (i : Nat) (v : β) (hi : i < out.length)
    (hmem : (i, v) ∈ ws) (hnd : (ws.map (·.1)).Nodup) : (scatter out ws).getD i none = some v := by
  induction ws generalizing out with
  | nil => simp at hmem
  | cons w ws ih =>
    have hnd' : w.1 ∉ ws.map (·.1) ∧ (ws.map (·.1)).Nodup := by
      rw [List.map_cons] at hnd
      exact List.nodup_cons.mp hnd
    unfold scatter
    simp only [List.foldl_cons]
    rcases List.mem_cons.mp hmem with h1 | h2
    · -- written now, never overwritten later
      have hw : w.1 = i := by rw [← h1]
      have hv : w.2 = v := by rw [← h1]
      have hrest : ∀ x ∈ ws, x.1 ≠ i := by
        intro x hx he
        apply hnd'.1
        rw [hw, ← he]
        exact List.mem_map.mpr ⟨x, hx, rfl⟩
      have := scatter_getD_of_not_mem (out.set w.1 (some w.2)) ws i hrest
      unfold scatter at this
      rw [this, hw, hv]
      simp [List.getD_eq_getElem?_getD, hi]
    · have := ih (out.set w.1 (some w.2)) (by simpa using hi) h2 hnd'.2
      unfold scatter at this
      exact this

theorem evalLoop_length (els : ρ → β) (arms : List (Arm ρ β)) (cur : List (Nat × ρ)) (out : List (Option β)) :
    (evalLoop els arms cur out).length = out.length := by
  induction arms generalizing cur out with
  | nil => simp [evalLoop, scatter_length]
  | cons a rest ih => simp [evalLoop, ih, scatter_length]

theorem nodup_map_filter {γ : Type u} (l : List (Nat × γ)) (p : Nat × γ → Bool) (h : (l.map (·.1)).Nodup) :
    ((l.filter p).map (·.1)).Nodup :=
  List.Nodup.sublist (List.Sublist.map _ List.filter_sublist) h

theorem nodup_map_inj {γ : Type u} (l : List (Nat × γ)) (h : (l.map (·.1)).Nodup) (a b : Nat × γ)
    (ha : a ∈ l) (hb : b ∈ l) (he : a.1 = b.1) : a = b := by
  induction l with
  | nil => simp at ha
  | cons x xs ih =>
    rw [List.map_cons] at h
    obtain ⟨hx, hxs⟩ := List.nodup_cons.mp h
    rcases List.mem_cons.mp ha with h1 | h1 <;> rcases List.mem_cons.mp hb with h2 | h2
    · rw [h1, h2]
    · exfalso; apply hx; rw [← h1, he]; exact List.mem_map.mpr ⟨b, h2, rfl⟩
    · exfalso; apply hx; rw [← h2, ← he]; exact List.mem_map.mpr ⟨a, h1, rfl⟩
    · exact ih hxs h1 h2

/-- The loop invariant: every row still in `cur` ends up with the value the specification gives
it for the remaining arms; every other output position is left alone. -/
theorem evalLoop_spec (els : ρ → β) (arms : List (Arm ρ β)) (cur : List (Nat × ρ)) (out : List (Option β))
    (hnd : (cur.map (·.1)).Nodup) (hlt : ∀ p ∈ cur, p.1 < out.length) :
    (∀ p ∈ cur, (evalLoop els arms cur out).getD p.1 none = some (spec arms els p.2)) ∧
    (∀ i, (∀ p ∈ cur, p.1 ≠ i) → (evalLoop els arms cur out).getD i none = out.getD i none) := by
  induction arms generalizing cur out with
  | nil =>
    simp only [evalLoop, spec]
    refine ⟨?_, ?_⟩
    · intro p hp
      apply scatter_getD_of_mem _ _ _ _ (hlt p hp)
      · exact List.mem_map.mpr ⟨p, hp, rfl⟩
      · rw [List.map_map]; exact hnd
    · intro i hi
      apply scatter_getD_of_not_mem
      intro w hw
      obtain ⟨p, hp, rfl⟩ := List.mem_map.mp hw
      exact hi p hp
  | cons a rest ih =>
    simp only [evalLoop]
    have hfall_nd := nodup_map_filter cur (fun p => !(a.cond p.2 == some true)) hnd
    have htaken_nd := nodup_map_filter cur (fun p => a.cond p.2 == some true) hnd
    have hlen : ∀ ws : List (Nat × β), (scatter out ws).length = out.length := scatter_length out
    have hfall_lt : ∀ p ∈ cur.filter (fun p => !(a.cond p.2 == some true)),
        p.1 < (scatter out ((cur.filter fun p => a.cond p.2 == some true).map fun p => (p.1, a.val p.2))).length := by
      intro p hp
      rw [hlen]
      exact hlt p (List.mem_filter.mp hp).1
    obtain ⟨ih1, ih2⟩ := ih _ _ hfall_nd hfall_lt
    refine ⟨?_, ?_⟩
    · intro p hp
      by_cases hc : a.cond p.2 = some true
      · -- taken by this arm: written now, untouched by the rest of the loop
        have hnotfall : ∀ q ∈ cur.filter (fun p => !(a.cond p.2 == some true)), q.1 ≠ p.1 := by
          intro q hq he
          have hqc := List.mem_filter.mp hq
          -- positions are distinct, so q = p, but q falls through and p does not
          have : q = p := nodup_map_inj cur hnd q p hqc.1 hp he
          rw [this] at hqc
          simp [hc] at hqc
        rw [ih2 p.1 hnotfall, spec, if_pos hc]
        apply scatter_getD_of_mem _ _ _ _ (hlt p hp)
        · exact List.mem_map.mpr ⟨p, List.mem_filter.mpr ⟨hp, by simp [hc]⟩, rfl⟩
        · rw [List.map_map]; exact htaken_nd
      · have hpf : p ∈ cur.filter (fun p => !(a.cond p.2 == some true)) :=
          List.mem_filter.mpr ⟨hp, by simp [hc]⟩
        rw [ih1 p hpf, spec, if_neg hc]
    · intro i hi
      rw [ih2 i (fun q hq => hi q (List.mem_filter.mp hq).1)]
      apply scatter_getD_of_not_mem
      intro w hw
      obtain ⟨q, hq, rfl⟩ := List.mem_map.mp hw
      exact hi q (List.mem_filter.mp hq).1

/-- **CASE is a map of "first TRUE arm, else ELSE" over the selected rows**: for every list of arms,
every batch, and every selection (any subset, any order, repeated rows) the dense output of the
loop - nested selections, per-arm scatter - is `spec` applied to each selected row. In particular
the result of a row does not depend on which other rows are selected (the property the F16 defect
broke by scattering to physical row indices). -/
theorem eval_spec [Inhabited ρ] (arms : List (Arm ρ β)) (els : ρ → β) (rows : List ρ) (sel : List Nat) :
    eval arms els rows sel = sel.map fun r => some (spec arms els (rows.getD r default)) := by
  unfold eval
  have hfst : ((sel.zipIdx).map fun p => (p.2, rows.getD p.1 default)).map (·.1) = List.range sel.length := by
    rw [List.map_map]
    have : ((fun x : Nat × ρ => x.1) ∘ fun p : Nat × Nat => (p.2, rows.getD p.1 default)) = fun p => p.2 := rfl
    rw [this, List.zipIdx_map_snd]
    simp [List.range_eq_range']
  have hnd : (((sel.zipIdx).map fun p => (p.2, rows.getD p.1 default)).map (·.1)).Nodup := by
    rw [hfst]; exact List.nodup_range
  have hlt : ∀ p ∈ (sel.zipIdx).map (fun p => (p.2, rows.getD p.1 default)), p.1 < (List.replicate sel.length (none : Option β)).length := by
    intro p hp
    have : p.1 ∈ List.range sel.length := by rw [← hfst]; exact List.mem_map.mpr ⟨p, hp, rfl⟩
    simpa using this
  obtain ⟨h1, _⟩ := evalLoop_spec els arms _ (List.replicate sel.length none) hnd hlt
  apply List.ext_getElem
  · simp [evalLoop_length]
  · intro i hi1 hi2
    have hi : i < sel.length := by simpa using hi2
    have hmem : (i, rows.getD sel[i] default) ∈ (sel.zipIdx).map (fun p => (p.2, rows.getD p.1 default)) := by
      apply List.mem_map.mpr
      refine ⟨(sel[i], i), ?_, rfl⟩
      rw [List.mem_zipIdx_iff_getElem?]
      simp [hi]
    have hlen : i < (evalLoop els arms ((sel.zipIdx).map fun p => (p.2, rows.getD p.1 default)) (List.replicate sel.length none)).length := by
      simp [evalLoop_length, hi]
    have hg := h1 _ hmem
    rw [List.getD_eq_getElem?_getD, List.getElem?_eq_getElem hlen] at hg
    simp only [Option.getD_some] at hg
    simp only [List.getElem_map]
    exact hg

example : eval [⟨fun (r : Nat) => some (decide (r > 3)), fun r => r * 10⟩, ⟨fun r => if r = 2 then none else some (decide (r > 1)), fun r => r * 100⟩]
    (fun r => 0 - r) [0, 1, 2, 3, 4, 5] [5, 2, 3, 0] = [some 50, some 0, some 300, some 0] := by decide

/-- The pinned commit's scatter to physical row indices is wrong as soon as the selection is not the
identity: rows 4 and 5 selected, the values land outside the two output slots. -/
theorem pinned_case_scatter_wrong :
    evalPinned [⟨fun (r : Nat) => some (decide (r > 4)), fun r => r * 10⟩] (fun r => r) [0, 1, 2, 3, 4, 5] [4, 5] = [none, none] ∧
    eval [⟨fun (r : Nat) => some (decide (r > 4)), fun r => r * 10⟩] (fun r => r) [0, 1, 2, 3, 4, 5] [4, 5] = [some 4, some 50] := by decide

end GlareModel.Props.C05
