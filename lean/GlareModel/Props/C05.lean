import GlareModel.Core.Sem

/-! # C05 — Scalar operators follow their definition on all values, whatever the vector shape

Model of the vectorised binary executor (`arrays/executor/scalar/binary.rs`): an array is a
physical buffer, a validity mask indexed by *logical* row and a selection mapping logical rows to
buffer positions (flat = identity, constant = all zeros, dictionary = arbitrary). The executor has
an all-valid fast path and a per-row validity path. -/
namespace GlareModel.Props.C05
open GlareModel.Sem

structure Vec (α : Type) where
  data : List α
  valid : List Bool      -- by logical row
  sel : List Nat         -- logical row ↦ index into `data`

/-- Logical value of row `i`. -/
def Vec.get [Inhabited α] (v : Vec α) (i : Nat) : Option α :=
  if v.valid.getD i true then some (v.data.getD (v.sel.getD i 0) default) else none

def Vec.allValid (v : Vec α) : Bool := v.valid.all id

def liftNull (f : α → β → γ) : Option α → Option β → Option γ
  | some a, some b => some (f a b)
  | _, _ => none

/-- Fast path: no validity checks at all. -/
def fastPath [Inhabited α] [Inhabited β] (f : α → β → γ) (a : Vec α) (b : Vec β) (rows : List Nat) : List (Option γ) :=
  rows.map fun i => some (f (a.data.getD (a.sel.getD i 0) default) (b.data.getD (b.sel.getD i 0) default))

/-- Validity path: a row is computed only when both inputs are valid, otherwise NULL. -/
def validityPath [Inhabited α] [Inhabited β] (f : α → β → γ) (a : Vec α) (b : Vec β) (rows : List Nat) : List (Option γ) :=
  rows.map fun i =>
    if a.valid.getD i true && b.valid.getD i true then
      some (f (a.data.getD (a.sel.getD i 0) default) (b.data.getD (b.sel.getD i 0) default))
    else none

def binaryExec [Inhabited α] [Inhabited β] (f : α → β → γ) (a : Vec α) (b : Vec β) (rows : List Nat) : List (Option γ) :=
  if a.allValid && b.allValid then fastPath f a b rows else validityPath f a b rows

theorem getD_of_all {l : List Bool} (h : l.all id = true) (i : Nat) : l.getD i true = true := by
  induction l generalizing i with
  | nil => simp
  | cons x xs ih =>
    simp only [List.all_cons, Bool.and_eq_true, id] at h
    cases i with
    | zero => simpa using h.1
    | succ k => simpa using ih h.2 k

/-- **The executor is a map over logical values**: for every vector shape (flat, constant,
dictionary-selected, any validity) and every batch selection, the output is
`liftNull f (a[i]) (b[i])` for each selected row — so the value cannot depend on the
representation, and the fast path agrees with the validity path. -/
theorem executor_is_map [Inhabited α] [Inhabited β] (f : α → β → γ) (a : Vec α) (b : Vec β) (rows : List Nat) :
    binaryExec f a b rows = rows.map fun i => liftNull f (a.get i) (b.get i) := by
  unfold binaryExec
  split
  · rename_i h
    simp only [Bool.and_eq_true] at h
    unfold fastPath
    apply List.map_congr_left
    intro i _
    have h1 := getD_of_all h.1 i
    have h2 := getD_of_all h.2 i
    simp only [List.getD_eq_getElem?_getD] at h1 h2
    simp [Vec.get, liftNull, h1, h2]
  · unfold validityPath
    apply List.map_congr_left
    intro i _
    simp only [Vec.get]
    cases ha : a.valid.getD i true <;> cases hb : b.valid.getD i true <;> simp [liftNull]

/-- NOT does not turn NULL into TRUE (so `WHERE NOT p` drops rows where `p` is NULL). -/
theorem not_null_is_null : not3 .null = .ok .null := rfl

/-- Kleene truth tables (whole domain). -/
theorem kleene_tables :
    and3 (.bool false) .null = .ok (.bool false) ∧ and3 .null (.bool false) = .ok (.bool false) ∧
    and3 (.bool true) .null = .ok .null ∧ or3 (.bool true) .null = .ok (.bool true) ∧
    or3 .null (.bool true) = .ok (.bool true) ∧ or3 (.bool false) .null = .ok .null ∧
    and3 .null .null = .ok .null ∧ or3 .null .null = .ok .null := by
  refine ⟨rfl, rfl, rfl, rfl, rfl, rfl, rfl, rfl⟩

example : binaryExec (· + ·) (⟨[10, 20], [true, false, true], [0, 1, 1]⟩ : Vec Nat) ⟨[5], [true, true, true], [0, 0, 0]⟩ [0, 1, 2]
    = [some 15, none, some 25] := by decide

end GlareModel.Props.C05
