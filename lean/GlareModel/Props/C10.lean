import GlareModel.Core.Rle

/-! # C10 — Reading a valid Parquet file returns exactly the rows it encodes
(decoder level: the RLE / bit-packing hybrid used for definition levels, dictionary indices and booleans) -/
namespace GlareModel.Props.C10
open GlareModel.Rle

/-- **Batch-split independence** of the resumable decoder: reading `m + n` values in one call
gives the same values and the same final decoder state as reading `m` and then `n` — wherever
the split falls (mid RLE run, mid bit-packed group, at a non-zero bit position). -/
theorem readN_add (m n : Nat) (s : St) :
    readN (m + n) s = (readN m s).bind fun r1 => (readN n r1.2).map fun r2 => (r1.1 ++ r2.1, r2.2) := by
  induction m generalizing s with
  | zero =>
    simp only [Nat.zero_add, readN, Option.bind_some, List.nil_append]
    cases readN n s <;> simp
  | succ k ih =>
    have : k + 1 + n = (k + n) + 1 := by omega
    rw [this]
    simp only [readN]
    cases h1 : read1 (s.bytes.length + 2) s with
    | none => simp
    | some p =>
      obtain ⟨v, s'⟩ := p
      simp only [ih s']
      cases h2 : readN k s' with
      | none => simp
      | some q =>
        obtain ⟨vs, s''⟩ := q
        simp only [Option.bind_some]
        cases h3 : readN n s'' with
        | none => simp
        | some r => simp

/-- Any sequence of batch sizes yields the concatenation a single read of the total yields. -/
theorem chunked_read (sizes : List Nat) (s : St) :
    sizes.foldl (fun (acc : Option (List Nat × St)) n =>
        acc.bind fun a => (readN n a.2).map fun r => (a.1 ++ r.1, r.2)) (some ([], s))
      = readN sizes.sum s := by
  have key : ∀ (sizes : List Nat) (pre : List Nat) (s : St),
      sizes.foldl (fun (acc : Option (List Nat × St)) n =>
        acc.bind fun a => (readN n a.2).map fun r => (a.1 ++ r.1, r.2)) (some (pre, s))
      = (readN sizes.sum s).map fun r => (pre ++ r.1, r.2) := by
    intro sizes
    induction sizes with
    | nil => intro pre s; simp [readN]
    | cons n ns ih =>
      intro pre s
      simp only [List.foldl_cons, List.sum_cons, Option.bind_some]
      rw [readN_add]
      cases h : readN n s with
      | none =>
        simp only [Option.map_none, Option.bind_none]
        clear ih
        induction ns with
        | nil => rfl
        | cons _ _ ih2 => simpa using ih2
      | some r =>
        obtain ⟨o, s1⟩ := r
        simp only [Option.map_some, Option.bind_some]
        rw [ih]
        cases readN ns.sum s1 <;> simp [List.append_assoc]
  have := key sizes [] s
  rw [this]
  cases readN sizes.sum s <;> simp

/-- `readN` returns exactly the requested number of values. -/
theorem readN_length (n : Nat) (s : St) (vs : List Nat) (s' : St) (h : readN n s = some (vs, s')) : vs.length = n := by
  induction n generalizing s vs s' with
  | zero => simp [readN] at h; rw [h.1]; rfl
  | succ k ih =>
    simp only [readN] at h
    cases h1 : read1 (s.bytes.length + 2) s with
    | none => simp [h1] at h
    | some p =>
      obtain ⟨v, s1⟩ := p
      simp only [h1] at h
      cases h2 : readN k s1 with
      | none => simp [h2] at h
      | some q =>
        obtain ⟨vs1, s2⟩ := q
        simp only [h2, Option.some.injEq, Prod.mk.injEq] at h
        rw [← h.1]
        simp [ih s1 vs1 s2 h2]

/-- A truncated stream is reported (`none`), never read past its end: the model of the
`*_unchecked` reads. At the pinned commit the Rust code performs the read unchecked (finding F11). -/
theorem truncated_literal_run_is_oob : readN 9 { bytes := [0x03, 0x88, 0xC6, 0xFA], width := 3 } = none := by decide

example : readN 8 { bytes := [0x03, 0x88, 0xC6, 0xFA], width := 3 } = some ([0, 1, 2, 3, 4, 5, 6, 7], { bytes := [], width := 3 }) := by decide
example : readN 5 { bytes := [4, 5, 6, 1], width := 3 } = some ([5, 5, 1, 1, 1], { bytes := [], width := 3, curVal := 1 }) := by decide

end GlareModel.Props.C10
