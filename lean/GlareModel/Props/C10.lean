import GlareModel.Core.Rle
import GlareModel.Core.Plain

/-! # C10 — Reading a valid Parquet file returns exactly the rows it encodes
(decoder level: the RLE / bit-packing hybrid used for definition levels, dictionary indices and booleans) -/
namespace GlareModel.Props.C10
open GlareModel.Rle

/-- **Batch-split independence** of the resumable decoder: reading `m + n` values in one call
gives the same values and the same final decoder state as reading `m` and then `n` — wherever
the split falls (mid RLE run, mid bit-packed group, at a non-zero bit position). -/
theorem readN_add (m n : Nat) (s : St) :
    readN (m + n) s = (readN m s).bind fun r1 => (readN n r1.2).map fun r2 => (r1.1 ++ r2.1, r2.2) := by
  induction m generalizing s with
  | zero =>
    simp only [Nat.zero_add, readN, Option.bind_some, List.nil_append]
    cases readN n s <;> simp
  | succ k ih =>
    have : k + 1 + n = (k + n) + 1 := by omega
    rw [this]
    simp only [readN]
    cases h1 : read1 (s.bytes.length + 2) s with
    | none => simp
    | some p =>
      obtain ⟨v, s'⟩ := p
      simp only [ih s']
      cases h2 : readN k s' with
      | none => simp
      | some q =>
        obtain ⟨vs, s''⟩ := q
        simp only [Option.bind_some]
        cases h3 : readN n s'' with
        | none => simp
        | some r => simp

/-- Any sequence of batch sizes yields the concatenation a single read of the total yields. -/
theorem chunked_read (sizes : List Nat) (s : St) :
    sizes.foldl (fun (acc : Option (List Nat × St)) n =>
        acc.bind fun a => (readN n a.2).map fun r => (a.1 ++ r.1, r.2)) (some ([], s))
      = readN sizes.sum s := by
  have key : ∀ (sizes : List Nat) (pre : List Nat) (s : St),
      sizes.foldl (fun (acc : Option (List Nat × St)) n =>
        acc.bind fun a => (readN n a.2).map fun r => (a.1 ++ r.1, r.2)) (some (pre, s))
      = (readN sizes.sum s).map fun r => (pre ++ r.1, r.2) := by
    intro sizes
    induction sizes with
    | nil => intro pre s; simp [readN]
    | cons n ns ih =>
      intro pre s
      simp only [List.foldl_cons, List.sum_cons, Option.bind_some]
      rw [readN_add]
      cases h : readN n s with
      | none =>
        simp only [Option.map_none, Option.bind_none]
        clear ih
        induction ns with
        | nil => rfl
        | cons _ _ ih2 => simpa using ih2
      | some r =>
        obtain ⟨o, s1⟩ := r
        simp only [Option.map_some, Option.bind_some]
        rw [ih]
        cases readN ns.sum s1 <;> simp [List.append_assoc]
  have := key sizes [] s
  rw [this]
  cases readN sizes.sum s <;> simp

/-- `readN` returns exactly the requested number of values. -/
theorem readN_length (n : Nat) (s : St) (vs : List Nat) (s' : St) (h : readN n s = some (vs, s')) : vs.length = n := by
  induction n generalizing s vs s' with
  | zero => simp [readN] at h; rw [h.1]; rfl
  | succ k ih =>
    simp only [readN] at h
    cases h1 : read1 (s.bytes.length + 2) s with
    | none => simp [h1] at h
    | some p =>
      obtain ⟨v, s1⟩ := p
      simp only [h1] at h
      cases h2 : readN k s1 with
      | none => simp [h2] at h
      | some q =>
        obtain ⟨vs1, s2⟩ := q
        simp only [h2, Option.some.injEq, Prod.mk.injEq] at h
        rw [← h.1]
        simp [ih s1 vs1 s2 h2]

/-- A truncated stream is reported (`none`), never read past its end: the model of the
`*_unchecked` reads. At the pinned commit the Rust code performs the read unchecked (finding F11). -/
theorem truncated_literal_run_is_oob : readN 9 { bytes := [0x03, 0x88, 0xC6, 0xFA], width := 3 } = none := by decide

example : readN 8 { bytes := [0x03, 0x88, 0xC6, 0xFA], width := 3 } = some ([0, 1, 2, 3, 4, 5, 6, 7], { bytes := [], width := 3 }) := by decide
example : readN 5 { bytes := [4, 5, 6, 1], width := 3 } = some ([5, 5, 1, 1, 1], { bytes := [], width := 3, curVal := 1 }) := by decide

/-! ## Data pages: definition levels place the PLAIN values (Core/Plain.lean) -/
section Pages
open GlareModel.Plain


/-- `placeLevels` succeeds exactly when there is one value per non-zero level, and then: one output row per
level, the non-NULL rows carry the values in order, and row `i` is NULL iff its level is 0. -/
theorem placeLevels_spec {α : Type} (ds : List Nat) (vs : List α) (rows : List (Option α))
    (h : placeLevels ds vs = some rows) :
    rows.length = ds.length ∧ rows.filterMap id = vs ∧
    ∀ i, i < ds.length → ((rows.getD i none).isSome ↔ ds.getD i 0 ≠ 0) := by
  induction ds generalizing vs rows with
  | nil =>
    cases vs with
    | nil => simp [placeLevels] at h; subst h; simp
    | cons v vs => simp [placeLevels] at h
  | cons d ds ih =>
    simp only [placeLevels] at h
    split at h
    · rename_i hd
      cases hp : placeLevels ds vs with
      | none => simp [hp] at h
      | some r =>
        simp only [hp, Option.map_some, Option.some.injEq] at h
        subst h
        obtain ⟨h1, h2, h3⟩ := ih vs r hp
        refine ⟨by simp [h1], by simpa using h2, ?_⟩
        intro i hi
        cases i with
        | zero => simp [hd]
        | succ i => simpa using h3 i (by simpa using hi)
    · rename_i hd
      cases vs with
      | nil => simp at h
      | cons v vs' =>
        simp only at h
        cases hp : placeLevels ds vs' with
        | none => simp [hp] at h
        | some r =>
          simp only [hp, Option.map_some, Option.some.injEq] at h
          subst h
          obtain ⟨h1, h2, h3⟩ := ih vs' r hp
          refine ⟨by simp [h1], by simp [h2], ?_⟩
          intro i hi
          cases i with
          | zero => simp [hd]
          | succ i => simpa using h3 i (by simpa using hi)

/-- ... and it does succeed whenever the counts match. -/
theorem placeLevels_total {α : Type} (ds : List Nat) (vs : List α) (h : (ds.filter (· != 0)).length = vs.length) :
    ∃ rows, placeLevels ds vs = some rows := by
  induction ds generalizing vs with
  | nil =>
    cases vs with
    | nil => exact ⟨[], rfl⟩
    | cons v vs => simp at h
  | cons d ds ih =>
    simp only [placeLevels]
    by_cases hd : d = 0
    · subst hd
      obtain ⟨r, hr⟩ := ih vs (by simpa using h)
      exact ⟨none :: r, by simp [hr]⟩
    · cases vs with
      | nil => simp [hd] at h
      | cons v vs' =>
        obtain ⟨r, hr⟩ := ih vs' (by simpa [hd] using h)
        exact ⟨some v :: r, by simp [hd, hr]⟩

/-- **Page-split independence of level placement**: placing the levels and values of two
consecutive pages separately and concatenating equals placing the concatenation. -/
theorem placeLevels_append {α : Type} (d1 d2 : List Nat) (v1 v2 : List α) (r1 r2 : List (Option α))
    (h1 : placeLevels d1 v1 = some r1) (h2 : placeLevels d2 v2 = some r2) :
    placeLevels (d1 ++ d2) (v1 ++ v2) = some (r1 ++ r2) := by
  induction d1 generalizing v1 r1 with
  | nil =>
    cases v1 with
    | nil => simp [placeLevels] at h1; subst h1; simpa using h2
    | cons v vs => simp [placeLevels] at h1
  | cons d ds ih =>
    simp only [placeLevels] at h1
    simp only [List.cons_append, placeLevels]
    split at h1
    · rename_i hd
      cases hp : placeLevels ds v1 with
      | none => simp [hp] at h1
      | some r =>
        simp only [hp, Option.map_some, Option.some.injEq] at h1
        subst h1
        simp [hd, ih v1 r hp]
    · rename_i hd
      cases v1 with
      | nil => simp at h1
      | cons v vs' =>
        simp only at h1
        cases hp : placeLevels ds vs' with
        | none => simp [hp] at h1
        | some r =>
          simp only [hp, Option.map_some, Option.some.injEq] at h1
          subst h1
          simp [hd, ih vs' r hp]

theorem le_leBytes (w v : Nat) (h : v < 256 ^ w) : le (Rle.leBytes w v) = v := by
  induction w generalizing v with
  | zero => simp [Rle.leBytes, le] at *; omega
  | succ w ih =>
    simp only [Rle.leBytes, le]
    have : v / 256 < 256 ^ w := by
      rw [Nat.pow_succ] at h
      exact Nat.div_lt_of_lt_mul (by rw [Nat.mul_comm]; exact h)
    rw [ih _ this]
    omega

theorem leBytes_length (w v : Nat) : (Rle.leBytes w v).length = w := by
  induction w generalizing v with
  | zero => rfl
  | succ w ih => simp [Rle.leBytes, ih]

/-- **PLAIN fixed-width round trip**: decoding the little-endian encoding of any list of in-range
values returns exactly those values and consumes exactly their bytes (any count, any width). -/
theorem decodeFixed_encodeFixed (w : Nat) (vs : List Nat) (rest : List Nat) (h : ∀ v ∈ vs, v < 256 ^ w) :
    decodeFixed w vs.length (encodeFixed w vs ++ rest) = some (vs, rest) := by
  induction vs with
  | nil => simp [decodeFixed, encodeFixed]
  | cons v vs ih =>
    have hv := h v (List.mem_cons_self ..)
    have ih' := ih (fun x hx => h x (List.mem_cons_of_mem _ hx))
    simp only [encodeFixed, List.flatMap_cons, List.length_cons, decodeFixed, List.append_assoc]
    have hl := leBytes_length w v
    have hlen : ¬ ((Rle.leBytes w v ++ (List.flatMap (Rle.leBytes w) vs ++ rest)).length < w) := by
      simp [hl]
    simp only [hlen, if_false]
    have hdrop : (Rle.leBytes w v ++ (List.flatMap (Rle.leBytes w) vs ++ rest)).drop w = List.flatMap (Rle.leBytes w) vs ++ rest := by
      exact List.drop_left' hl
    have htake : (Rle.leBytes w v ++ (List.flatMap (Rle.leBytes w) vs ++ rest)).take w = Rle.leBytes w v := by
      exact List.take_left' hl
    rw [hdrop, htake]
    simp only [encodeFixed] at ih'
    rw [ih', le_leBytes w v hv]

example : decodePage .int32 true 4 [2, 0, 0, 0, 8, 1,  7, 0, 0, 0,  255, 255, 255, 255, 3, 0, 0, 0, 9, 0, 0, 0] =
    some [some (.int 7), some (.int (-1)), some (.int 3), some (.int 9)] := by decide
example : decodePage .int64 true 3 [4, 0, 0, 0, 2, 1, 4, 0,  5, 0, 0, 0, 0, 0, 0, 0] = some [some (.int 5), none, none] := by decide

end Pages

end GlareModel.Props.C10
