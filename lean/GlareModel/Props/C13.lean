import GlareModel.Core.Cast

/-! # C13 — Casts are exact-or-error and text round-trips every value -/
namespace GlareModel.Props.C13
open GlareModel.Arith GlareModel.Cast

/-- Integer-to-integer casts: identity when representable, otherwise no value. -/
theorem int_cast_exact_or_none (dst : IntTy) (v : Int) :
    (dst.inRange v = true → intToInt dst v = some v) ∧ (dst.inRange v = false → intToInt dst v = none) := by
  unfold intToInt; constructor <;> intro h <;> simp [h]

/-- A decimal rescale never produces more digits than the target precision allows. -/
theorem rescale_precision_respected (src dst : DecTy) (v r : Int) (h : rescale src dst v = some r) :
    r.natAbs < 10 ^ dst.prec := by
  have := (rescale_some h).2
  simpa [validPrec] using this

/-- Rounding division used by the down-scaling branch, on naturals: `q = (n + h) / (2h)` is the
nearest multiple, ties upward. -/
theorem round_nat (n h : Nat) (hpos : 0 < h) :
    (n + h) / (2 * h) * (2 * h) ≤ n + h ∧ n + h < (n + h) / (2 * h) * (2 * h) + 2 * h := by
  have h1 := Nat.div_add_mod (n + h) (2 * h)
  have h2 := Nat.mod_lt (n + h) (show 0 < 2 * h by omega)
  have h3 : 2 * h * ((n + h) / (2 * h)) = (n + h) / (2 * h) * (2 * h) := Nat.mul_comm _ _
  omega

/-- `(v ± amt/2) tdiv amt` with `amt = 2h` is round-half-away-from-zero: the result `r`
satisfies `2·|r·amt − v| ≤ amt`, and on a tie `|r·amt| > |v|`. -/
theorem roundAdj_half_away (v : Int) (h : Nat) (hpos : 0 < h) :
    let amt : Int := ((2 * h : Nat) : Int)
    let r := Int.tdiv (roundAdj v amt) amt
    2 * (r * amt - v).natAbs ≤ 2 * h ∧ (2 * (r * amt - v).natAbs = 2 * h → (r * amt).natAbs > v.natAbs) := by
  intro amt r
  have hhalf : Int.tdiv amt 2 = (h : Int) := by
    show Int.tdiv ((2 * h : Nat) : Int) 2 = (h : Int)
    have : ((2 * h : Nat) : Int) = 2 * (h : Int) := by omega
    rw [this]; exact Int.mul_tdiv_cancel_left _ (by decide)
  by_cases hv : v ≥ 0
  · obtain ⟨n, rfl⟩ : ∃ n : Nat, v = n := ⟨v.toNat, by omega⟩
    have hr : r = (((n + h) / (2 * h) : Nat) : Int) := by
      show Int.tdiv (roundAdj (n : Int) amt) amt = _
      simp only [roundAdj, hv, if_true, hhalf]
      have : ((n : Int) + (h : Int)) = ((n + h : Nat) : Int) := by omega
      rw [this]
      show Int.tdiv ((n + h : Nat) : Int) ((2 * h : Nat) : Int) = _
      exact (Int.ofNat_tdiv _ _).symm
    have rn := round_nat n h hpos
    have e : r * amt = (((n + h) / (2 * h) * (2 * h) : Nat) : Int) := by
      rw [hr]; show _ * ((2 * h : Nat) : Int) = _; rw [← Int.natCast_mul]
    rw [e]
    generalize (n + h) / (2 * h) * (2 * h) = P at *
    omega
  · obtain ⟨n, rfl, hn⟩ : ∃ n : Nat, v = -(n : Int) ∧ 0 < n := ⟨(-v).toNat, by omega, by omega⟩
    have hr : r = -(((n + h) / (2 * h) : Nat) : Int) := by
      show Int.tdiv (roundAdj (-(n : Int)) amt) amt = _
      simp only [roundAdj, hv, if_false, hhalf]
      have : (-(n : Int) - (h : Int)) = -((n + h : Nat) : Int) := by omega
      rw [this, Int.neg_tdiv]
      show -Int.tdiv ((n + h : Nat) : Int) ((2 * h : Nat) : Int) = _
      rw [← Int.ofNat_tdiv]
    have rn := round_nat n h hpos
    have e : r * amt = -(((n + h) / (2 * h) * (2 * h) : Nat) : Int) := by
      rw [hr]; show -_ * ((2 * h : Nat) : Int) = _; rw [Int.neg_mul, ← Int.natCast_mul]
    rw [e]
    generalize (n + h) / (2 * h) * (2 * h) = P at *
    omega

/-- Down-scaling casts (and `round(x, n)`) return `roundAdj`-rounded values: the value the
code computes when reducing the scale by `k ≥ 1` digits is the half-away-from-zero rounding. -/
theorem rescale_down_is_round (src dst : DecTy) (v r : Int) (hk : dst.scale < src.scale)
    (h : rescale src dst v = some r) :
    r = Int.tdiv (roundAdj v ((10 ^ (src.scale - dst.scale).toNat : Nat) : Int)) ((10 ^ (src.scale - dst.scale).toNat : Nat) : Int) := by
  have hpos : src.scale - dst.scale > 0 := by omega
  have hnl : ¬ (src.scale - dst.scale < 0) := by omega
  have hc := (rescale_some h).1
  simp only [rescaleCore, hnl, hpos, if_true, if_false] at hc
  split at hc
  · simp only [Option.some.injEq] at hc
    exact hc.symm
  · cases hc

/-- Booleans: text round trip. -/
theorem parse_format_bool (b : Bool) : parseBool (formatBool b) = some b := by
  cases b <;> decide

/-- After the F22 repair `DecimalParser` rejects strings without any digit, and (F32) a value
whose zero-padded form exceeds the precision. -/
theorem decimal_parser_rejects_no_digits :
    parseDecimal 10 2 ['-'] = none ∧ parseDecimal 10 2 [] = none ∧ parseDecimal 10 2 ['.'] = none ∧
      parseDecimal 4 2 "123".toList = none := by
  refine ⟨?_, ?_, ?_, ?_⟩ <;> decide

/-- Finding F23: text → decimal truncates extra fraction digits while decimal → decimal rounds. -/
theorem decimal_parser_truncates :
    parseDecimal 4 2 "1.999".toList = some 199 ∧ rescale ⟨64, 4, 3⟩ ⟨64, 4, 2⟩ 1999 = some 200 := by
  constructor <;> decide

/-! Non-vacuity -/
example : rescale ⟨64, 5, 2⟩ ⟨64, 4, 1⟩ (-135) = some (-14) := by decide
example : rescale ⟨64, 6, 3⟩ ⟨64, 4, 2⟩ 123456 = none := by decide   -- 123.46 does not fit DECIMAL(4,2)

/-! ## Integer text round trip (`cast/format.rs` then `cast/parse.rs`), for every width and value -/

theorem digitVal_digitChar (d : Nat) (h : d < 10) : digitVal (digitChar d) = some d := by
  have : d = 0 ∨ d = 1 ∨ d = 2 ∨ d = 3 ∨ d = 4 ∨ d = 5 ∨ d = 6 ∨ d = 7 ∨ d = 8 ∨ d = 9 := by omega
  rcases this with h | h | h | h | h | h | h | h | h | h <;> subst h <;> decide

def stepD (acc : Option Nat) (c : Char) : Option Nat :=
  match acc, digitVal c with
  | some a, some d => some (a * 10 + d)
  | _, _ => none

theorem natDigits_lt (n : Nat) : ∀ d ∈ natDigits n, d < 10 := by
  fun_induction natDigits n with
  | case1 n h => intro d hd; simp at hd; omega
  | case2 n h ih =>
    intro d hd
    rcases List.mem_append.mp hd with hd | hd
    · exact ih d hd
    · simp at hd; omega

theorem natDigits_ne_nil (n : Nat) : natDigits n ≠ [] := by
  fun_induction natDigits n with
  | case1 n h => simp
  | case2 n h ih => simp

theorem fold_digits (n : Nat) (a : Nat) :
    ((natDigits n).map digitChar).foldl stepD (some a) = some (a * 10 ^ (natDigits n).length + n) := by
  fun_induction natDigits n generalizing a with
  | case1 n h =>
    simp [stepD, digitVal_digitChar n h]
  | case2 n h ih =>
    rw [List.map_append, List.foldl_append, ih]
    simp only [List.map_cons, List.map_nil, List.foldl_cons, List.foldl_nil, stepD,
      digitVal_digitChar (n % 10) (Nat.mod_lt _ (by decide)), List.length_append, List.length_cons, List.length_nil]
    congr 1
    rw [Nat.pow_succ]
    have := Nat.div_add_mod n 10
    generalize 10 ^ (natDigits (n / 10)).length = p at *
    have e1 : (a * p + n / 10) * 10 + n % 10 = a * p * 10 + (10 * (n / 10) + n % 10) := by
      rw [Nat.add_mul]; omega
    rw [e1, this, Nat.mul_assoc]


theorem parseDigits_eq_fold (cs : List Char) (h : cs ≠ []) : parseDigits cs = cs.foldl stepD (some 0) := by
  cases cs with
  | nil => exact absurd rfl h
  | cons c cs => rfl

/-- **Every natural number survives formatting and parsing.** -/
theorem parse_format_nat (n : Nat) : parseDigits (formatNat n) = some n := by
  unfold formatNat
  rw [parseDigits_eq_fold _ (by simp [natDigits_ne_nil])]
  rw [fold_digits]
  simp

theorem formatNat_head (n : Nat) : ∃ d cs, d < 10 ∧ formatNat n = digitChar d :: cs := by
  unfold formatNat
  cases h : natDigits n with
  | nil => exact absurd h (natDigits_ne_nil n)
  | cons d ds =>
    exact ⟨d, ds.map digitChar, natDigits_lt n d (by rw [h]; simp), by simp⟩

theorem digitChar_ne_sign (d : Nat) (h : d < 10) : digitChar d ≠ '-' ∧ digitChar d ≠ '+' := by
  have : d = 0 ∨ d = 1 ∨ d = 2 ∨ d = 3 ∨ d = 4 ∨ d = 5 ∨ d = 6 ∨ d = 7 ∨ d = 8 ∨ d = 9 := by omega
  rcases this with h | h | h | h | h | h | h | h | h | h <;> subst h <;> decide

/-- **Every integer of every width survives formatting and parsing**: for a value in the range of
the type, parsing the formatted text gives the value back (sign, digits, range check). -/
theorem parse_format_int (t : IntTy) (v : Int) (h : t.inRange v = true) : parseInt t (formatInt v) = some v := by
  unfold formatInt
  by_cases hv : v < 0
  · simp only [hv, if_true]
    have hs : t.signed = true := by
      cases hsg : t.signed
      · simp [IntTy.inRange, IntTy.lo, hsg] at h
        omega
      · rfl
    have hneg : -((v.natAbs : Nat) : Int) = v := by omega
    simp only [parseInt, hs, if_true, parse_format_nat, hneg, h]
  · simp only [hv, if_false]
    obtain ⟨d, cs, hd, hfmt⟩ := formatNat_head v.natAbs
    have hpos : ((v.natAbs : Nat) : Int) = v := by omega
    have hp := parse_format_nat v.natAbs
    rw [hfmt] at hp ⊢
    obtain ⟨h1, h2⟩ := digitChar_ne_sign d hd
    unfold parseInt
    split
    · rename_i rest heq
      injection heq with hc _
      exact absurd hc h1
    · rename_i rest heq
      injection heq with hc _
      exact absurd hc h2
    · simp [hp, hpos, h]

end GlareModel.Props.C13
