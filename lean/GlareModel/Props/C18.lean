import GlareModel.Core.Unify
/-! # C18 — The announced schema is the schema of the rows produced

Theorems over the implicit-cast table generated from the running code
(`Generated/CastTable.lean`, rewritten by `tools/gen_tables.py` on every run, so a changed cast
rule changes the statements these proofs are about) and over the decimal result-type model. -/
namespace GlareModel.Props.C18
open GlareModel GlareModel.Generated GlareModel.Unify

/-- The enumeration used by the bounded quantifiers below is complete. -/
theorem all_complete (t : TyId) : t ∈ TyId.all := by cases t <;> decide

/-- An exact match always beats any implicit cast in overload resolution. -/
theorem no_cast_preferred : ∀ e ∈ castScores, e.2.2 < noCastScore := by decide +kernel

/-- The score of an implicit cast depends only on the target type: resolution never prefers a
signature because of *where* a value comes from. -/
theorem score_depends_only_on_target :
    ∀ e ∈ castScores, ∀ f ∈ castScores, e.2.1 = f.2.1 → e.2.2 = f.2.2 := by decide +kernel

/-- Implicit integer casts are widening (never signed→unsigned, never to a narrower type). -/
theorem int_implicit_widening : ∀ e ∈ castScores, intCastWidening e.1 e.2.1 = true := by decide +kernel

/-- No implicit cast turns a fractional type (float, decimal) into an integer type. -/
theorem no_fractional_to_int :
    ∀ e ∈ castScores, isFractional e.1 = true → (isSignedInt e.2.1).isNone ∧ (isUnsignedInt e.2.1).isNone := by
  decide +kernel

/-- What `unify_spec` asserts for one pair of branch types. -/
def unifyOk (a b : TyId) : Bool :=
  match unifyId a b with
  | none => (implicitScore a b).isNone && (implicitScore b a).isNone
  | some t => (t == a && (implicitScore b a).isSome) || (t == b && (implicitScore a b).isSome)

/-- UNION unification is a function of the two branch types; it fails exactly when neither branch
can be implicitly cast to the other, and otherwise yields one of the two types, to which the
other branch has an implicit cast - so both branches end up with one announced type. -/
theorem unify_spec : ∀ a ∈ TyId.all, ∀ b ∈ TyId.all, unifyOk a b = true := by
  decide +kernel

/-- For branch types with different ids the unified type does not depend on the order of the
branches. -/
theorem unify_symmetric : ∀ a ∈ TyId.all, ∀ b ∈ TyId.all, a ≠ b → unifyId a b = unifyId b a := by
  decide +kernel

/-- For every pair of types the statement of `unify_spec` / `unify_symmetric` holds (lifting the
bounded quantifiers with `all_complete`). -/
theorem unify_symmetric_all (a b : TyId) (h : a ≠ b) : unifyId a b = unifyId b a :=
  unify_symmetric a (all_complete a) b (all_complete b) h

/-! ## Decimal `+`/`-`: the type announced at bind time vs. the type of the produced array -/

open GlareModel.Arith in
/-- The defect of the pinned commit (F46): binding `+` a second time on operands already cast to
the announced type yields a wider type - `DECIMAL(5,2) + DECIMAL(5,2)` announces `(6,2)`, the
produced array is `(7,2)`. -/
theorem rebind_changes_type :
    announced 64 (.dec ⟨64, 5, 2⟩) (.dec ⟨64, 5, 2⟩) = some ⟨64, 6, 2⟩ ∧
    producedPinned 64 (.dec ⟨64, 5, 2⟩) (.dec ⟨64, 5, 2⟩) = some ⟨64, 7, 2⟩ := by decide

open GlareModel.Arith in
/-- The repaired planner produces exactly the announced type, for all operand types. -/
theorem produced_eq_announced (bits : Nat) (l r : NumTy) : producedFixed bits l r = announced bits l r := rfl

end GlareModel.Props.C18
