import GlareModel.Core.Sem
import GlareModel.Core.Directory
/-! # C07 — Grouping, aggregates and duplicate elimination are exact per group

Aggregate states as in `functions/aggregate/builtin/{minmax,count,sum}.rs`: a value plus a
`valid` flag (`none` = no non-NULL input seen yet); `update` for one input, `merge` for two
partial states. NULL inputs are skipped by the executor, so inputs here are the non-NULL values. -/
namespace GlareModel.Props.C07

/-- `MaxStatePrimitive` / `MinStatePrimitive` over a linear order given by `better`. -/
def mmUpdate (better : Int → Int → Bool) (s : Option Int) (x : Int) : Option Int :=
  match s with
  | none => some x
  | some m => some (if better x m then x else m)

/-- `merge`: an invalid (`none`) partial state is ignored — it must not contribute its default value. -/
def mmMerge (better : Int → Int → Bool) (a b : Option Int) : Option Int :=
  match a, b with
  | none, b => b
  | a, none => a
  | some x, some y => some (if better y x then y else x)

def gt (a b : Int) : Bool := a > b
def lt (a b : Int) : Bool := a < b

theorem max_fold_from (s : Option Int) (ys : List Int) :
    ys.foldl (mmUpdate gt) s = mmMerge gt s (ys.foldl (mmUpdate gt) none) := by
  induction ys generalizing s with
  | nil => cases s <;> rfl
  | cons y ys ih =>
    simp only [List.foldl_cons]
    rw [ih (mmUpdate gt s y), ih (mmUpdate gt none y)]
    cases s with
    | none => rfl
    | some m =>
      cases h : ys.foldl (mmUpdate gt) none with
      | none => simp [mmUpdate, mmMerge]
      | some r =>
        simp only [mmUpdate, mmMerge, gt]
        congr 1
        by_cases h1 : y > m <;> by_cases h2 : r > y <;> by_cases h3 : r > m <;> simp [h1, h2, h3] <;> omega

/-- **max is a homomorphism over any split of the input**: aggregating two partitions
separately and merging the partial states equals aggregating everything in one pass — including
partitions that saw no (non-NULL) row. -/
theorem max_split (xs ys : List Int) :
    mmMerge gt (xs.foldl (mmUpdate gt) none) (ys.foldl (mmUpdate gt) none) = (xs ++ ys).foldl (mmUpdate gt) none := by
  rw [List.foldl_append, max_fold_from (xs.foldl (mmUpdate gt) none) ys]

theorem min_fold_from (s : Option Int) (ys : List Int) :
    ys.foldl (mmUpdate lt) s = mmMerge lt s (ys.foldl (mmUpdate lt) none) := by
  induction ys generalizing s with
  | nil => cases s <;> rfl
  | cons y ys ih =>
    simp only [List.foldl_cons]
    rw [ih (mmUpdate lt s y), ih (mmUpdate lt none y)]
    cases s with
    | none => rfl
    | some m =>
      cases h : ys.foldl (mmUpdate lt) none with
      | none => simp [mmUpdate, mmMerge]
      | some r =>
        simp only [mmUpdate, mmMerge, lt]
        congr 1
        by_cases h1 : y < m <;> by_cases h2 : r < y <;> by_cases h3 : r < m <;> simp [h1, h2, h3] <;> omega

theorem min_split (xs ys : List Int) :
    mmMerge lt (xs.foldl (mmUpdate lt) none) (ys.foldl (mmUpdate lt) none) = (xs ++ ys).foldl (mmUpdate lt) none := by
  rw [List.foldl_append, min_fold_from (xs.foldl (mmUpdate lt) none) ys]

/-- The result of max is an element of the input and dominates every element (so a negative
maximum can never be replaced by a default `0`). -/
theorem max_is_maximum (xs : List Int) (m : Int) (h : xs.foldl (mmUpdate gt) none = some m) :
    m ∈ xs ∧ ∀ x ∈ xs, x ≤ m := by
  have key : ∀ (ys : List Int) (s : Option Int) (r : Int), ys.foldl (mmUpdate gt) s = some r →
      (r ∈ ys ∨ s = some r) ∧ (∀ x ∈ ys, x ≤ r) ∧ (∀ v, s = some v → v ≤ r) := by
    intro ys
    induction ys with
    | nil => intro s r h; simp at h; subst h; simp
    | cons y ys ih =>
      intro s r h
      simp only [List.foldl_cons] at h
      have := ih _ _ h
      cases s with
      | none =>
        simp only [mmUpdate] at this
        rcases this with ⟨h1, h2, h3⟩
        refine ⟨?_, ?_, ?_⟩
        · rcases h1 with h1 | h1
          · exact Or.inl (List.mem_cons_of_mem _ h1)
          · simp at h1; subst h1; exact Or.inl (List.mem_cons_self)
        · intro x hx
          rcases List.mem_cons.1 hx with rfl | hx
          · exact h3 _ rfl
          · exact h2 x hx
        · intro v hv; cases hv
      | some m0 =>
        simp only [mmUpdate, gt] at this
        rcases this with ⟨h1, h2, h3⟩
        have h3' := h3 _ rfl
        refine ⟨?_, ?_, ?_⟩
        · rcases h1 with h1 | h1
          · exact Or.inl (List.mem_cons_of_mem _ h1)
          · simp only [Option.some.injEq] at h1
            by_cases c : y > m0
            · simp only [c, decide_true, if_true] at h1; subst h1; exact Or.inl List.mem_cons_self
            · simp only [c, decide_false, Bool.false_eq_true, if_false] at h1; subst h1; exact Or.inr rfl
        · intro x hx
          rcases List.mem_cons.1 hx with rfl | hx
          · by_cases c : x > m0
            · simp only [c, decide_true, if_true] at h3'; exact h3'
            · simp only [c, decide_false, Bool.false_eq_true, if_false] at h3'; omega
          · exact h2 x hx
        · intro v hv
          simp only [Option.some.injEq] at hv
          rw [← hv]
          by_cases c : y > m0
          · simp only [c, decide_true, if_true] at h3'; omega
          · simp only [c, decide_false, Bool.false_eq_true, if_false] at h3'; exact h3'
  have := key xs none m h
  rcases this with ⟨h1, h2, _⟩
  refine ⟨?_, h2⟩
  rcases h1 with h1 | h1
  · exact h1
  · cases h1

/-- count is a homomorphism: counts of partitions add up. -/
theorem count_split (xs ys : List Int) : (xs ++ ys).length = xs.length + ys.length := List.length_append

example : mmMerge gt (some (-7)) none = some (-7) := rfl   -- an invalid partial state never turns -7 into 0

/-! ## The hash table directory never fills up (`hash_table/directory.rs`)

Model: `Core/Directory.lean`, tied to the real `Directory` (needs_resize, resize, probing) by
`gvh directory` through a cfg hook. -/
section DirectoryCapacity
open GlareModel.Directory

theorem nextPow2From_ge (p n fuel : Nat) (hp : 0 < p) (hf : n ≤ p + fuel) : n ≤ nextPow2From p n fuel := by
  induction fuel generalizing p with
  | zero => simpa [nextPow2From] using hf
  | succ f ih =>
    simp only [nextPow2From]
    split
    · assumption
    · exact ih (2 * p) (by omega) (by omega)

theorem nextPow2_ge (n : Nat) : n ≤ nextPow2 n := by
  unfold nextPow2
  exact nextPow2From_ge 1 n n (by omega) (by omega)

/-- **The directory never fills up completely**: after every batch there is at least one empty
slot, for every sequence of batch sizes and numbers of new groups - so a linear probe always ends at
the row's group or at an empty slot and "Hash table completely full" is unreachable. -/
theorem batch_not_full (d : Dir) (n newGroups : Nat) (h : d.occupied < d.cap) :
    (batch d n newGroups).occupied < (batch d n newGroups).cap := by
  unfold batch
  simp only
  split
  · have := nextPow2_ge (max (d.cap * 2) (n + d.cap))
    have h1 : n + d.cap ≤ max (d.cap * 2) (n + d.cap) := Nat.le_max_right _ _
    have h2 : min newGroups n ≤ n := Nat.min_le_right _ _
    omega
  · rename_i hr
    simp [needsResize] at hr
    have h2 : min newGroups n ≤ n := Nat.min_le_right _ _
    by_cases hn : n = 0
    · subst hn; simp; exact h
    · omega

theorem batches_not_full (bs : List (Nat × Nat)) (d : Dir) (h : d.occupied < d.cap) :
    (bs.foldl (fun d b => batch d b.1 b.2) d).occupied < (bs.foldl (fun d b => batch d b.1 b.2) d).cap := by
  induction bs generalizing d with
  | nil => exact h
  | cons b bs ih => exact ih _ (batch_not_full d b.1 b.2 h)

/-- From the initial directory: for every history of batches. -/
theorem directory_never_full (bs : List (Nat × Nat)) :
    (bs.foldl (fun d b => batch d b.1 b.2) init).occupied < (bs.foldl (fun d b => batch d b.1 b.2) init).cap :=
  batches_not_full bs init (by decide)

/-- The capacity only grows (a resize never discards slots). -/
theorem batch_cap_mono (d : Dir) (n newGroups : Nat) : d.cap ≤ (batch d n newGroups).cap := by
  unfold batch
  simp only
  split
  · have := nextPow2_ge (max (d.cap * 2) (n + d.cap))
    have h1 : d.cap * 2 ≤ max (d.cap * 2) (n + d.cap) := Nat.le_max_left _ _
    omega
  · exact Nat.le_refl _

example : (batch init 2048 2048).cap = 4096 ∧ (batch init 300 300).cap = 512 ∧ (batch (batch init 300 300) 100 100).cap = 1024 := by decide

end DirectoryCapacity

end GlareModel.Props.C07
