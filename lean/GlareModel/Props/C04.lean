import GlareModel.Core.Proto
import GlareModel.Core.ExecStack
import GlareModel.Core.Materialize
import GlareModel.Proofs.ExecStack
/-! # C04 — Every schedule terminates with the same result; no wake-up is lost

Invariants of the scheduling protocol models, proved for every reachable state, i.e. for every
interleaving of wakes (including spurious and repeated ones), worker steps and cancellation. -/
namespace GlareModel.Props.C04
open GlareModel GlareModel.Proto

/-! ## Thread-pool task -/

structure TaskInv (s : Task) : Prop where
  phase_running : s.phase ≠ .idle → s.running = true
  completed_idle : s.completed = true → s.phase = .idle
  pending_running : s.pending = true → s.running = true
  /-- no lost wake: a wake that arrived after the last poll started is followed by another poll -/
  owed_served : s.owed = true → s.completed = false → s.canceled = false → s.pending = true ∨ s.phase = .spawned
  never_polled_after_complete : s.pollsAfterComplete = 0

theorem task_inv_init : TaskInv {} := by
  constructor <;> simp

theorem task_inv_step (s : Task) (a : Act) (h : TaskInv s) : TaskInv (step s a) := by
  obtain ⟨h1, h2, h3, h4, h5⟩ := h
  cases a with
  | wake =>
    simp only [step, schedule]
    split
    · exact ⟨h1, h2, h3, h4, h5⟩
    · split
      · exact ⟨h1, h2, h3, by intro _ _ hc; simp_all, h5⟩
      · split
        · constructor <;> simp_all
        · constructor <;> simp_all
  | cancel =>
    simp only [step, schedule]
    split
    · constructor <;> simp_all
    · constructor <;> simp_all
  | workerBegin =>
    simp only [step]
    split
    · rename_i hp
      constructor
      · intro _; exact h1 (by simp [hp])
      · intro hc; have := h2 hc; simp_all
      · exact h3
      · simp
      · have hnc : s.completed = false := by
          cases hc : s.completed
          · rfl
          · have := h2 hc; simp_all
        simp [hnc, h5]
    · exact ⟨h1, h2, h3, h4, h5⟩
  | workerEnd r =>
    simp only [step]
    split
    · rename_i hp
      have hrun : s.running = true := h1 (by simp [hp])
      by_cases hpend : s.pending = true
      · simp only [hpend, if_true]
        by_cases hr : (r == PollResult.ready) = true
        · simp only [hr, if_true]
          constructor <;> simp_all
        · simp only [hr]
          constructor <;> simp_all
      · have hpf : s.pending = false := by simpa using hpend
        simp only [hpf]
        have howed : s.owed = true → s.completed = false → s.canceled = false → False := by
          intro ho hc hk
          rcases h4 ho hc hk with hx | hx
          · simp_all
          · simp_all
        constructor
        · simp
        · simp
        · intro hx; simp_all
        · intro ho hc hk
          -- the poll that just ended was not followed by a wake: owed is false unless completed/canceled
          have hcompl : s.completed = false := by
            cases hc' : s.completed
            · rfl
            · have := h2 hc'; simp_all
          exact absurd (howed ho hcompl hk) id
        · exact h5
    · exact ⟨h1, h2, h3, h4, h5⟩

/-- The invariant holds in every reachable state: for every schedule of wakes, cancellations and
worker steps. -/
theorem task_inv_reachable (acts : List Act) : TaskInv (run {} acts) := by
  suffices h : ∀ s, TaskInv s → TaskInv (run s acts) from h _ task_inv_init
  induction acts with
  | nil => intro s h; exact h
  | cons a as ih => intro s h; exact ih _ (task_inv_step s a h)

/-- **No wake-up is lost**: in every reachable state, a wake that arrived after the last poll
began (and the task is neither completed nor cancelled) is recorded: either `pending` is set, so the
worker loops once more, or a worker run is already queued. -/
theorem task_no_lost_wake (acts : List Act) :
    let s := run {} acts
    s.owed = true → s.completed = false → s.canceled = false → s.pending = true ∨ s.phase = .spawned :=
  (task_inv_reachable acts).owed_served

/-- **A finished task is never run again**: no schedule polls a task after it completed. -/
theorem task_never_polled_after_complete (acts : List Act) : (run {} acts).pollsAfterComplete = 0 :=
  (task_inv_reachable acts).never_polled_after_complete

/-- **Cancelling makes the stream end with an error**: whatever the task is doing (idle, queued,
in the middle of a poll), a cancellation of an uncompleted task reports the error to the sink in
the same step. -/
theorem cancel_reports_error (s : Task) (h : s.completed = false) : (step s .cancel).errorSet = true := by
  simp [step, schedule, h]

/-- **An error in a task reaches the client**: the poll's error is pushed to the error sink. -/
theorem poll_error_reported (s : Task) (h : s.phase = .executing) : (step s (.workerEnd .err)).errorSet = true := by
  simp only [step, h, if_true]
  split <;> (try split) <;> simp

example : (run {} [.wake, .workerBegin, .wake, .workerEnd .pending]).phase = .spawned := by decide

/-! ## Phase barrier -/

structure BarrierInv (b : Barrier) : Prop where
  flag_zero : b.flag = true → b.remaining = 0
  /-- a parked partition that has not been woken has its waker stored and the flag is not set -/
  parked_ok : ∀ p, b.parked p = true → b.woken p = false → b.flag = false ∧ b.stored p = true

theorem barrier_inv_init (n : Nat) : BarrierInv (Barrier.init n) := by
  constructor <;> simp [Barrier.init]

theorem barrier_inv_step (b : Barrier) (a : BAct) (h : BarrierInv b) : BarrierInv (bstep b a) := by
  obtain ⟨h1, h2⟩ := h
  cases a with
  | arrive p =>
    simp only [bstep]
    split
    · constructor
      · simp
      · intro q hq hw
        simp only [Bool.or_eq_false_iff] at hw
        have := h2 q hq hw.1
        simp_all
    · constructor
      · intro hf
        have := h1 hf
        simp_all
      · exact h2
  | await p =>
    simp only [bstep]
    split
    · rename_i hf
      constructor
      · exact h1
      · intro q hq hw
        by_cases hqp : q = p
        · simp [hqp] at hq
        · simp only [hqp, if_false] at hq
          exact h2 q hq hw
    · rename_i hf
      constructor
      · exact h1
      · intro q hq hw
        by_cases hqp : q = p
        · subst hqp; simp_all
        · simp only [hqp, if_false] at hq hw ⊢
          exact h2 q hq hw

theorem barrier_inv_reachable (n : Nat) (acts : List BAct) : BarrierInv (brun (Barrier.init n) acts) := by
  suffices h : ∀ b, BarrierInv b → BarrierInv (brun b acts) from h _ (barrier_inv_init n)
  induction acts with
  | nil => intro b h; exact h
  | cons a as ih => intro b h; exact ih _ (barrier_inv_step b a h)

/-- **No partition stays parked behind an open barrier**: for every number of partitions and every
interleaving of arrivals and polls, once the flag is set every parked partition has been woken -
a waker stored before the flag was set is woken by the `wake_all` of the critical section that
set it, and a later poll sees the flag. -/
theorem barrier_no_lost_wake (n : Nat) (acts : List BAct) (p : Nat) :
    let b := brun (Barrier.init n) acts
    b.flag = true → b.parked p = true → b.woken p = true := by
  intro b hf hp
  have h := (barrier_inv_reachable n acts).parked_ok p hp
  cases hw : b.woken p
  · have := (h hw).1
    rw [hf] at this
    exact absurd this (by simp)
  · rfl

/-- The defective variant (flag set without `wake_all`) loses a wake-up: partition 0 parks, the
single arrival opens the barrier, partition 0 is never woken. -/
theorem missing_wake_all_loses_wake :
    let b := [BAct.await 0, BAct.arrive 1].foldl bstepNoWake (Barrier.init 1)
    b.flag = true ∧ b.parked 0 = true ∧ b.woken 0 = false := by decide

example : (brun (Barrier.init 2) [.await 0, .arrive 1, .await 1, .arrive 0]).woken 0 = true := by decide

/-! ## Execution stack of a partition pipeline

`ExecutionStack::pop_next` (model: `Core/ExecStack.lean`, tied to the real stack by `gvh execstack`)
drives the operators of one partition. Other partitions wait on cross-partition barriers inside the
operators (the drain phase of a LEFT/RIGHT join waits for every probing partition to finalize), so
"every schedule terminates" needs: **a partition pipeline never finishes while one of its operators
has neither been finalized nor answered `Exhausted`**. The poll results are the script, so the
theorem covers every behaviour of the operators, every number of operators and every length of run.
The only hypothesis is the protocol the operators keep: the operator acting as the start of the
pipeline never answers `NeedsMore` (`broke = false`). -/

open GlareModel.ExecStack GlareModel.Proofs.ExecStack in
/-- **A finished pipeline has told every operator**: for every number of operators and every
sequence of poll results, when the repaired stack reports `Finished`, every operator but the source
has been finalized or has answered `Exhausted`, and no operator was finalized twice. -/
theorem stack_finished_all_finalized (n : Nat) (hn : 0 < n) (script : List Nat)
    (hb : (ExecStack.run true n script).broke = false)
    (hf : (ExecStack.run true n script).flow = .finished) :
    (∀ j, 1 ≤ j → j < n →
        j ∈ finalizedOps (ExecStack.run true n script).calls ∨ j ∈ exhaustedOps (ExecStack.run true n script).calls) ∧
      (finalizedOps (ExecStack.run true n script).calls).Nodup := by
  have h := fold_good n script init (good_init n hn) hb
  unfold Good Post at h
  unfold ExecStack.run at hf ⊢
  rw [hf] at h
  exact h

open GlareModel.ExecStack GlareModel.Proofs.ExecStack in
/-- **No operator is finalized twice** while the pipeline runs (any state that is not an error). -/
theorem stack_finalizes_once (n : Nat) (hn : 0 < n) (script : List Nat)
    (hb : (ExecStack.run true n script).broke = false)
    (hf : (ExecStack.run true n script).flow ≠ .error) :
    (finalizedOps (ExecStack.run true n script).calls).Nodup := by
  have h := fold_good n script init (good_init n hn) hb
  unfold Good Post at h
  unfold ExecStack.run at hf ⊢
  cases hfl : (List.foldl (ExecStack.step true n) init script).flow with
  | error => exact absurd hfl hf
  | finished => rw [hfl] at h; exact h.2
  | «continue» => rw [hfl] at h; exact h.2
  | pending => rw [hfl] at h; exact h.2

/-- The stack of the pinned commit (before the repair of F38/F64) violates it: four operators, the
source and operator 1 answer `Ready`, operator 2 (a LIMIT) answers `Exhausted`, the sink takes the
last batch and is finalized - the pipeline finishes and operator 1 (the probe side of a join) was
never finalized. The operators kept the protocol. -/
theorem old_stack_skips_finalize :
    let s := ExecStack.run false 4 [0, 0, 4, 0, 0]
    s.flow = .finished ∧ s.broke = false ∧
      1 ∉ ExecStack.finalizedOps s.calls ∧ 1 ∉ ExecStack.exhaustedOps s.calls := by decide

/-- The same script on the repaired stack: operator 1 is finalized (`f1`) before the sink runs. -/
example : ExecStack.trace true 4 [0, 0, 4, 0, 0, 0] = "e0:0 e1:0 e2:4 f1:0 e3:0 f3:0 end=1" := by decide

/-- Non-vacuity of the hypotheses: a run that finishes with the protocol kept. -/
example : (ExecStack.run true 4 [0, 0, 4, 0, 0, 0]).flow = .finished ∧ (ExecStack.run true 4 [0, 0, 4, 0, 0, 0]).broke = false := by decide

/-! ## Materialize: a consumer never finishes before it has seen every row, and never sleeps forever

Model: `Core/Materialize.lean` (`operators/materialize.rs`; tied to the code by the
`cte_materialized_*` shapes of the controlled-scheduler runs, where the materialization is scanned
two and three times under every schedule). -/
section Materialize
open GlareModel.Materialize

structure MatInv (m : Mat) : Prop where
  seen_le : ∀ c, m.seen c ≤ m.avail
  /-- a consumer that reported Exhausted has seen every row, and no row can arrive any more -/
  done_complete : ∀ c, m.phase c = .done → m.remaining = 0 ∧ m.seen c = m.avail
  /-- a parked consumer that has not been woken still has a producer that will wake it -/
  parked_has_waker : ∀ c, m.phase c = .parked → m.woken c = false → m.remaining > 0

theorem mat_inv_init (n : Nat) : MatInv { remaining := n } := by
  constructor <;> simp

theorem mat_inv_step (m : Mat) (a : Materialize.Act) (h : MatInv m) : MatInv (Materialize.step true m a) := by
  obtain ⟨h1, h2, h3⟩ := h
  cases a with
  | push =>
    simp only [Materialize.step]
    split
    · exact ⟨h1, h2, h3⟩
    · rename_i hr
      constructor
      · intro c; have := h1 c; simp; omega
      · intro c hc; have := h2 c hc; omega
      · intro c hc hw
        have hc' : m.phase c = .parked := hc
        simp [wakeAll] at hw
        exact absurd hc' hw.1
  | finalize =>
    simp only [Materialize.step]
    split
    · exact ⟨h1, h2, h3⟩
    · rename_i hr
      constructor
      · exact h1
      · intro c hc; have := h2 c hc; omega
      · intro c hc hw
        have hc' : m.phase c = .parked := hc
        simp [wakeAll] at hw
        exact absurd hc' hw.1
  | scan c =>
    simp only [Materialize.step]
    split
    · split
      · constructor
        · intro x; simp only; split <;> simp [h1]
        · intro x hx
          simp only at hx
          split at hx
          · simp at hx
          · rename_i hne
            have := h2 x hx
            simp [hne, this]
        · intro x hx hw
          simp only at hx hw
          split at hx
          · simp at hx
          · rename_i hne
            simp only [hne, if_false] at hw
            exact h3 x hx hw
      · constructor
        · exact h1
        · intro x hx
          simp only at hx
          split at hx
          · simp at hx
          · exact h2 x hx
        · intro x hx hw
          simp only at hx hw
          split at hx
          · simp at hx
          · rename_i hne
            simp only [hne, if_false] at hw
            exact h3 x hx hw
    · exact ⟨h1, h2, h3⟩
  | check c =>
    simp only [Materialize.step]
    split
    · rename_i hph
      split
      · rename_i hr
        constructor
        · exact h1
        · intro x hx
          simp only at hx
          split at hx
          · simp at hx
          · exact h2 x hx
        · intro x hx hw
          exact hr
      · rename_i hr
        have hr0 : m.remaining = 0 := by omega
        split
        · rename_i hs
          constructor
          · intro x; simp only; split <;> simp [h1]
          · intro x hx
            simp only at hx
            split at hx
            · simp at hx
            · rename_i hne
              have := h2 x hx
              simp [hne, this]
          · intro x hx hw
            simp only at hx
            split at hx
            · simp at hx
            · exact h3 x hx hw
        · rename_i hs
          constructor
          · exact h1
          · intro x hx
            simp only at hx
            split at hx
            · rename_i hxc
              subst hxc
              refine ⟨hr0, ?_⟩
              show m.seen x = m.avail
              have := h1 x
              simp at hs
              omega
            · exact h2 x hx
          · intro x hx hw
            simp only at hx
            split at hx
            · simp at hx
            · exact h3 x hx hw
    · exact ⟨h1, h2, h3⟩

theorem mat_inv_reachable (n : Nat) (acts : List Materialize.Act) : MatInv (Materialize.run true { remaining := n } acts) := by
  suffices h : ∀ m, MatInv m → MatInv (Materialize.run true m acts) from h _ (mat_inv_init n)
  induction acts with
  | nil => intro m h; exact h
  | cons a as ih => intro m h; exact ih _ (mat_inv_step m a h)


/-- **A consumer that reports Exhausted has seen every row**, for every number of producers and
consumers and every interleaving of appends, finishes, scans and locked checks - this is what the
second scan in `poll_pull` is for. -/
theorem materialize_done_saw_everything (n : Nat) (acts : List Materialize.Act) (c : Nat) :
    let m := Materialize.run true { remaining := n } acts
    m.phase c = .done → m.remaining = 0 ∧ m.seen c = m.avail :=
  (mat_inv_reachable n acts).done_complete c

/-- **No consumer sleeps forever**: a consumer that is parked and has not been woken still has a
producer that has not finished - and every push and every finish wakes all parked consumers. Once
all producers have finished nobody is parked un-woken. -/
theorem materialize_no_lost_wake (n : Nat) (acts : List Materialize.Act) (c : Nat) :
    let m := Materialize.run true { remaining := n } acts
    m.remaining = 0 → m.phase c = .parked → m.woken c = true := by
  intro m hr hp
  cases hw : m.woken c
  · have h := (mat_inv_reachable n acts).parked_has_waker c hp hw
    have hr' : (Materialize.run true { remaining := n } acts).remaining = 0 := hr
    omega
  · rfl

/-- Without the second scan a consumer loses rows: its scan finds nothing, the only producer then
flushes a row and finishes, the locked check sees no producers left and reports Exhausted. -/
theorem materialize_without_rescan_loses_rows :
    let m := Materialize.run false { remaining := 1 } [Materialize.Act.scan 0, .push, .finalize, .check 0]
    m.phase 0 = .done ∧ m.seen 0 = 0 ∧ m.avail = 1 := by decide

/-- The same schedule with the second scan: the consumer picks the row up and stays runnable. -/
example : (Materialize.run true { remaining := 1 } [Materialize.Act.scan 0, .push, .finalize, .check 0]).seen 0 = 1 := by decide
example : (Materialize.run true { remaining := 1 } [Materialize.Act.scan 0, .push, .finalize, .check 0, .scan 0, .check 0]).phase 0 = .done := by decide

end Materialize

end GlareModel.Props.C04
