import GlareModel.Core.CsvInfer
import GlareModel.Core.Csv

/-! # C17 — Reading a CSV file returns the RFC-4180 records -/
namespace GlareModel.Props.C17
open GlareModel.Csv

/-- **Chunk independence**: however the bytes are cut into read buffers (any sizes, cuts inside
quoted fields, between CR and LF, inside a code point), decoding chunk by chunk ends in the same
decoder state as decoding the whole input. -/
theorem decode_chunks (d q : Nat) (s : Dec) (chunks : List (List Nat)) :
    chunks.foldl (decode d q) s = decode d q s chunks.flatten := by
  induction chunks generalizing s with
  | nil => rfl
  | cons c cs ih =>
    simp only [List.foldl_cons, List.flatten_cons]
    rw [ih]
    simp [decode, List.foldl_append]

theorem run_chunk_independent (d q : Nat) (cs1 cs2 : List (List Nat)) (h : cs1.flatten = cs2.flatten) :
    run d q cs1 = run d q cs2 := by
  unfold run
  rw [decode_chunks, decode_chunks, h]

/-- Bytes of a field that needs no quoting: no delimiter, quote or line terminator. -/
def plainField (d q : Nat) (f : List Nat) : Prop := ∀ b ∈ f, b ≠ d ∧ b ≠ q ∧ isTerm b = false

theorem decode_plain_inField (d q : Nat) (s : Dec) (f : List Nat) (hf : plainField d q f) (hs : s.st = .inField) :
    decode d q s f = { s with field := f.reverse ++ s.field } := by
  induction f generalizing s with
  | nil => simp [decode]
  | cons b bs ih =>
    have hb := hf b List.mem_cons_self
    have hbs : plainField d q bs := fun x hx => hf x (List.mem_cons_of_mem _ hx)
    simp only [decode, List.foldl_cons]
    have hstep : step d q s b = { s with field := b :: s.field } := by
      simp [step, hs, hb.1, hb.2.2]
    rw [hstep]
    have := ih { s with field := b :: s.field } hbs hs
    simp only [decode] at this
    rw [this]
    simp

/-- A non-empty plain field followed by a line feed, at the start of a record, yields exactly the
one-field record `[f]` — the base case of parse ∘ render. -/
theorem single_field_record (d q : Nat) (f : List Nat) (b : Nat) (bs : List Nat) (hf : plainField d q (b :: bs))
    (hlf : d ≠ 10) :
    run d q [(b :: bs) ++ [10]] = [[b :: bs]] := by
  have hb := hf b List.mem_cons_self
  have hbs : plainField d q bs := fun x hx => hf x (List.mem_cons_of_mem _ hx)
  unfold run
  simp only [List.foldl_cons, List.foldl_nil]
  show records (finish (decode d q {} ((b :: bs) ++ [10]))) = _
  simp only [decode, List.cons_append, List.foldl_cons, List.foldl_append, List.foldl_nil]
  have h0 : step d q {} b = { st := .inField, field := [b] } := by
    simp [step, hb.1, hb.2.1, hb.2.2]
  rw [h0]
  have h1 := decode_plain_inField d q { st := .inField, field := [b] } bs hbs rfl
  simp only [decode] at h1
  rw [h1]
  simp [step, isTerm, Dec.endRecord, Dec.endField, finish, records]

/-- An empty line and the LF of a CRLF pair never create a record. -/
theorem empty_lines_skipped (d q : Nat) : run d q [[10, 13, 10, 10]] = [] := by
  simp [run, decode, step, isTerm, finish, records]

/-- The last record needs no terminator (finding F9, repaired): end of stream completes it. -/
theorem last_record_without_newline : run 44 34 [[97, 44, 98, 10, 99, 44, 100]] = [[[97], [98]], [[99], [100]]] := by
  decide

/-- Quoted fields: embedded delimiter, newline and doubled quote. -/
example : run 44 34 [[34, 97, 44, 10, 34, 34, 98, 34, 44, 99, 10]] = [[[97, 44, 10, 34, 98], [99]]] := by decide

/-! ## Type inference (`schema.rs`)

Model: `Core/CsvInfer.lean`, value parsers abstract. -/
section Inference
open GlareModel.CsvInfer

/-- A value only ever pushes a candidate up the ladder. -/
theorem update_widens (p : Parsers) (c : Cand) (s : String) : c.rank ≤ (update p c s).rank := by
  unfold update
  split
  · exact Nat.le_refl _
  · cases c <;> simp only <;> (repeat' split) <;> simp [Cand.rank]

theorem fold_widens (p : Parsers) (vals : List String) (c : Cand) : c.rank ≤ (vals.foldl (update p) c).rank := by
  induction vals generalizing c with
  | nil => exact Nat.le_refl _
  | cons v vs ih => exact Nat.le_trans (update_widens p c v) (ih _)

/-- **Sampling more rows can only widen a column's type**, never narrow it. -/
theorem infer_monotone (p : Parsers) (vals more : List String) :
    (inferCol p vals).rank ≤ (inferCol p (vals ++ more)).rank := by
  unfold inferCol
  rw [List.foldl_append]
  exact fold_widens p more _

/-- Empty fields (NULLs) never influence the inferred type. -/
theorem update_empty (p : Parsers) (c : Cand) : update p c "" = c := by
  simp [update]

/-- The parsers are *nested* when every boolean literal is an integer literal and every integer
literal a float literal. The second half holds for the engine's parsers, the first does not
(`true` is not an integer). -/
def Nested (p : Parsers) : Prop := (∀ s, p.okB s = true → p.okI s = true) ∧ (∀ s, p.okI s = true → p.okF s = true)

/-- The candidate accepts `s` or is one of the catch-alls above Float64. -/
def Accepts (p : Parsers) (c : Cand) (s : String) : Prop :=
  match c with
  | .boolean => p.okB s = true
  | .int64 => p.okI s = true
  | .float64 => p.okF s = true
  | .timestamp => True
  | .utf8 => True

theorem accepts_widen (p : Parsers) (hn : Nested p) (c c' : Cand) (s : String)
    (h : Accepts p c s) (hr : c.rank ≤ c'.rank) : Accepts p c' s := by
  obtain ⟨h1, h2⟩ := hn
  cases c <;> cases c' <;> simp_all [Accepts, Cand.rank]

theorem update_accepts (p : Parsers) (c : Cand) (s : String) (hs : s.isEmpty = false) :
    Accepts p (update p c s) s := by
  unfold update
  simp only [hs]
  cases c <;> simp only <;> (repeat' split) <;> simp_all [Accepts]

/-- **With nested parsers the ladder is sound**: the inferred candidate accepts every non-empty
sampled value (or is text). -/
theorem infer_fits_when_nested (p : Parsers) (hn : Nested p) (vals : List String) (c : Cand) :
    ∀ v ∈ vals, v.isEmpty = false → Accepts p (vals.foldl (update p) c) v := by
  induction vals generalizing c with
  | nil => intro v hv; cases hv
  | cons x xs ih =>
    intro v hv hne
    rcases List.mem_cons.mp hv with h | h
    · subst h
      exact accepts_widen p hn _ _ v (update_accepts p c v hne) (fold_widens p xs _)
    · exact ih _ v h hne

/-- A parser family shaped like the engine's: `true` is a boolean literal but not a number, `1` is a
number but not a boolean literal. -/
def sample : Parsers :=
  { okB := fun s => s == "true" || s == "false",
    okI := fun s => s == "1" || s == "2",
    okF := fun s => s == "1" || s == "2" || s == "1.5" }

/-- **The ladder is unsound for the engine's parsers**: a column holding `true` then `1` is inferred
as Int64, which does not accept `true` (reading the file then fails on a sampled value), while the
narrowest type that fits both values is text; and the answer depends on the order of the rows. -/
theorem ladder_unsound_bool_then_int :
    inferCol sample ["true", "1"] = .int64 ∧ isValid sample .int64 "true" = false ∧
    narrowestFitting sample ["true", "1"] = .utf8 ∧ inferCol sample ["1", "true"] = .utf8 := by decide


theorem isValid_accepts (p : Parsers) (c : Cand) (s : String) (h : isValid p c s = true) : Accepts p c s := by
  cases c <;> simp_all [isValid, Accepts]

/-- **The repaired inference is sound for any parsers**: the inferred type accepts every non-empty
sampled value (text accepts everything). -/
theorem inferFixed_fits (p : Parsers) (vals : List String) :
    ∀ v ∈ vals, v.isEmpty = false → Accepts p (inferColFixed p vals) v := by
  intro v hv hne
  unfold inferColFixed
  simp only
  split
  · rename_i hall
    have := List.all_eq_true.mp hall v hv
    simp [hne] at this
    exact isValid_accepts p _ v this
  · simp [Accepts]

/-- The ladder never climbs past a type that fits: if candidate `d` (boolean, integer or float)
accepts every non-empty sampled value, the ladder ends at `d` or below. -/
theorem ladder_never_overshoots (p : Parsers) (d : Cand) (hd : d.rank ≤ 2) (vals : List String) (c : Cand)
    (hc : c.rank ≤ d.rank) (hfit : ∀ v ∈ vals, v.isEmpty = false → isValid p d v = true) :
    (vals.foldl (update p) c).rank ≤ d.rank := by
  induction vals generalizing c with
  | nil => exact hc
  | cons x xs ih =>
    simp only [List.foldl_cons]
    refine ih _ ?_ (fun v hv => hfit v (List.mem_cons_of_mem _ hv))
    have hx := hfit x (List.mem_cons_self ..)
    unfold update
    split
    · exact hc
    · rename_i hne
      have hne' : x.isEmpty = false := by simpa using hne
      have hv := hx hne'
      cases hb : p.okB x <;> cases hi : p.okI x <;> cases hf : p.okF x <;>
        cases c <;> cases d <;> simp_all [Cand.rank, isValid]

/-- The repaired inference on the witness of `ladder_unsound_bool_then_int`: text, in both orders. -/
example : inferColFixed sample ["true", "1"] = .utf8 ∧ inferColFixed sample ["1", "true"] = .utf8 ∧
    inferColFixed sample ["1", "", "2"] = .int64 ∧ inferColFixed sample ["1", "1.5"] = .float64 := by decide

end Inference

end GlareModel.Props.C17
