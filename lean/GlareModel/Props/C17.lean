import GlareModel.Core.Csv

/-! # C17 — Reading a CSV file returns the RFC-4180 records -/
namespace GlareModel.Props.C17
open GlareModel.Csv

/-- **Chunk independence**: however the bytes are cut into read buffers (any sizes, cuts inside
quoted fields, between CR and LF, inside a code point), decoding chunk by chunk ends in the same
decoder state as decoding the whole input. -/
theorem decode_chunks (d q : Nat) (s : Dec) (chunks : List (List Nat)) :
    chunks.foldl (decode d q) s = decode d q s chunks.flatten := by
  induction chunks generalizing s with
  | nil => rfl
  | cons c cs ih =>
    simp only [List.foldl_cons, List.flatten_cons]
    rw [ih]
    simp [decode, List.foldl_append]

theorem run_chunk_independent (d q : Nat) (cs1 cs2 : List (List Nat)) (h : cs1.flatten = cs2.flatten) :
    run d q cs1 = run d q cs2 := by
  unfold run
  rw [decode_chunks, decode_chunks, h]

/-- Bytes of a field that needs no quoting: no delimiter, quote or line terminator. -/
def plainField (d q : Nat) (f : List Nat) : Prop := ∀ b ∈ f, b ≠ d ∧ b ≠ q ∧ isTerm b = false

theorem decode_plain_inField (d q : Nat) (s : Dec) (f : List Nat) (hf : plainField d q f) (hs : s.st = .inField) :
    decode d q s f = { s with field := f.reverse ++ s.field } := by
  induction f generalizing s with
  | nil => simp [decode]
  | cons b bs ih =>
    have hb := hf b List.mem_cons_self
    have hbs : plainField d q bs := fun x hx => hf x (List.mem_cons_of_mem _ hx)
    simp only [decode, List.foldl_cons]
    have hstep : step d q s b = { s with field := b :: s.field } := by
      simp [step, hs, hb.1, hb.2.2]
    rw [hstep]
    have := ih { s with field := b :: s.field } hbs hs
    simp only [decode] at this
    rw [this]
    simp

/-- A non-empty plain field followed by a line feed, at the start of a record, yields exactly the
one-field record `[f]` — the base case of parse ∘ render. -/
theorem single_field_record (d q : Nat) (f : List Nat) (b : Nat) (bs : List Nat) (hf : plainField d q (b :: bs))
    (hlf : d ≠ 10) :
    run d q [(b :: bs) ++ [10]] = [[b :: bs]] := by
  have hb := hf b List.mem_cons_self
  have hbs : plainField d q bs := fun x hx => hf x (List.mem_cons_of_mem _ hx)
  unfold run
  simp only [List.foldl_cons, List.foldl_nil]
  show records (finish (decode d q {} ((b :: bs) ++ [10]))) = _
  simp only [decode, List.cons_append, List.foldl_cons, List.foldl_append, List.foldl_nil]
  have h0 : step d q {} b = { st := .inField, field := [b] } := by
    simp [step, hb.1, hb.2.1, hb.2.2]
  rw [h0]
  have h1 := decode_plain_inField d q { st := .inField, field := [b] } bs hbs rfl
  simp only [decode] at h1
  rw [h1]
  simp [step, isTerm, Dec.endRecord, Dec.endField, finish, records]

/-- An empty line and the LF of a CRLF pair never create a record. -/
theorem empty_lines_skipped (d q : Nat) : run d q [[10, 13, 10, 10]] = [] := by
  simp [run, decode, step, isTerm, finish, records]

/-- The last record needs no terminator (finding F9, repaired): end of stream completes it. -/
theorem last_record_without_newline : run 44 34 [[97, 44, 98, 10, 99, 44, 100]] = [[[97], [98]], [[99], [100]]] := by
  decide

/-- Quoted fields: embedded delimiter, newline and doubled quote. -/
example : run 44 34 [[34, 97, 44, 10, 34, 34, 98, 34, 44, 99, 10]] = [[[97, 44, 10, 34, 98], [99]]] := by decide

end GlareModel.Props.C17
