import GlareModel.Core.Scan
/-! # C11 — Scan pushdown and multi-file scans only skip work, never change rows -/
namespace GlareModel.Props.C11
open GlareModel GlareModel.Scan
universe u v

/-! ## File / row-group assignment is a partition of the work list -/

theorem flatMap_congr_mem {β : Type u} {γ : Type v} (l : List β) (f g : β → List γ) (h : ∀ x ∈ l, f x = g x) :
    l.flatMap f = l.flatMap g := by
  induction l with
  | nil => rfl
  | cons x xs ih =>
    simp only [List.flatMap_cons]
    rw [h x (List.mem_cons_self ..), ih (fun y hy => h y (List.mem_cons_of_mem _ hy))]

/-- Adding `b` to the bucket `k` of a family of lists indexed by distinct ids containing `k`
adds exactly `b` to their concatenation. -/
theorem flatMap_insert_perm {β : Type u} (ps : List Nat) (hnd : ps.Nodup) (k : Nat) (hk : k ∈ ps)
    (f : Nat → List β) (b : β) :
    (ps.flatMap fun p => if p = k then b :: f p else f p).Perm (b :: ps.flatMap f) := by
  induction ps with
  | nil => simp at hk
  | cons q qs ih =>
    have hq : q ∉ qs := (List.nodup_cons.mp hnd).1
    have hqs : qs.Nodup := (List.nodup_cons.mp hnd).2
    by_cases h : q = k
    · subst h
      have hsame : (qs.flatMap fun p => if p = q then b :: f p else f p) = qs.flatMap f := by
        apply flatMap_congr_mem
        intro p hp
        have : p ≠ q := fun e => hq (e ▸ hp)
        simp [this]
      simp only [List.flatMap_cons, if_true, hsame, List.cons_append]
      exact List.Perm.refl _
    · have hk' : k ∈ qs := by
        rcases List.mem_cons.mp hk with h1 | h2
        · exact absurd h1.symm h
        · exact h2
      simp only [List.flatMap_cons, h, if_false]
      refine List.Perm.trans (List.Perm.append_left _ (ih hqs hk')) ?_
      exact List.perm_middle

/-- Splitting a list into `P` buckets by a key below `P` and concatenating the buckets gives a
permutation of the list. -/
theorem buckets_perm {β : Type u} (P : Nat) (key : β → Nat) (l : List β) (hkey : ∀ b ∈ l, key b < P) :
    ((List.range P).flatMap fun p => l.filter fun b => key b == p).Perm l := by
  induction l with
  | nil => simp
  | cons b l ih =>
    have hb : key b < P := hkey b (List.mem_cons_self ..)
    have ih' := ih (fun x hx => hkey x (List.mem_cons_of_mem _ hx))
    have hrw : ((List.range P).flatMap fun p => (b :: l).filter fun x => key x == p)
        = (List.range P).flatMap fun p => if p = key b then b :: (l.filter fun x => key x == p) else l.filter fun x => key x == p := by
      apply flatMap_congr_mem
      intro p _
      by_cases h : p = key b
      · subst h; simp
      · have : (key b == p) = false := by
          simp only [beq_eq_false_iff_ne, ne_eq]; exact fun e => h e.symm
        simp [List.filter_cons, this, h]
    rw [hrw]
    refine List.Perm.trans (flatMap_insert_perm _ List.nodup_range (key b) (List.mem_range.mpr hb) _ b) ?_
    exact List.Perm.cons b ih'

/-- **Every file (row group) is scanned by exactly one partition**: for any partition count
`P ≥ 1` the per-partition queues together are a permutation of the expanded file list - nothing is
dropped, nothing is read twice. -/
theorem queues_partition {α : Type u} (P : Nat) (hP : 0 < P) (xs : List α) :
    ((List.range P).flatMap fun p => queue P p xs).Perm xs := by
  unfold queue
  have h := buckets_perm P (fun e : α × Nat => e.2 % P) xs.zipIdx (fun (e : α × Nat) _ => Nat.mod_lt e.2 hP)
  have h2 := h.map (·.1)
  simp only [List.map_flatMap] at h2
  have hfst : xs.zipIdx.map (·.1) = xs := by simp [List.zipIdx_map_fst]
  rw [hfst] at h2
  exact h2

/-! ### The code shape (`skip(p).step_by(P)`) is the index-mod-P specification -/

theorem queueFrom_skip (P r : Nat) (m a : Nat) (l : List α) (h : ∀ j, j < m → (a + j) % P ≠ r) :
    queueFrom a P r l = queueFrom (a + m) P r (l.drop m) := by
  induction m generalizing a l with
  | zero => simp
  | succ m ih =>
    cases l with
    | nil => simp [queueFrom]
    | cons x xs =>
      have h0 : a % P ≠ r := by simpa using h 0 (by omega)
      have hrest : queueFrom a P r (x :: xs) = queueFrom (a + 1) P r xs := by
        simp [queueFrom, List.zipIdx_cons, List.filter_cons, h0]
      rw [hrest, ih (a + 1) xs (fun j hj => by have := h (j + 1) (by omega); rwa [Nat.add_assoc, Nat.add_comm 1 j])]
      simp [Nat.add_assoc, Nat.add_comm 1 m]

theorem stepBy_eq_queueFrom (P : Nat) (hP : 0 < P) (k : Nat) (xs : List α) :
    stepBy P xs = queueFrom k P (k % P) xs := by
  suffices h : ∀ n (xs : List α) (k : Nat), xs.length ≤ n → stepBy P xs = queueFrom k P (k % P) xs from
    h xs.length xs k (Nat.le_refl _)
  intro n
  induction n with
  | zero =>
    intro xs k hl
    have : xs = [] := List.eq_nil_of_length_eq_zero (by omega)
    subst this; simp [stepBy, queueFrom]
  | succ n ih =>
    intro xs k hl
    cases xs with
    | nil => simp [stepBy, queueFrom]
    | cons x rest =>
      rw [stepBy]
      have hhead : queueFrom k P (k % P) (x :: rest) = x :: queueFrom (k + 1) P (k % P) rest := by
        simp [queueFrom, List.zipIdx_cons, List.filter_cons]
      rw [hhead]
      congr 1
      have hskip := queueFrom_skip P (k % P) (P - 1) (k + 1) rest (by
        intro j hj
        have : (k + 1 + j) = k + (j + 1) := by omega
        rw [this]
        intro hc
        have h1 : (k + (j + 1)) % P = (k % P + (j + 1) % P) % P := Nat.add_mod _ _ _
        have h2 : (j + 1) % P = j + 1 := Nat.mod_eq_of_lt (by omega)
        have hk := Nat.mod_lt k hP
        rw [h1, h2] at hc
        by_cases hlt : k % P + (j + 1) < P
        · rw [Nat.mod_eq_of_lt hlt] at hc; omega
        · have : (k % P + (j + 1)) % P = k % P + (j + 1) - P := by
            rw [Nat.mod_eq_sub_mod (by omega), Nat.mod_eq_of_lt (by omega)]
          omega)
      rw [hskip]
      have hidx : k + 1 + (P - 1) = k + P := by omega
      rw [hidx]
      have hmod : (k + P) % P = k % P := by simp
      have := ih (rest.drop (P - 1)) (k + P) (by simp only [List.length_drop, List.length_cons] at hl ⊢; omega)
      rw [this, hmod]

/-- **The code shape is the specification**: `skip(p).step_by(P)` selects exactly the elements whose
index is congruent to `p` modulo `P`. -/
theorem skipStep_eq_queue (P p : Nat) (hp : p < P) (xs : List α) : skipStep P p xs = queue P p xs := by
  have hP : 0 < P := by omega
  unfold skipStep
  rw [stepBy_eq_queueFrom P hP p (xs.drop p), Nat.mod_eq_of_lt hp]
  have := queueFrom_skip P p p 0 xs (by
    intro j hj
    simp only [Nat.zero_add]
    rw [Nat.mod_eq_of_lt (by omega)]
    omega)
  simp only [Nat.zero_add] at this
  rw [← this]
  simp [queueFrom, queue]

/-- Corollary: the queues the code builds with `skip(p).step_by(P)` are a partition of the file list. -/
theorem skipStep_queues_partition {α : Type u} (P : Nat) (hP : 0 < P) (xs : List α) :
    ((List.range P).flatMap fun p => skipStep P p xs).Perm xs := by
  have h : ((List.range P).flatMap fun p => skipStep P p xs) = (List.range P).flatMap fun p => queue P p xs := by
    apply flatMap_congr_mem
    intro p hp
    exact skipStep_eq_queue P p (List.mem_range.mp hp) xs
  rw [h]
  exact queues_partition P hP xs

example : queue 3 1 ["a", "b", "c", "d", "e"] = ["b", "e"] := by decide
example : skipStep 3 1 ["a", "b", "c", "d", "e"] = ["b", "e"] := by
  rw [skipStep_eq_queue 3 1 (by omega)]; decide

/-! ## Row-group pruning is conservative -/

/-- When the loop prunes, one of the pushed constants lies outside `[lo, hi]`. -/
theorem pruneLoop_sound (lo hi : Int) (cs : List (Option Int)) (h : pruneLoop lo hi cs = true) :
    ∃ c, some c ∈ cs ∧ (c < lo ∨ hi < c) := by
  induction cs with
  | nil => simp [pruneLoop] at h
  | cons x xs ih =>
    cases x with
    | none => simp [pruneLoop] at h
    | some c =>
      simp only [pruneLoop] at h
      split at h
      · exact ⟨c, List.mem_cons_self .., Or.inl (by omega)⟩
      · split at h
        · exact ⟨c, List.mem_cons_self .., Or.inr (by omega)⟩
        · obtain ⟨c', hc', hout⟩ := ih h
          exact ⟨c', List.mem_cons_of_mem _ hc', hout⟩

/-- **Pruning only skips row groups without matches**: if `should_prune` answers `true` for a
row group whose statistics are valid in the comparison type (every value `v` of the chunk satisfies
`cast min ≤ cast v ≤ cast max`), then no row of the chunk satisfies all pushed `col = constant`
conjuncts. Statistics that are absent or inexact never prune (`no_stats_no_prune`). -/
theorem prune_conservative (cast : Int → Int) (s : Stats) (cs : List (Option Int)) (chunk : List Int)
    (hp : shouldPrune cast s cs = true)
    (hvalid : ∀ lo hi, s.min = some lo → s.max = some hi → ∀ v ∈ chunk, cast lo ≤ cast v ∧ cast v ≤ cast hi) :
    ∀ v ∈ chunk, ¬ (∀ c ∈ cs, c = some (cast v)) := by
  intro v hv hall
  unfold shouldPrune at hp
  split at hp
  · simp at hp
  · split at hp
    · rename_i lo hi hmin hmax
      obtain ⟨c, hc, hout⟩ := pruneLoop_sound _ _ _ hp
      have hb := hvalid lo hi hmin hmax v hv
      have := hall (some c) hc
      simp only [Option.some.injEq] at this
      omega
    · simp at hp

theorem no_stats_no_prune (cast : Int → Int) (s : Stats) (cs : List (Option Int))
    (h : s.min = none ∨ s.max = none ∨ s.minExact = false ∨ s.maxExact = false) :
    shouldPrune cast s cs = false := by
  unfold shouldPrune
  rcases h with h | h | h | h
  · split
    · rfl
    · simp [h]
  · split
    · rfl
    · cases s.min <;> simp [h]
  · simp [h]
  · simp [h]

/-- The hypothesis on the cast cannot be dropped: with a wrapping cast (signed statistics read as
an unsigned 8-bit comparison type) a row group holding the searched value would be pruned. -/
theorem prune_wrapping_cast_unsound :
    let cast : Int → Int := fun v => v % 256
    shouldPrune cast ⟨some (-1), some 5, true, true⟩ [some 3] = true ∧ (3 : Int) ∈ [-1, 3, 5] := by
  decide

example : shouldPrune id ⟨some 10, some 20, true, true⟩ [some 15, some 25] = true := by decide
example : shouldPrune id ⟨some 10, some 20, true, true⟩ [none, some 25] = false := by decide

end GlareModel.Props.C11
