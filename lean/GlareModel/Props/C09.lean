import GlareModel.Core.Sem
/-! # C09 — Correlated subqueries, CTEs and views mean what nested evaluation means

The identity behind decorrelation ("magic set" / dependent-join unnesting), over arbitrary
row types: evaluating a subquery once per *distinct* correlation value and joining the results
back on that value (with NULL-safe equality, `=` on `Option`) gives exactly what evaluating it
once per outer row gives — for duplicates and NULL correlation values alike. -/
namespace GlareModel.Props.C09

variable {A B K : Type} [DecidableEq K]

/-- Nested evaluation: the subquery `S` is run for every outer row. -/
def perRow (key : A → K) (S : K → List B) (outer : List A) : List (A × B) :=
  outer.flatMap fun a => (S (key a)).map fun b => (a, b)

def distinctKeys : List K → List K
  | [] => []
  | k :: ks => k :: (distinctKeys ks).filter (· ≠ k)

/-- Decorrelated plan: `D` = distinct correlation values; the subquery runs once per element of
`D`; outer rows are joined back on the correlation value. -/
def viaMagic (key : A → K) (S : K → List B) (outer : List A) : List (A × B) :=
  let D := distinctKeys (outer.map key)
  let memo : List (K × List B) := D.map fun k => (k, S k)
  outer.flatMap fun a => (memo.filter fun e => e.1 = key a).flatMap fun e => e.2.map fun b => (a, b)

theorem mem_distinctKeys (ks : List K) (k : K) : k ∈ distinctKeys ks ↔ k ∈ ks := by
  induction ks with
  | nil => simp [distinctKeys]
  | cons x xs ih =>
    simp only [distinctKeys, List.mem_cons, List.mem_filter, ih]
    constructor
    · rintro (h | ⟨h, _⟩)
      · exact Or.inl h
      · exact Or.inr h
    · intro h
      by_cases e : k = x
      · exact Or.inl e
      · rcases h with h | h
        · exact absurd h e
        · exact Or.inr ⟨h, by simpa using e⟩

theorem distinctKeys_filter_eq (ks : List K) (k : K) (h : k ∈ ks) :
    (distinctKeys ks).filter (fun x => x = k) = [k] := by
  induction ks with
  | nil => cases h
  | cons x xs ih =>
    simp only [distinctKeys, List.filter_cons]
    by_cases e : x = k
    · subst e
      simp only [decide_true, if_true, List.filter_filter]
      congr 1
      apply List.filter_eq_nil_iff.2
      intro a _
      simp
    · have hk : k ∈ xs := by
        rcases List.mem_cons.1 h with h | h
        · exact absurd h.symm e
        · exact h
      simp only [e, decide_false, Bool.false_eq_true, if_false, List.filter_filter]
      have : (distinctKeys xs).filter (fun a => (decide (a = k) && decide (a ≠ x))) = (distinctKeys xs).filter (fun a => decide (a = k)) := by
        apply List.filter_congr
        intro a _
        by_cases ak : a = k
        · subst ak; simp [Ne.symm e]
        · simp [ak]
      rw [this]
      exact ih hk

theorem flatMap_congr_mem {C : Type} {f g : A → List C} (l : List A) (h : ∀ a ∈ l, f a = g a) :
    l.flatMap f = l.flatMap g := by
  induction l with
  | nil => rfl
  | cons x xs ih =>
    simp only [List.flatMap_cons]
    rw [h x List.mem_cons_self, ih (fun a ha => h a (List.mem_cons_of_mem _ ha))]

/-- **Magic-set decorrelation is sound**: the decorrelated evaluation equals nested evaluation. -/
theorem dependent_join_via_magic (key : A → K) (S : K → List B) (outer : List A) :
    viaMagic key S outer = perRow key S outer := by
  unfold viaMagic perRow
  apply flatMap_congr_mem
  intro a ha
  have hk : key a ∈ outer.map key := List.mem_map_of_mem ha
  have : ((distinctKeys (outer.map key)).map fun k => (k, S k)).filter (fun e => e.1 = key a)
      = [(key a, S (key a))] := by
    rw [List.filter_map]
    have := distinctKeys_filter_eq (outer.map key) (key a) hk
    simp only [Function.comp_def]
    rw [this]
    rfl
  rw [this]
  simp

omit [DecidableEq K] in
/-- EXISTS as a semi join: an outer row is kept iff nested evaluation of the subquery is non-empty. -/
theorem exists_as_semi (key : A → K) (S : K → List B) (outer : List A) :
    outer.filter (fun a => !(S (key a)).isEmpty) =
      outer.filter (fun a => (perRow key S [a]).length > 0) := by
  apply List.filter_congr
  intro a _
  simp [perRow]
  cases S (key a) <;> simp

/-- The decorrelated plan with the comparison used for the join back as a parameter. -/
def viaMagicWith {A B K : Type} [DecidableEq K] (cmp : K → K → Bool) (key : A → K) (S : K → List B) (outer : List A) : List (A × B) :=
  let D := distinctKeys (outer.map key)
  let memo : List (K × List B) := D.map fun k => (k, S k)
  outer.flatMap fun a => (memo.filter fun e => cmp e.1 (key a)).flatMap fun e => e.2.map fun b => (a, b)

/-- SQL `=` on a nullable correlation value: NULL compared with anything is not TRUE. -/
def sqlEq : Option Nat → Option Nat → Bool
  | some x, some y => x == y
  | _, _ => false

/-- IS NOT DISTINCT FROM: NULL matches NULL. -/
def notDistinct : Option Nat → Option Nat → Bool
  | some x, some y => x == y
  | none, none => true
  | _, _ => false

theorem notDistinct_eq (a b : Option Nat) : notDistinct a b = decide (a = b) := by
  cases a <;> cases b <;> simp [notDistinct, Nat.beq_eq_true_eq, beq_iff_eq, decide_eq_decide]
  all_goals (rename_i x y; by_cases h : x = y <;> simp [h])

/-- Joining back with IS NOT DISTINCT FROM is the sound plan of `dependent_join_via_magic`. -/
theorem join_back_not_distinct_sound {A B : Type} (key : A → Option Nat) (S : Option Nat → List B) (outer : List A) :
    viaMagicWith notDistinct key S outer = perRow key S outer := by
  rw [← dependent_join_via_magic]
  unfold viaMagicWith viaMagic
  simp only [notDistinct_eq]

/-- **Joining back with `=` loses the outer rows whose correlation value is NULL** (the pinned
commit's plan, F37): one outer row with a NULL correlation value whose subquery returns a row -
nested evaluation returns the pair, the `=` plan returns nothing. -/
theorem join_back_sql_eq_loses_null_rows :
    viaMagicWith sqlEq (fun a : Option Nat => a) (fun _ => [1]) [none] = [] ∧
      perRow (fun a : Option Nat => a) (fun _ => [1]) [none] = [(none, 1)] := by decide

/-- `x IN (ys)` in three-valued logic over nullable integers: TRUE if some element equals `x`,
otherwise NULL if `x` or some element is NULL, otherwise FALSE. -/
def in3 (x : Option Nat) (ys : List (Option Nat)) : Option Bool :=
  match x with
  | none => if ys.isEmpty then some false else none
  | some v =>
    if ys.any (fun y => y == some v) then some true
    else if ys.any (fun y => y == none) then none
    else some false

def not3 : Option Bool → Option Bool
  | some b => some (!b)
  | none => none

/-- `WHERE x NOT IN (subquery)` keeps the rows for which NOT IN is TRUE. -/
def whereNotIn (xs ys : List (Option Nat)) : List (Option Nat) :=
  xs.filter fun x => not3 (in3 x ys) == some true

/-- The anti join on `=` that the planner produces for NOT IN. -/
def antiJoinEq (xs ys : List (Option Nat)) : List (Option Nat) :=
  xs.filter fun x => !ys.any (fun y => sqlEq x y)

/-- **NOT IN is the anti join exactly when no NULL is involved**: without NULLs on either side the
anti-join plan returns what NOT IN means. -/
theorem not_in_eq_anti_join_without_nulls (xs ys : List (Option Nat))
    (hx : ∀ x ∈ xs, x ≠ none) (hy : ∀ y ∈ ys, y ≠ none) :
    whereNotIn xs ys = antiJoinEq xs ys := by
  unfold whereNotIn antiJoinEq
  apply List.filter_congr
  intro x hxm
  cases x with
  | none => exact absurd rfl (hx none hxm)
  | some v =>
    have hnone : ys.any (fun y => y == none) = false := by
      rw [List.any_eq_false]
      intro y hym
      have := hy y hym
      cases y <;> simp_all
    have hsame : ys.any (fun y => sqlEq (some v) y) = ys.any (fun y => y == some v) := by
      congr 1
      funext y
      cases y with
      | none => simp [sqlEq]
      | some w =>
        simp only [sqlEq]
        exact BEq.comm
    simp only [in3, hnone, hsame]
    cases h : ys.any (fun y => y == some v) <;> simp [not3]

/-- With a NULL in the subquery the anti join is wrong: `2 NOT IN (1, NULL)` is NULL, so the row is
filtered out, but the anti join finds no equal element and keeps it (known finding F7). -/
theorem not_in_anti_join_wrong_with_null :
    whereNotIn [some 2] [some 1, none] = [] ∧ antiJoinEq [some 2] [some 1, none] = [some 2] := by decide

end GlareModel.Props.C09
