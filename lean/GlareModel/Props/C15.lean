import GlareModel.Core.Tokens
import GlareModel.Props.C14
/-! # C15 — Every statement text yields a result or an error; the session survives

The part of the property that is logic: the tokenizer is a total function that always terminates
(every token consumes at least one character), fails only on a character it does not handle, and
produces at most one token per input character; the nesting depth a statement asks of the
recursive-descent parser is unbounded in the input length (no guard exists at the pinned commit);
and - from the catalog/session model of C14 - a failing statement leaves catalog and settings as
they were. -/
namespace GlareModel.Props.C15
open GlareModel GlareModel.Tokens

theorem dropWhile_len_le (p : Char → Bool) (l : List Char) : (l.dropWhile p).length ≤ l.length :=
  (List.dropWhile_sublist p).length_le

theorem takeNumber_rest_le (cs : List Char) (b : Bool) : (takeNumber cs b).2.length ≤ cs.length := by
  induction cs generalizing b with
  | nil => simp [takeNumber]
  | cons c cs ih =>
    unfold takeNumber
    split
    · have := ih b; simp only [List.length_cons]; omega
    · split
      · have := ih true; simp only [List.length_cons]; omega
      · simp

theorem takeNumber_progress (c : Char) (rest : List Char) (h : (isAsciiDigit c || c == '.') = true) :
    (takeNumber (c :: rest) false).2.length ≤ rest.length := by
  unfold takeNumber
  split
  · exact takeNumber_rest_le rest false
  · split
    · exact takeNumber_rest_le rest true
    · simp_all

theorem takeQuoted_rest_le (q : Char) (cs : List Char) : (takeQuoted q cs).2.length ≤ cs.length := by
  unfold takeQuoted
  have := dropWhile_len_le (fun x => x != q) cs
  simp only [List.length_drop]
  omega

/-- **Progress**: every successful `next_token` consumes at least one character. -/
theorem nextToken_progress (cs : List Char) (t : Tok) (rest : List Char)
    (h : nextToken cs = some (.ok (t, rest))) : rest.length < cs.length := by
  cases cs with
  | nil => simp [nextToken] at h
  | cons c r =>
    have hq1 := takeQuoted_rest_le '\'' r
    have hq2 := takeQuoted_rest_le '"' r
    have hd1 := dropWhile_len_le (fun x => x != '\n') (r.drop 1)
    have hd2 := dropWhile_len_le isIdentPart r
    have hdrop : (r.drop 1).length ≤ r.length := by simp
    simp only [nextToken, Option.some.injEq] at h
    split at h
    · simp only [Except.ok.injEq, Prod.mk.injEq] at h; obtain ⟨_, rfl⟩ := h; simp
    · split at h
      · simp only [Except.ok.injEq, Prod.mk.injEq] at h; obtain ⟨_, rfl⟩ := h
        simp only [List.length_cons]; omega
      · split at h
        · simp only [Except.ok.injEq, Prod.mk.injEq] at h; obtain ⟨_, rfl⟩ := h
          simp only [List.length_cons]; omega
        · split at h
          · simp only [Except.ok.injEq, Prod.mk.injEq] at h; obtain ⟨_, rfl⟩ := h; simp
          · split at h
            · simp only [Except.ok.injEq, Prod.mk.injEq] at h; obtain ⟨_, rfl⟩ := h
              simp only [List.length_cons]; omega
            · split at h
              · rename_i hnum
                have := takeNumber_progress c r hnum
                split at h <;>
                  (simp only [Except.ok.injEq, Prod.mk.injEq] at h; obtain ⟨_, rfl⟩ := h
                   simp only [List.length_cons]; omega)
              · split at h
                · simp only [Except.ok.injEq, Prod.mk.injEq] at h; obtain ⟨_, rfl⟩ := h
                  simp only [List.length_cons]; omega
                · split at h
                  · simp only [Except.ok.injEq, Prod.mk.injEq] at h; obtain ⟨_, rfl⟩ := h
                    simp only [List.length_cons]; omega
                  · simp at h

/-- **Termination**: the fuel `cs.length` is always enough, i.e. the tokenizer's loop terminates on
every input (no input makes it spin). -/
theorem tokenizeFuel_total (fuel : Nat) (cs : List Char) (h : cs.length ≤ fuel) :
    tokenizeFuel fuel cs ≠ none := by
  induction fuel generalizing cs with
  | zero =>
    have : cs = [] := List.eq_nil_of_length_eq_zero (by omega)
    subst this; simp [tokenizeFuel]
  | succ fuel ih =>
    unfold tokenizeFuel
    cases hn : nextToken cs with
    | none => simp
    | some r =>
      cases r with
      | error c => simp
      | ok tr =>
        obtain ⟨t, rest⟩ := tr
        have hp := nextToken_progress cs t rest hn
        have := ih rest (by omega)
        simp only
        cases hr : tokenizeFuel fuel rest with
        | none => exact absurd hr this
        | some x => cases x <;> simp

theorem tokenize_total (cs : List Char) : tokenize cs ≠ none :=
  tokenizeFuel_total cs.length cs (Nat.le_refl _)

/-- At most one token per input character: the token vector cannot blow up. -/
theorem tokenizeFuel_length_le (fuel : Nat) (cs : List Char) (ts : List Tok)
    (h : tokenizeFuel fuel cs = some (.ok ts)) : ts.length ≤ cs.length := by
  induction fuel generalizing cs ts with
  | zero =>
    cases cs with
    | nil => simp [tokenizeFuel] at h; subst h; simp
    | cons c r => simp [tokenizeFuel] at h
  | succ fuel ih =>
    unfold tokenizeFuel at h
    cases hn : nextToken cs with
    | none => simp [hn] at h; subst h; simp
    | some r =>
      cases r with
      | error c => simp [hn] at h
      | ok tr =>
        obtain ⟨t, rest⟩ := tr
        have hp := nextToken_progress cs t rest hn
        simp only [hn] at h
        cases hr : tokenizeFuel fuel rest with
        | none => simp [hr] at h
        | some x =>
          cases x with
          | error c => simp [hr] at h
          | ok ts' =>
            simp [hr] at h
            subst h
            have := ih rest ts' hr
            simp only [List.length_cons]; omega

theorem tokenize_length_le (cs : List Char) (ts : List Tok) (h : tokenize cs = some (.ok ts)) :
    ts.length ≤ cs.length := tokenizeFuel_length_le _ cs ts h

/-- The only failure is a character of the input that no match arm handles. -/
theorem nextToken_error_is_head (cs : List Char) (c : Char) (h : nextToken cs = some (.error c)) :
    cs.head? = some c := by
  cases cs with
  | nil => simp [nextToken] at h
  | cons d r =>
    simp only [nextToken, Option.some.injEq] at h
    repeat' split at h
    all_goals first
      | (simp at h; done)
      | (simp only [Except.error.injEq] at h; subst h; rfl)

/-! ### The recursion depth the parser needs is unbounded in the input -/

theorem nextToken_lparen (rest : List Char) : nextToken ('(' :: rest) = some (.ok (.sym "(", rest)) := by
  cases rest with
  | nil => rfl
  | cons d r =>
    simp only [nextToken, List.head?_cons]
    have h1 : findDouble '(' d = none := by simp [findDouble, doubles]
    have h2 : findSingle '(' = some "(" := by rfl
    simp [h1, h2]
theorem nextToken_rparen (rest : List Char) : nextToken (')' :: rest) = some (.ok (.sym ")", rest)) := by
  cases rest with
  | nil => rfl
  | cons d r =>
    simp only [nextToken, List.head?_cons]
    have h1 : findDouble ')' d = none := by simp [findDouble, doubles]
    have h2 : findSingle ')' = some ")" := by rfl
    simp [h1, h2]

theorem tokenize_opens (k fuel : Nat) (rest : List Char) (ts : List Tok)
    (h : tokenizeFuel fuel rest = some (.ok ts)) :
    tokenizeFuel (fuel + k) (List.replicate k '(' ++ rest) = some (.ok (List.replicate k (Tok.sym "(") ++ ts)) := by
  induction k with
  | zero => simpa using h
  | succ k ih =>
    rw [List.replicate_succ, List.cons_append, ← Nat.add_assoc]
    simp only [tokenizeFuel, nextToken_lparen, ih]
    rfl

theorem tokenize_closes (k : Nat) :
    tokenizeFuel k (List.replicate k ')') = some (.ok (List.replicate k (Tok.sym ")"))) := by
  induction k with
  | zero => rfl
  | succ k ih =>
    rw [List.replicate_succ]
    simp only [tokenizeFuel, nextToken_rparen, ih]
    rfl

theorem nextToken_one (k : Nat) :
    nextToken ('1' :: List.replicate k ')') = some (.ok (.num ['1'], List.replicate k ')')) := by
  cases k with
  | zero => rfl
  | succ k =>
    rw [List.replicate_succ]
    rfl

def nest (k : Nat) : List Char := List.replicate k '(' ++ ('1' :: List.replicate k ')')

theorem tokenize_nest (k : Nat) :
    tokenize (nest k) = some (.ok (List.replicate k (Tok.sym "(") ++ (Tok.num ['1'] :: List.replicate k (Tok.sym ")")))) := by
  unfold tokenize nest
  have hlen : (List.replicate k '(' ++ ('1' :: List.replicate k ')')).length = (k + 1) + k := by
    simp; omega
  rw [hlen]
  apply tokenize_opens
  simp only [tokenizeFuel, nextToken_one, tokenize_closes]

theorem parenDepth_opens (k cur mx : Nat) (ts : List Tok) (hle : cur ≤ mx) :
    parenDepth (List.replicate k (Tok.sym "(") ++ ts) cur mx = parenDepth ts (cur + k) (max mx (cur + k)) := by
  induction k generalizing cur mx with
  | zero => simp [Nat.max_eq_left hle]
  | succ k ih =>
    rw [List.replicate_succ, List.cons_append]
    simp only [parenDepth]
    rw [ih _ _ (by omega)]
    congr 1
    · omega
    · omega

theorem parenDepth_closes (k cur mx : Nat) :
    parenDepth (List.replicate k (Tok.sym ")")) cur mx = mx := by
  induction k generalizing cur with
  | zero => rfl
  | succ k ih =>
    rw [List.replicate_succ]
    simp only [parenDepth]
    exact ih _

/-- The nesting depth the parser must recurse to is unbounded in the statement text: a
statement of `2k+1` characters asks for depth `k`. -/
theorem paren_depth_unbounded (k : Nat) :
    ∃ cs ts, cs.length = 2 * k + 1 ∧ tokenize cs = some (.ok ts) ∧ parenDepth ts 0 0 = k := by
  refine ⟨nest k, _, ?_, tokenize_nest k, ?_⟩
  · simp [nest]; omega
  · rw [parenDepth_opens _ _ _ _ (Nat.le_refl _)]
    simp only [parenDepth, parenDepth_closes]
    omega

/-- After an error the session's catalog and settings are as before: the statement-step
specification of C14 (`Catalog.step`) returns the unchanged state for every failing statement. -/
theorem error_leaves_session_unchanged (t : Int) (s : Catalog.Sess) (st : Catalog.Stmt) (b : Bool)
    (h : (Catalog.step t s st).2 = .err b) : (Catalog.step t s st).1 = s :=
  C14.spec_failed_stmt_changes_nothing t s st b h

example : tokenize "SELECT a1,'x''y' FROM \"T\" -- c".toList =
    some (.ok [.word "SELECT".toList false, .ws, .word "a1".toList false, .sym ",", .str ['x'], .str ['y'], .ws,
      .word "FROM".toList false, .ws, .word ['T'] true, .ws, .comment " c".toList]) := by rfl

example : tokenize "1.2.3 .. <= <>!=||::=>".toList =
    some (.ok [.num "1.2".toList, .num ".3".toList, .ws, .sym ".", .sym ".", .ws, .sym "<=", .ws, .sym "<>", .sym "<>",
      .sym "||", .sym "::", .sym "=>"]) := by rfl

example : tokenize "a ? b".toList = some (.error '?') := by rfl

end GlareModel.Props.C15
